#!/usr/bin/env python3
"""Print the DESIGN.md section 13.6 table from /verif/seeded/*/meta.json."""
import glob, json, os

rows = []
for f in sorted(glob.glob("/verif/seeded/*/meta.json")):
    m = json.load(open(f))
    det = m.get("detection", {})
    cells = []
    for key, d in sorted(det.items()):
        p = d.get('prop') or key.split(':')[0]
        if d.get("exit") == 1 and d.get("violations"):
            sg = (d.get("sigs") or [{}])[0]
            how = "/".join(str(sg[k]) for k in ("monitor", "kind", "op") if sg.get(k))
            cells.append(f"{p} {d.get('tier', 'quick')} seed {d.get('seed', 0)}: **caught** ({how[:70]}; {d.get('wall_s')} s)")
        elif d.get("exit") == 0:
            cells.append(f"{p} {d.get('tier', 'quick')} seed {d.get('seed', 0)}: missed")
        else:
            cells.append(f"{p} {d.get('tier', 'quick')} seed {d.get('seed', 0)}: exit {d.get('exit')}")
    what = (m.get("what") or "").replace("|", "\\|").replace("\n", " ")
    if len(what) > 170:
        what = what[:167] + "..."
    rows.append(f"| {m['id']} | {m['property']} | {what} | {'<br>'.join(cells) or 'not run'} |")
print("| change | breaks | what it does | checks that catch it |")
print("|---|---|---|---|")
print("\n".join(rows))
