#!/venv/bin/python
"""sweep.py --seeds 1,2,3 [--tier quick] [--props C01,C02]: run checks on the unchanged tree for several seeds;
prints one line per (property, seed): exit code, wall time, last line."""
import argparse, json, os, subprocess, sys, time
ap = argparse.ArgumentParser()
ap.add_argument("--seeds", default="1,2,3")
ap.add_argument("--tier", default="quick")
ap.add_argument("--props", default="")
a = ap.parse_args()
here = os.path.dirname(os.path.dirname(os.path.abspath(__file__)))
props = a.props.split(",") if a.props else [json.loads(l)["id"] for l in open(os.path.join(here, "properties.jsonl"))]
bad = 0
for s in a.seeds.split(","):
    for p in props:
        t0 = time.time()
        r = subprocess.run(["/venv/bin/python", os.path.join(here, "run_check.py"), p, "--tier", a.tier, "--seed", s], cwd=here, capture_output=True, text=True, env=dict(os.environ, VERIF_SEED=s))
        lines = r.stdout.strip().splitlines()
        viol = [l for l in lines if l.startswith("VIOLATION")]
        print(f"{p} seed={s} exit={r.returncode} {time.time()-t0:.0f}s {lines[-1] if lines else r.stderr[-200:]}", flush=True)
        for v in viol[:4]:
            print("   ", v, flush=True)
            m = v.split("replay=")[-1]
            try:
                sg = json.load(open(m))["sig"]
                print("    sig:", {k: sg[k] for k in sg if k not in ("features",)}, flush=True)
            except Exception:
                pass
        bad += r.returncode != 0
print("non-zero exits:", bad)
