#!/venv/bin/python
"""Confirm and evaluate seeded property-breaking changes.

  seeded.py confirm <dir> [...]   demo passes on HEAD / fails with the patch; fast suite has no regression
  seeded.py detect  <dir> [...]   run the property's quick check against the patched tree (scratch worktree)
Results are appended to <dir>/meta.json under "confirmed" / "detection"."""
import json, os, subprocess, sys, shutil, time, re

SLOW = ["tests/test_apps.py"]
WT = os.environ.get("SEEDED_WT", "/tmp/mut_wt")
TIER = os.environ.get("SEEDED_TIER", "quick")


def sh(cmd, **kw):
    return subprocess.run(cmd, shell=True, capture_output=True, text=True, **kw)


def fresh_wt():
    if not os.path.isdir(WT):
        r = sh(f"git -C /repo worktree add -f {WT} HEAD")
        assert r.returncode == 0, r.stderr
    # -f: discard whatever a previous patch left behind even when HEAD has moved since
    r = sh(f"git -C {WT} checkout -q -f --detach $(git -C /repo rev-parse HEAD) && git -C {WT} clean -fdq")
    assert r.returncode == 0, r.stderr
    assert sh(f"git -C {WT} status --porcelain").stdout.strip() == "", "scratch worktree is not clean"


def demo(d):
    env = dict(os.environ, PYTHONPATH=f"{WT}/src")
    env.pop("EXO_VERIF", None)
    r = subprocess.run(["/venv/bin/python", "demo.py"], cwd=d, env=env, capture_output=True, text=True, timeout=600)
    out = (r.stdout + r.stderr).strip().splitlines()
    return r.returncode, (out[-1] if out else "")[:300]


def confirm(d):
    meta = json.load(open(f"{d}/meta.json"))
    fresh_wt()
    rc0, l0 = demo(d)
    r = sh(f"git -C {WT} apply {d}/patch.diff")
    if r.returncode != 0:
        meta["confirmed"] = {"ok": False, "why": "patch does not apply to HEAD: " + r.stderr[:200]}
    else:
        rc1, l1 = demo(d)
        tests = "tests --ignore=tests/test_apps.py"
        s = sh(f"/venv/bin/python /verif/tools/run_suite.py --repo {WT} -n {os.environ.get('SEEDED_N','8')} {tests}", timeout=3600)
        line = (s.stdout.strip().splitlines() or ["?"])[0]
        regress = [l for l in s.stdout.splitlines() if "REGRESSION" in l]
        ok = rc0 == 0 and "FAIL" not in l0 and (rc1 != 0 or "FAIL" in l1) and not regress
        meta["confirmed"] = {"ok": ok, "demo_unchanged": [rc0, l0], "demo_changed": [rc1, l1], "suite": line, "regressions": regress[:5], "suite_cmd": f"run_suite.py -n .. {tests} (compared with BASELINE.json)", "head": sh("git -C /repo rev-parse --short HEAD").stdout.strip()}
    json.dump(meta, open(f"{d}/meta.json", "w"), indent=1)
    fresh_wt()
    print(d, meta["confirmed"].get("ok"), meta["confirmed"].get("suite"), meta["confirmed"].get("demo_changed"))


def detect(d, props=None, seed=0):
    meta = json.load(open(f"{d}/meta.json"))
    fresh_wt()
    r = sh(f"git -C {WT} apply {d}/patch.diff")
    if r.returncode != 0:
        print(d, "patch does not apply")
        return
    props = props or [meta["property"]]
    det = meta.get("detection", {})
    for p in props:
        t0 = time.time()
        # evidence and replays of a run against a patched tree never land in /verif/evidence
        side = f"/tmp/seeded_out/{os.path.basename(d)}"
        os.makedirs(side, exist_ok=True)
        env = dict(os.environ, VERIF_REPO=WT, VERIF_SEED=str(seed), VERIF_EVIDENCE=f"{side}/evidence", VERIF_REPLAYS=f"{side}/replays")
        s = subprocess.run(["/venv/bin/python", "/verif/run_check.py", p, "--tier", TIER], cwd="/verif", env=env, capture_output=True, text=True, timeout=4 * 3600)
        viol = [l for l in s.stdout.splitlines() if l.startswith("VIOLATION")]
        sigs = []
        for v in viol[:6]:
            m = re.search(r"replay=(\S+)", v)
            if m and os.path.exists(m.group(1)):
                try:
                    sg = json.load(open(m.group(1))).get("sig") or {}
                    sigs.append({k: sg.get(k) for k in ("monitor", "kind", "op", "via", "instr", "feature", "query") if sg.get(k) is not None})
                except Exception:
                    pass
        key = p if (TIER == "quick" and seed == 0) else f"{p}:{TIER}:{seed}"
        det[key] = {"prop": p, "exit": s.returncode, "violations": len(viol), "sigs": sigs, "last": (s.stdout.strip().splitlines() or [""])[-1][:200], "wall_s": round(time.time() - t0), "seed": seed, "tier": TIER, "verif_commit": sh("git -C /verif rev-parse --short HEAD").stdout.strip(), "repo_head": sh("git -C /repo rev-parse --short HEAD").stdout.strip()}
        print(d, p, "exit", s.returncode, "violations", len(viol), sigs[:2], det[key]["last"], flush=True)
    meta["detection"] = det
    json.dump(meta, open(f"{d}/meta.json", "w"), indent=1)
    fresh_wt()


def keep(d):
    """copy a confirmed change into /verif/seeded/<id>/ (patch.diff, demo.py, meta.json)"""
    meta = json.load(open(f"{d}/meta.json"))
    if not (meta.get("confirmed") or {}).get("ok"):
        print(d, "not confirmed: not kept")
        return
    name = os.path.basename(d)
    dst = f"/verif/seeded/{name}"
    os.makedirs(dst, exist_ok=True)
    for f in ("patch.diff", "demo.py"):
        shutil.copy(f"{d}/{f}", f"{dst}/{f}")
    c = meta["confirmed"]
    out = {
        "id": name,
        "property": meta["property"],
        "what": meta.get("what"),
        "needs_to_manifest": meta.get("needs"),
        "files": meta.get("files"),
        "origin": "independent sub-agent given only the property text and a scratch worktree of /repo",
        "what_i_ran": {
            "demo_on_unchanged_tree": c.get("demo_unchanged"),
            "demo_on_changed_tree": c.get("demo_changed"),
            "repository_suite_on_changed_tree": c.get("suite"),
            "suite_cmd": c.get("suite_cmd"),
            "repo_head": c.get("head"),
        },
        "detection": meta.get("detection", {}),
    }
    json.dump(out, open(f"{dst}/meta.json", "w"), indent=1)
    print(d, "kept")


if __name__ == "__main__":
    mode = sys.argv[1]
    for d in sys.argv[2:]:
        d = d.rstrip("/")
        try:
            if mode == "detect":
                detect(d, props=(os.environ.get("SEEDED_PROPS") or "").split(",") if os.environ.get("SEEDED_PROPS") else None, seed=int(os.environ.get("SEEDED_SEED", "0")))
            else:
                {"confirm": confirm, "keep": keep}[mode](d)
        except Exception as e:
            print(d, "ERROR", repr(e)[:300])
