#!/venv/bin/python
"""classify_replays.py <Cxx> <replay.json>...: re-execute recorded cases and show which open known finding (if any) matches each"""
import sys, json, subprocess
sys.path[:0]=['/verif']
from vf import verdict
prop = sys.argv[1]
kfs = [k for k in verdict.load_known_findings(prop) if k["status"]=="open"]
for f in sys.argv[2:]:
    rep, sig, text = verdict.replay_case(prop, f)
    hit = None
    if rep:
        case = json.load(open(f)).get("case") or {}
        for k in kfs:
            if verdict._match(k, sig or {}, case): hit = k["id"]; break
    print(f.split("/")[-1], "reproduced" if rep else "gone", hit, json.dumps({k: (sig or {}).get(k) for k in ("op","via","kind","diag")})[:260])
