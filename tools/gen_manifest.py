#!/usr/bin/env python3
"""Regenerates MANIFEST.json from the table below (kept in one place so that the file stays valid)."""
import json, os, sys

HERE = os.path.dirname(os.path.dirname(os.path.abspath(__file__)))
BASE = json.load(open("/root/.vp/BASELINE.json"))

CHECKS = {
 "C01": ("exploration", "differential execution in a reference interpreter of every accepted primitive application (hooked at AtomicSchedulingOp.func) on generated programs x scripts x inputs; end-to-end composition check", "refinterp-differential", "3/C01",
         "Held on K observed (program, primitive application, input) triples; no claim beyond the generated families and bounded sizes.",
         "trusts vf/refinterp.py as the semantics and the input generator's bounds (sizes <= 8, rank <= 3)"),
 "C02": ("translation_validation", "emitted C (gcc, ASan+UBSan) vs reference interpreter on embedded inputs, bit-exact in the exact class", "c-vs-interp", "3/C02",
         "Translation validation per generated program: compiled C and the interpreter agree on every input run; x86/host memories only.",
         "trusts vf/refinterp.py, gcc 12 -O1 -ffp-contract=off, the driver generator vf/cbuild.py"),
 "C04": ("exploration", "independent scope/binder validator + interpreter safety monitors + poison propagation + compile attempt on every accepted primitive application", "ir-sanitizer", "3/C04",
         "Held on K observed primitive applications: result well-scoped, event-free where the input was, no observable poison, compiles or documented rejection.",
         "trusts vf/irutil.validate and vf/refinterp.py monitors"),
 "C06": ("exploration", "forward every statement/gap/expression/block cursor across every accepted operation and 2..6-step chains; object-identity oracle; implicit-vs-explicit forwarding differential; repository tests as a second workload (W2): every primitive application they make gets the same oracle", "hook-oracle", "3/C06",
         "Held on K forwardings: invalid, or resolves and denotes the identity-shared statement.",
         "object identity of shared sub-trees as ground truth; rebuilt nodes only checked for no-dangling"),
 "C07": ("fault_enumeration", "structural fingerprints of all registered procedures + cursor re-resolution after every call (accepted, rejected, and with exceptions injected at sampled lines via sys.monitoring); same-call rerun differential, late re-runs of earlier calls and digests of the C generated for existing procedures (state carried over between calls); derived gap/block cursors re-checked; repository tests as a second workload (W2) with purity observers around every primitive call", "fingerprint+failpoints", "3/C07",
         "Held on K calls incl. F injected faults: no registered procedure, cursor or printed text changed.",
         "mutation is visible through attrs fields; fault points are statement starts in exo/rewrite, internal_cursors, API_scheduling"),
 "C08": ("exploration", "generated C run under ASan+UBSan+LeakSanitizer with exact-size argument blocks, stride-padding canaries and mprotect()ed const arguments on interpreter-clean inputs", "sanitizers", "3/C08",
         "Held on K sanitizer runs; red-zone tools miss far out-of-bounds accesses (covered on the IR side by the interpreter's exact bounds monitor).",
         "gcc 12 sanitizers; inputs the interpreter executes event-free"),
 "C09": ("exploration", "per-iteration read/write/reduce location sets of every dynamic par-loop instance recorded by the reference interpreter for every procedure that compiles", "m-par", "3/C09",
         "Held on K par-loop instances with >= 2 iterations: no two iterations conflict.",
         "sequential execution's access sets decide races; storage allocated inside an iteration is private"),
 "C11": ("exploration", "history recorded at the proc_eqv module boundary checked against a reference per-field closure model; synthetic histories (exhaustive small sub-space on the thorough tier) and real API scripts", "history+model", "3/C11",
         "Held on K histories / Q compared query answers.",
         "per-field reading of the closure (DESIGN 3/C11); module globals are the only state"),
 "C13": ("exploration", "icontract postconditions on IndexRange operators and wrappers on index_range_analysis/constant_bound/check_expr_bound(s)/infer_range/bounds_inference judged by brute-force evaluation; in-situ decisions during compile/simplify/fold, also in process histories where a derived procedure with a stronger precondition was analysed first", "contracts+bruteforce", "3/C13",
         "Held on K operator evaluations and (expression, environment) pairs; exhaustive 5x5 box on the thorough tier.",
         "python floor // and % as ground truth; sampled windows of unbounded ranges"),
 "C16": ("exploration", "real find/find_all/#n and cursor navigation compared with an independent reference matcher and navigation laws at every cursor position of generated procedures; literal vs unquoted ({python variable}) spelling of every pattern with a numeric literal", "reference-matcher", "3/C16",
         "Held on K (pattern, program) pairs and L navigation-law evaluations; only 'sure' oracle answers decide.",
         "pattern structure generated together with the pattern text; undocumented positions are not judged"),
 "C17": ("exploration", "invariant hooked on PrintEnv.get_name (two live symbols never share a printed name) + print/re-parse/re-print/execute round trip of scheduled procedures with hostile spellings; the name invariant also on everything the repository tests print (W2)", "hook+roundtrip", "3/C17",
         "Held on K printed procedures (R re-parsed and executed).",
         "procedures the surface syntax cannot express are skipped and counted"),
 "C18": ("exploration", "recorded sessions replayed in fresh interpreter processes differing in PYTHONHASHSEED, prior symbol/procedure counts (incl. the symbol counter passing a power of ten between two steps) and unrelated definitions; step outcomes, printed procedures, .c and .h compared byte-for-byte", "process-differential", "3/C18",
         "Held on K sessions x P processes.",
         "locators (paths) denote the same nodes when the IR is the same"),
}

CHECKS.update({
 "C03": ("exploration", "every procedure the front end accepts (incl. one-off unsafe twins) executed in the reference interpreter with bounds / call-precondition / shape / aliasing / loop-bound monitors on boundary inputs", "ir-sanitizer", "3/C03",
         "Held on K accepted programs x inputs: no monitor event.", "vf/refinterp.py defines the events; sampled value ranges"),
 "C05": ("exploration", "replace() on kernels obtained by inlining generated callees, with the same callee, a stricter variant and near-miss callees; result judged in the reference interpreter (equivalence, call preconditions, window containment, inline round trip)", "refinterp-differential", "3/C05",
         "Held on K successful unifications.", "callee semantics = its Exo body"),
 "C10": ("exploration", "C01's differential oracle on configuration-touching primitive applications with >= 8 random initial configuration states, the system's own reported modulo-set as exemption; call_eqv driven with derived and with other-origin callees", "refinterp-differential", "3/C10",
         "Held on K config-touching applications.", "a changed config value that is read later reaches a buffer or the final config state"),
 "C12": ("exploration", "ordered effect trace (writes/reduces on arguments, config writes, with values) and final state of p vs simplify(p) / eliminate_dead_code(p) on valid inputs with pairwise distinct buffer contents; every simplify call inside stdlib compositions hooked", "effect-trace", "3/C12",
         "Held on K simplify applications that changed the procedure.", "reads are not compared (simplify may drop one)"),
 "C19": ("exploration", "partial_eval / transpose / add_assertion / rename / make_instr / set_precision / set_memory / set_window / parallelize_loop results executed against the original on related inputs in the reference interpreter", "refinterp-differential", "3/C19",
         "Held on K applications.", "precision changes judged on real-number semantics"),
})

CHECKS.update({
 "C15": ("exploration", "every successful exo compile of generated programs x annotation changes (set_precision / set_memory / set_window, text-level annotations at call depth 2, x86 instruction callees, hostile emission shapes) is fed to gcc -c with conversion/qualifier diagnostics as errors, and an independent narrow judge of the four listed inconsistencies flags accepted programs", "gcc-acceptor+annotation-judge", "3/C15",
         "Held on K compiles / G gcc checks; the judge only flags definite inconsistencies.", "gcc 12 as the standard C compiler; the judge reads declarations only"),
})

CHECKS.update({
 "C14": ("translation_validation", "for every @instr of exo.platforms.x86 an automatically built wrapper is compiled (gcc, ASan+UBSan, AVX2/AVX-512) and compared with the reference interpreter executing the same wrapper with the instruction's Exo body, over window placements, mask/size values and operand sets; load/store round trip guards the harness", "instr-vs-body", "3/C14",
         "Translation validation per instruction: compiled expansion and Exo body agree on every exact-class input run.", "library load/store instructions as harness (validated by a round trip in every wrapper); gcc 12; this CPU's AVX2/AVX-512"),
})

PENDING = {
}

NOT_APPLICABLE = {
}


def main():
    props = [json.loads(l)["id"] for l in open(os.path.join(HERE, "properties.jsonl"))]
    checks = []
    for pid in props:
        if pid not in CHECKS:
            continue
        cat, tech, eng, ref, text, note = CHECKS[pid]
        checks.append({
            "property_id": pid,
            "quick_cmd": f"/venv/bin/python run_check.py {pid} --tier quick",
            "thorough_cmd": f"/venv/bin/python run_check.py {pid} --tier thorough",
            "evidence_file": f"/verif/evidence/{pid}.json",
            "replay_cmd_template": f"/venv/bin/python run_check.py {pid} --replay {{path}}",
            "engine": eng,
            "level_claimed": {"category": cat, "text": text, "design_ref": f"DESIGN.md section {ref}"},
            "level_note": note,
            "technique": "runtime monitoring: " + tech,
        })
    na = []
    for pid in props:
        if pid in CHECKS:
            continue
        reason = NOT_APPLICABLE.get(pid) or PENDING.get(pid) or "check not built yet in this round (runtime monitoring applies; see DESIGN.md section 3)"
        na.append({"property_id": pid, "reason": reason})
    m = {
        "version": 1,
        "setup_cmd": "/venv/bin/python run_check.py --setup",
        "hooks": {
            "guard": "EXO_VERIF",
            "enable": "run_check.py sets EXO_VERIF=1 for its worker processes; vf/hooks.py then wraps AtomicSchedulingOp.func, PrintEnv.get_name, IndexRange operators, proc_eqv functions etc. in-process (no source change in /repo; /repo is imported from its working tree, nothing is built)",
            "baseline_off_cmd": BASE["cmd"].replace("<file>", "/tmp/exo_baseline_junit.xml"),
            "source_commits": [],
            "add_only": True,
        },
        "engines": [
            {"name": "refinterp", "path": "vf/refinterp.py", "serves_properties": ["C01", "C02", "C03", "C04", "C05", "C08", "C09", "C10", "C12", "C14", "C17", "C19"], "kind_free_text": "reference interpreter for LoopIR with sanitizer-style monitors (bounds, poison, call preconditions, par-iteration access sets, effect trace)"},
            {"name": "stream", "path": "vf/stream.py", "serves_properties": ["C01", "C04", "C06", "C07", "C10", "C12", "C17", "C19"], "kind_free_text": "generated programs x random scheduling scripts, every primitive application observed through hooks"},
            {"name": "cbuild", "path": "vf/cbuild.py", "serves_properties": ["C02", "C08", "C09", "C14", "C15"], "kind_free_text": "C driver generator, gcc sanitizer builds, bit-exact output parsing"},
        ],
        "checks": checks,
        "not_applicable": na,
        "notes": "All checks: exit 0 held / exit 1 with VIOLATION line / exit 2 INCONCLUSIVE. Known findings: known_findings.json (+ vf/kf_matchers.py). See DESIGN.md.",
    }
    json.dump(m, open(os.path.join(HERE, "MANIFEST.json"), "w"), indent=1)
    print("wrote MANIFEST.json with", len(checks), "checks;", len(na), "not claimed")


if __name__ == "__main__":
    main()
