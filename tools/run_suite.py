#!/venv/bin/python
"""Run the repository's test suite (guard off) and compare with BASELINE.json.

usage: run_suite.py [--repo DIR] [-n N] [pytest args / test paths ...]
exit 0 iff every test of BASELINE.stable_pass that was run passed."""

import json
import os
import subprocess
import sys
import tempfile
import xml.etree.ElementTree as ET


def main():
    args = sys.argv[1:]
    repo = "/repo"
    n = "16"
    rest = []
    i = 0
    while i < len(args):
        if args[i] == "--repo":
            repo = args[i + 1]
            i += 2
        elif args[i] == "-n":
            n = args[i + 1]
            i += 2
        else:
            rest.append(args[i])
            i += 1
    base = json.load(open("/root/.vp/BASELINE.json"))
    stable = set(base["stable_pass"])
    fd, xml = tempfile.mkstemp(suffix=".xml")
    os.close(fd)
    env = dict(os.environ)
    env.pop("EXO_VERIF", None)
    env["PYTHONPATH"] = f"{repo}/src"
    cmd = ["/venv/bin/python", "-m", "pytest", "-q", "-p", "no:cacheprovider", "--timeout=900", "--continue-on-collection-errors", "-n", n, f"--junitxml={xml}"] + rest
    r = subprocess.run(cmd, cwd=repo, env=env, capture_output=True, text=True)
    passed, failed = set(), set()
    try:
        for tc in ET.parse(xml).getroot().iter("testcase"):
            name = f"{tc.get('classname')}::{tc.get('name')}"
            bad = any(ch.tag in ("failure", "error") for ch in tc)
            skipped = any(ch.tag == "skipped" for ch in tc)
            if bad:
                failed.add(name)
            elif not skipped:
                passed.add(name)
    finally:
        os.unlink(xml)
    regress = sorted(failed & stable)
    missing = sorted(stable - passed - failed) if not rest else []
    print(f"ran: {len(passed)} passed, {len(failed)} failed; baseline-stable regressions: {len(regress)}; stable tests not run: {len(missing)}")
    for t in regress[:40]:
        print("  REGRESSION", t)
    if r.returncode not in (0, 1):
        print(r.stdout[-2000:], r.stderr[-2000:])
    return 1 if regress or (missing and not rest) else 0


if __name__ == "__main__":
    sys.exit(main())
