#!/usr/bin/env python3
"""kf_add.py fixed <id> <property> <commit-substring> <witness> <what...>
   kf_add.py open  <id> <property> <matcher> <witness> <what...>"""
import json, subprocess, sys
mode, id_, prop, x, wit = sys.argv[1:6]
what = " ".join(sys.argv[6:])
p = "/verif/known_findings.json"
kf = json.load(open(p))
F = [f for f in kf["findings"] if f["id"] != id_]
if mode == "fixed":
    log = subprocess.check_output("git -C /repo log --format='%h %s' -60", shell=True).decode().splitlines()
    c = [l.split()[0] for l in log if x in l][0]
    F.append({"id": id_, "property": prop, "status": "fixed: " + c, "matcher": "never", "what": f"fixed: property={prop} {c} {what}", "witness": wit, "design_ref": "DESIGN.md section 5"})
else:
    F.append({"id": id_, "property": prop, "status": "open", "matcher": x, "what": what, "witness": wit, "design_ref": "DESIGN.md section 5"})
kf["findings"] = F
json.dump(kf, open(p, "w"), indent=1)
print("ok", id_)
