#!/usr/bin/env python3
"""Regenerate DESIGN.md section 13.4 (findings ledger) from known_findings.json and the
`fix:` commits of /repo.  The 'why recorded' column is kept from the existing table where an
entry already has one; new entries take theirs from WHY below."""
import json, re, subprocess

WHY = {
    "KF-C06-fission-block": "needs a block-aware forwarding function for the split (the range has to grow by one statement); found in the last hours of the project by the thorough tier",
    "KF-C04-autolift-if": "autolift_alloc is the deprecated implementation (lift_alloc is the checked one)",
    "KF-C06-liftscope-else": "needs a forwarding function of its own for the duplicated else-branch (the edits compose a wrap and a replace that map cursors of the else-branch to the replaced statement); rare shape, over-approximation is harmless for schedules that do not keep cursors into that branch",
    "KF-C04-sinkalloc-loop": "the per-iteration read-before-write analysis is a TODO in DoSinkAlloc itself (needs a new effect query)",
    "KF-C17-negzero": "benign (value unchanged); either the printer or every iterator substitution would have to normalise -0",
}

D = "/verif/DESIGN.md"
text = open(D).read()
start = text.index("**Repaired:")
end = text.index("### 13.5")
old = text[start:end]
why = {}
for line in old.splitlines():
    m = re.match(r"\| (KF-[\w-]+) \| \w+ \| .* \| (.*) \|$", line)
    if m:
        why[m.group(1)] = m.group(2)
why.update({k: v for k, v in WHY.items() if k not in why})

kf = json.load(open("/verif/known_findings.json"))["findings"]
log = subprocess.check_output("git -C /repo log --reverse --format='%h %s' 377f6312..HEAD", shell=True, text=True).splitlines()
fixes = [(l.split()[0], l.split(" ", 2)[2]) for l in log if l.split(" ", 2)[1] == "fix:"]
fixed_by = {}
for k in kf:
    if k["status"].startswith("fixed"):
        fixed_by.setdefault(k["status"].split()[-1][:8], []).append(k["property"])
out = [f"**Repaired: {len(fixes)} `fix:` commits in /repo.**  (the property whose check found the defect in parentheses)", "", "| commit | defect repaired |", "|---|---|"]
for c, subj in fixes:
    props = sorted(set(fixed_by.get(c[:8], [])))
    out.append(f"| {c} | {subj}{' (' + ', '.join(props) + ')' if props else ''} |")
opens = [k for k in kf if k["status"] == "open"]
out += ["", f"**Open findings: {len(opens)} entries (one mechanism may be listed under several properties).**", "", "| id | property | what fails | why recorded rather than repaired |", "|---|---|---|---|"]
for k in opens:
    out.append(f"| {k['id']} | {k['property']} | {k['what']} | {why.get(k['id'], '')} |")
out += ["", ""]
open(D, "w").write(text[:start] + "\n".join(out) + text[end:])
print(len(fixes), "fixes,", len(opens), "open; entries without a reason:", [k["id"] for k in opens if not why.get(k["id"])])
