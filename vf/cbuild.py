"""E5: C harness.  compile_procs_to_strings -> t.c/t.h, a generated driver.c that
embeds the inputs, gcc with ASan+UBSan(+LSan), run, parse.

Every argument buffer lives in its own exact-size malloc block (ASan red zones
at both ends); the whole underlying block (including stride padding and
margins, which act as canaries) is printed bit-exactly after the call and
compared with the interpreter's store.  Arguments the generated header
declares const live in a page that is mprotect()ed read-only during the call.
"""

import json
import os
import re
import subprocess
from fractions import Fraction
from pathlib import Path

from exo.core.LoopIR import LoopIR, T

GCC = "gcc"
BASE_FLAGS = [
    "-std=gnu11",
    "-O1",
    "-g",
    "-ffp-contract=off",
    "-Werror=incompatible-pointer-types",
    "-Werror=int-conversion",
    "-Werror=discarded-qualifiers",
    "-Werror=implicit-function-declaration",
    "-Werror=return-type",
]
SAN_FLAGS = ["-fsanitize=address,undefined", "-fno-sanitize-recover=all", "-fno-omit-frame-pointer"]

CTYPE = {
    "F32": "float",
    "F64": "double",
    "INT8": "int8_t",
    "UINT8": "uint8_t",
    "UINT16": "uint16_t",
    "INT32": "int32_t",
    "F16": "_Float16",
    "Num": "double",
}


class BuildError(Exception):
    def __init__(self, kind, text):
        super().__init__(kind + ": " + text[:400])
        self.kind = kind
        self.text = text


def c_literal(v, ctype):
    if isinstance(v, bool):
        return "1" if v else "0"
    if ctype in ("float", "double", "_Float16"):
        f = float(v)
        if f != f or f in (float("inf"), float("-inf")):
            raise ValueError("non-finite")
        lit = f.hex()
        if ctype == "float":
            lit += "f"
        return f"({ctype}){lit}"
    return str(int(v))


def parse_proto(header, name):
    """C parameter list of `void name( ... );` from the generated header"""
    m = re.search(r"\bvoid\s+" + re.escape(name) + r"\s*\((.*?)\)\s*;", header, re.S)
    if not m:
        raise BuildError("proto", f"no prototype for {name}")
    params = [p.strip() for p in m.group(1).split(",")]
    return params


_WIN_T = {"f32": "float", "f64": "double", "i8": "int8_t", "ui8": "uint8_t", "ui16": "uint16_t", "i32": "int32_t", "f16": "_Float16"}


def ctype_of_param(cparam):
    """element C type of a buffer parameter, from the generated prototype"""
    m = re.search(r"struct\s+exo_win_\d+(f32|f64|i8|ui8|ui16|i32|f16)c?\b", cparam)
    if m:
        return _WIN_T[m.group(1)]
    m = re.match(r"\s*(?:const\s+)?(\w+)\s*\*", cparam)
    if m:
        return m.group(1)
    raise BuildError("proto", f"cannot parse parameter {cparam!r}")


def uses_isa(text):
    flags = []
    if "immintrin.h" in text or "_mm256" in text or "_mm512" in text or "__m256" in text:
        flags += ["-mavx2", "-mfma", "-mf16c"]
    if "_mm512" in text or "__m512" in text or "__mmask" in text:
        flags += ["-mavx512f", "-mavx512bw", "-mavx512vl", "-mavx512dq"]
    return flags


def gen_driver(root_ir, header, specs, hname="t.h"):
    """C source of the driver for the given list of InputSpec"""
    name = str(root_ir.name)
    params = parse_proto(header, name)
    ctx_m = re.search(r"typedef struct (\w+_Context)", header)
    ctx_type = ctx_m.group(1) if ctx_m else None
    has_ctx_fields = bool(re.search(r"typedef struct \w+_Context\s*\{\s*\S", header))
    out = []
    w = out.append
    w(f'#include "{hname}"')
    w("#include <stdio.h>\n#include <stdlib.h>\n#include <string.h>\n#include <stdint.h>\n#include <stdbool.h>\n#include <sys/mman.h>\n#include <unistd.h>")
    w("static void *ro_alloc(size_t bytes, size_t *maplen) { size_t pg = (size_t)sysconf(_SC_PAGESIZE); size_t n = ((bytes + pg - 1) / pg) * pg; if (n == 0) n = pg; void *p = mmap(0, n, PROT_READ|PROT_WRITE, MAP_PRIVATE|MAP_ANONYMOUS, -1, 0); *maplen = n; return p; }")
    w("int main(void) {")
    args = list(root_ir.args)
    assert len(params) == len(args) + 1, (params, [str(a.name) for a in args])
    for k, spec in enumerate(specs):
        w("  {")
        if ctx_type and has_ctx_fields:
            w(f"    {ctx_type} ctxt; memset(&ctxt, 0, sizeof ctxt);")
            for key, v in spec.config.items():
                c, f = key.split(".", 1)
                if re.search(r"\b" + re.escape(f) + r";", header) and re.search(r"struct " + re.escape(c) + r"\b", header):
                    if isinstance(v, bool):
                        lit = "1" if v else "0"
                    elif isinstance(v, int):
                        lit = str(v)
                    else:
                        lit = float(v).hex()
                    w(f"    ctxt.{c}.{f} = {lit};")
            ctx_arg = "&ctxt"
        else:
            ctx_arg = "NULL"
        call = [ctx_arg]
        post = []
        for i, (a, sp, cparam) in enumerate(zip(args, spec.args, params[1:])):
            nm = f"a{i}"
            if sp["k"] != "buf":
                call.append(c_literal(sp["v"], "int") if sp["k"] == "int" else ("true" if sp["v"] else "false"))
                continue
            ct = ctype_of_param(cparam)
            n = len(sp["data"])
            is_const = "const" in cparam.split("*")[0] or re.search(r"exo_win_\w+c\b", cparam) is not None
            vals = ", ".join(c_literal(v, ct) for v in sp["data"])
            w(f"    static const {ct} {nm}_init[{max(n,1)}] = {{ {vals} }};")
            if is_const:
                w(f"    size_t {nm}_len; {ct} *{nm} = ({ct}*)ro_alloc({n} * sizeof({ct}), &{nm}_len);")
                w(f"    memcpy({nm}, {nm}_init, {n} * sizeof({ct})); mprotect({nm}, {nm}_len, PROT_READ);")
                post.append(f"    mprotect({nm}, {nm}_len, PROT_READ|PROT_WRITE);")
            else:
                w(f"    {ct} *{nm} = ({ct}*)malloc({max(n,1)} * sizeof({ct})); memcpy({nm}, {nm}_init, {n} * sizeof({ct}));")
            if "struct exo_win" in cparam:
                sname = re.search(r"struct\s+(\w+)", cparam).group(1)
                strides = ", ".join(str(s) for s in sp["strides"]) or "0"
                call.append(f"(struct {sname}){{ {nm} + {sp['off']}, {{ {strides} }} }}")
            else:
                call.append(f"{nm} + {sp['off']}")
        w(f"    {name}({', '.join(call)});")
        for p in post:
            w(p)
        w(f'    printf("CASE {k}\\n");')
        for i, (a, sp, cparam) in enumerate(zip(args, spec.args, params[1:])):
            if sp["k"] != "buf":
                continue
            ct = ctype_of_param(cparam)
            n = len(sp["data"])
            fmt = "%a" if ct in ("float", "double", "_Float16") else "%lld"
            cast = "(double)" if ct in ("float", "double", "_Float16") else "(long long)"
            w(f'    printf("BUF {i}"); for (int q = 0; q < {n}; q++) printf(" {fmt}", {cast}a{i}[q]); printf("\\n");')
        if ctx_type and has_ctx_fields:
            for key, v in spec.config.items():
                c, f = key.split(".", 1)
                if re.search(r"\b" + re.escape(f) + r";", header) and re.search(r"struct " + re.escape(c) + r"\b", header):
                    # the declared C type of the field decides how it is printed
                    mfld = re.search(r"struct " + re.escape(c) + r"\s*\{(.*?)\}", header, re.S)
                    mty = re.search(r"(\w+)\s+" + re.escape(f) + r";", mfld.group(1)) if mfld else None
                    is_real = (mty.group(1) in ("float", "double", "_Float16")) if mty else not isinstance(v, (bool, int))
                    if not is_real:
                        w(f'    printf("CFG {key} %lld\\n", (long long)ctxt.{c}.{f});')
                    else:
                        w(f'    printf("CFG {key} %a\\n", (double)ctxt.{c}.{f});')
        for i, (a, sp, cparam) in enumerate(zip(args, spec.args, params[1:])):
            if sp["k"] != "buf":
                continue
            is_const = "const" in cparam.split("*")[0] or re.search(r"exo_win_\w+c\b", cparam) is not None
            if is_const:
                w(f"    munmap(a{i}, a{i}_len);")
            else:
                w(f"    free(a{i});")
        w("  }")
    w('  printf("DONE\\n");')
    w("  return 0;\n}")
    return "\n".join(out) + "\n"


def parse_output(text, nspecs):
    cases = []
    cur = None
    done = False
    for line in text.splitlines():
        if line.startswith("CASE "):
            cur = {"bufs": {}, "cfg": {}}
            cases.append(cur)
        elif line.startswith("BUF ") and cur is not None:
            parts = line.split()
            vals = []
            for t in parts[2:]:
                if "x" in t or "p" in t or t in ("inf", "-inf", "nan", "-nan"):
                    try:
                        vals.append(float.fromhex(t))
                    except ValueError:
                        vals.append(float(t))
                else:
                    vals.append(int(t))
            cur["bufs"][int(parts[1])] = vals
        elif line.startswith("CFG ") and cur is not None:
            _, key, v = line.split()
            cur["cfg"][key] = float.fromhex(v) if ("x" in v or "p" in v) else int(v)
        elif line.startswith("DONE"):
            done = True
    return cases, done


def build_and_run(c_text, h_text, driver_text, workdir: Path, sanitize=True, openmp=False, extra_flags=(), run_env=None, timeout=30, tsan=False):
    """returns dict(status=..., stdout, stderr); status in ok | compile_error | san:<kind> | crash:<sig> | timeout"""
    workdir.mkdir(parents=True, exist_ok=True)
    (workdir / "t.c").write_text(c_text)
    (workdir / "t.h").write_text(h_text)
    (workdir / "driver.c").write_text(driver_text)
    flags = list(BASE_FLAGS)
    if tsan:
        flags += ["-fsanitize=thread", "-fno-omit-frame-pointer"]
    elif sanitize:
        flags += SAN_FLAGS
    if openmp:
        flags += ["-fopenmp"]
    flags += uses_isa(c_text + h_text)
    flags += list(extra_flags)
    exe = workdir / "t.exe"
    cmd = [GCC] + flags + ["t.c", "driver.c", "-lm", "-o", str(exe)]
    try:
        r = subprocess.run(cmd, cwd=str(workdir), capture_output=True, text=True, timeout=120)
    except subprocess.TimeoutExpired:
        return {"status": "timeout", "phase": "compile", "stdout": "", "stderr": ""}
    if r.returncode != 0:
        return {"status": "compile_error", "stdout": r.stdout, "stderr": r.stderr, "cmd": " ".join(cmd)}
    env = dict(os.environ)
    env["ASAN_OPTIONS"] = "detect_leaks=1:abort_on_error=0:halt_on_error=1:detect_stack_use_after_return=1"
    env["UBSAN_OPTIONS"] = "print_stacktrace=1:halt_on_error=1"
    env["LSAN_OPTIONS"] = "exitcode=23"
    if run_env:
        env.update(run_env)
    try:
        r2 = subprocess.run([str(exe)], cwd=str(workdir), capture_output=True, text=True, timeout=timeout, env=env)
    except subprocess.TimeoutExpired:
        return {"status": "timeout", "phase": "run", "stdout": "", "stderr": ""}
    status = "ok"
    err = r2.stderr
    if r2.returncode != 0 or "ERROR: AddressSanitizer" in err or "runtime error:" in err or "LeakSanitizer" in err or "WARNING: ThreadSanitizer" in err:
        if "ERROR: AddressSanitizer" in err:
            m = re.search(r"ERROR: AddressSanitizer: ([\w-]+)", err)
            status = "san:asan:" + (m.group(1) if m else "?")
        elif "runtime error:" in err:
            m = re.search(r"runtime error: ([^\n]{0,60})", err)
            msg = m.group(1) if m else "?"
            msg = re.sub(r"-?\d+", "N", msg)
            status = "san:ubsan:" + msg.strip()
        elif "LeakSanitizer" in err:
            status = "san:leak"
        elif "WARNING: ThreadSanitizer" in err:
            status = "san:tsan"
        elif r2.returncode < 0:
            status = f"crash:signal{-r2.returncode}"
        else:
            status = f"exit:{r2.returncode}"
    return {"status": status, "stdout": r2.stdout, "stderr": err[-4000:], "returncode": r2.returncode}


def compile_exo(procs, hname="t.h"):
    """exo's own compile; raises whatever exo raises"""
    from exo.API import compile_procs_to_strings

    return compile_procs_to_strings(list(procs), hname)


def gcc_syntax_check(c_text, h_text, workdir: Path, extra_flags=()):
    """gcc -c on the generated files only (C15a)"""
    workdir.mkdir(parents=True, exist_ok=True)
    (workdir / "t.c").write_text(c_text)
    (workdir / "t.h").write_text(h_text)
    flags = list(BASE_FLAGS) + uses_isa(c_text + h_text) + ["-fopenmp"] + list(extra_flags)
    r = subprocess.run([GCC] + flags + ["-c", "t.c", "-o", "t.o"], cwd=str(workdir), capture_output=True, text=True, timeout=120)
    return r.returncode == 0, r.stderr


def compare_with_interp(root_ir, spec, case_out, interp_vals, interp_cfg, exact):
    """returns list of differences between C output and interpreter final state"""
    from .refinterp import POISON, View

    diffs = []
    for i, (a, sp) in enumerate(zip(root_ir.args, spec.args)):
        if sp["k"] != "buf":
            continue
        cvals = case_out["bufs"].get(i)
        ivals = interp_vals[i].st.data
        if cvals is None or len(cvals) != len(ivals):
            diffs.append({"arg": str(a.name), "kind": "missing"})
            continue
        for k, (cv, iv) in enumerate(zip(cvals, ivals)):
            if iv is POISON:
                continue
            if isinstance(cv, float):
                if cv != cv:
                    diffs.append({"arg": str(a.name), "off": k, "c": "nan", "interp": str(iv)})
                    break
                if exact:
                    if Fraction(cv) != iv:
                        diffs.append({"arg": str(a.name), "off": k, "c": cv.hex(), "interp": str(iv)})
                else:
                    fi = float(iv)
                    if abs(cv - fi) > 1e-2 * max(1.0, abs(fi)):
                        diffs.append({"arg": str(a.name), "off": k, "c": cv, "interp": fi, "approx": True})
            else:
                if cv != iv:
                    diffs.append({"arg": str(a.name), "off": k, "c": cv, "interp": str(iv)})
            if len(diffs) > 4:
                return diffs
    for key, cv in case_out["cfg"].items():
        c, f = key.split(".", 1)
        iv = interp_cfg.get((c, f))
        if iv is None or iv is POISON:
            continue
        if isinstance(iv, bool):
            iv = int(iv)
        if isinstance(cv, float):
            ok = (Fraction(cv) == iv) if exact else abs(cv - float(iv)) <= 1e-2 * max(1.0, abs(float(iv)))
        else:
            ok = cv == iv
        if not ok:
            diffs.append({"cfg": key, "c": cv, "interp": str(iv)})
    return diffs
