"""python -m vf.replay <prop> <case.json> [<case.json> ...]: re-execute cases in one
fresh process; prints one line `REPLAY-RESULT <path> {...}` per case."""

import importlib
import json
import sys
import traceback


def main(argv):
    prop = argv[0]
    paths = argv[1:]
    from .common import install_speedups

    install_speedups()
    mod = importlib.import_module(f"vf.props.{prop}")
    for path in paths:
        try:
            d = json.loads(open(path).read())
            case = d.get("case", d)
            res = mod.replay(case)
        except BaseException as e:  # noqa
            traceback.print_exc()
            res = {"reproduced": None, "error": repr(e)[:300]}
        if res.get("reproduced") and len(paths) == 1:
            print(f"reproduced: {json.dumps(res.get('sig'), default=str)[:2000]}")
            if res.get("detail"):
                print(str(res["detail"])[:6000])
        out = {k: v for k, v in res.items() if k != "detail"}
        print("REPLAY-RESULT " + path + " " + json.dumps(out, default=str), flush=True)


if __name__ == "__main__":
    main(sys.argv[1:])
