"""python -m vf.replay <prop> <case.json>: re-execute one case, print REPLAY-RESULT {...}"""

import importlib
import json
import sys
import traceback


def main(argv):
    prop, path = argv[:2]
    d = json.loads(open(path).read())
    case = d.get("case", d)
    from .common import install_speedups

    install_speedups()
    mod = importlib.import_module(f"vf.props.{prop}")
    try:
        res = mod.replay(case)
    except BaseException as e:  # noqa
        traceback.print_exc()
        res = {"reproduced": None, "error": repr(e)}
    if res.get("reproduced"):
        print(f"reproduced: {json.dumps(res.get('sig'), default=str)[:2000]}")
        if res.get("detail"):
            print(str(res["detail"])[:6000])
    print("REPLAY-RESULT " + json.dumps(res, default=str))


if __name__ == "__main__":
    main(sys.argv[1:])
