"""Shared plumbing for the property drivers that ride on the scheduling stream."""

import pathlib
import random
import shutil
import tempfile
from collections import Counter

from .gen_prog import load_program
from .gen_sched import Session, apply_step


class CollectCtx:
    """stand-in for ShardCtx used by replay(): collects what the monitors emit"""

    def __init__(self, seed=0):
        self.rng = random.Random(seed)
        self.violations = []
        self.stats = Counter()
        self.params = {}
        self.seed = 0
        self.shard = 0
        self._nsamples = 10**6
        self.scratch = pathlib.Path(tempfile.mkdtemp(prefix="vf_replay_"))

    def stat(self, k, n=1):
        self.stats[k] += n

    def inconclusive(self, k, n=1):
        self.stats["inconc." + k] += n

    def distinct(self, h, nontrivial=True):
        pass

    def sample(self, obj, limit=3):
        pass

    def violation(self, sig, case):
        self.violations.append((sig, case))

    def out_of_time(self):
        return False

    def flush_stats(self):
        pass

    def close(self):
        shutil.rmtree(self.scratch, ignore_errors=True)


def replay_through(case, monitor_factory, match=None):
    """re-run the whole script of a case under fresh monitors; reproduced iff a
    violation with the same (monitor, kind, op) is emitted again"""
    ctx = CollectCtx()
    try:
        mod = load_program(case["text"], ctx.scratch, tag="replay")
        sess = Session(mod, case["root"], case["text"])
        sess.apply_prelude(case.get("prelude"))
        mons = monitor_factory(ctx, case)
        for m in mons:
            m.on_program(sess)
        steps = case["steps"]
        for k, st in enumerate(steps):
            old = sess.cur
            for m in mons:
                m.before_step(sess, st)
            r = apply_step(sess, st)
            for m in mons:
                m.last_step = k == len(steps) - 1
                m.after_step(sess, st, old, r)
            if r.status != "accepted" and k < len(steps) - 1:
                return {"reproduced": False, "detail": f"replay diverged at step {k} ({st['op']}): {r.exc!r}"}
        for m in mons:
            m.on_end(sess)
        want = match or (lambda sig: True)
        hits = [(s, c) for s, c in ctx.violations if want(s)]
        if hits:
            s, c = hits[0]
            det = {k: v for k, v in c.items() if k not in ("text", "steps", "input")}
            return {"reproduced": True, "sig": s, "detail": _fmt(det)}
        return {"reproduced": False, "detail": f"no monitor fired ({dict(ctx.stats)})"}
    finally:
        ctx.close()


def _fmt(d):
    out = []
    for k, v in d.items():
        if isinstance(v, str) and "\n" in v:
            out.append(f"--- {k} ---\n{v}")
        else:
            out.append(f"{k}: {v}")
    return "\n".join(out)


def same_mechanism(case_sig):
    keys = ("monitor", "kind", "op")

    def f(sig):
        return all(sig.get(k) == case_sig.get(k) for k in keys if k in case_sig)

    return f


def per_op_coverage(agg, need_classes, min_each=5):
    judged = {k[len("op.judged."):]: v for k, v in agg.stats.items() if k.startswith("op.judged.")}
    accepted = {k[len("op.accepted."):]: v for k, v in agg.stats.items() if k.startswith("op.accepted.")}
    attempted = {k[len("op.attempted."):]: v for k, v in agg.stats.items() if k.startswith("op.attempted.")}
    classes = sum(1 for v in judged.values() if v >= min_each)
    inc = []
    if classes < need_classes:
        inc.append(f"only {classes} operation classes with >={min_each} judged applications (need {need_classes})")
    cov = {
        "per_primitive": {
            op: {"attempted": attempted.get(op, 0), "accepted": accepted.get(op, 0), "judged": judged.get(op, 0)}
            for op in sorted(set(attempted) | set(judged))
        },
        "primitive_classes_ge%d" % min_each: classes,
        "programs": agg.stats.get("programs.accepted", 0),
    }
    return cov, inc
