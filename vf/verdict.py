"""Master side of a check: known findings, shard fan-out, three-valued verdict,
evidence file, replay files."""

import importlib
import json
import os
import subprocess
import sys
import time
from pathlib import Path

from . import common
from .workers import run_shards


def load_known_findings(prop):
    p = common.VERIF / "known_findings.json"
    if not p.exists():
        return []
    data = json.loads(p.read_text())
    return [k for k in data.get("findings", []) if k.get("property") == prop]


def _match(kf, sig, case):
    from . import kf_matchers

    fn = getattr(kf_matchers, kf["matcher"], None)
    if fn is None:
        return False
    if kf.get("id") in (os.environ.get("VERIF_KF_AUDIT") or "").split(","):
        return False  # matcher audit: show what this entry would absorb (never set by a registered command)
    try:
        return bool(fn(sig, case))
    except Exception:
        return False


def replay_cases(prop, paths, timeout=900):
    """Re-execute recorded cases in ONE fresh process.
    Returns {path: (reproduced: bool|None, sig)} and the process output."""
    paths = [str(p) for p in paths]
    if not paths:
        return {}, ""
    env = common.worker_env()
    try:
        r = subprocess.run(
            [common.PY, "-m", "vf.replay", prop] + paths,
            cwd=str(common.VERIF),
            env=env,
            capture_output=True,
            text=True,
            timeout=timeout,
        )
        text = r.stdout + r.stderr
    except subprocess.TimeoutExpired as e:
        text = (e.stdout or b"").decode(errors="replace") if isinstance(e.stdout, bytes) else (e.stdout or "")
        text += "\nreplay watchdog"
    out = {p: (None, None) for p in paths}
    for line in text.splitlines():
        if line.startswith("REPLAY-RESULT "):
            rest = line[len("REPLAY-RESULT ") :]
            p, _, js = rest.partition(" ")
            try:
                d = json.loads(js)
            except Exception:
                continue
            out[p] = (d.get("reproduced"), d.get("sig"))
    return out, text


def replay_case(prop, path, timeout=600):
    out, text = replay_cases(prop, [path], timeout)
    rep, sig = out.get(str(path), (None, None))
    return rep, sig, text


def run_w2(prop, w2, agg):
    """run repository tests with vf.pytest_plugin loaded; merge its records into agg"""
    import glob
    import tempfile

    tmp = tempfile.mkdtemp(prefix="vf_w2_")
    out = os.path.join(tmp, "w2.jsonl")
    env = common.worker_env({"VF_W2_OUT": out, "VF_W2_MONITORS": ",".join(w2.get("monitors", [prop]))})
    cmd = [common.PY, "-m", "pytest", "-q", "-p", "no:cacheprovider", "-p", "vf.pytest_plugin", "-n", str(w2.get("n", common.NCPU)), "--timeout=600"] + list(w2["tests"])
    try:
        subprocess.run(cmd, cwd=str(common.REPO), env=env, capture_output=True, text=True, timeout=w2.get("timeout", 1500))
    except subprocess.TimeoutExpired:
        agg.inconc["w2_watchdog"] += 1
    n = 0
    for f in glob.glob(out + ".*"):
        before = agg.shards_done + agg.shards_failed
        agg.read(f)
        n += 1
    # W2 files are not shards of the generated workload
    agg.shards_done -= min(agg.shards_done, n)
    agg.stats["w2.files"] += n
    import shutil

    shutil.rmtree(tmp, ignore_errors=True)


def write_replay(prop, viol):
    d = common.REPLAYS / prop
    d.mkdir(parents=True, exist_ok=True)
    h = common.jhash({"sig": viol.get("sig"), "case": viol.get("case")})
    p = d / f"{h}.json"
    p.write_text(
        json.dumps(
            {"property": prop, "sig": viol.get("sig"), "case": viol.get("case")},
            indent=1,
            default=str,
        )
    )
    return p


def run_property(prop, tier, seed):
    t0 = time.time()
    common.ensure_deps()
    mod = importlib.import_module(f"vf.props.{prop}")
    plan = mod.plan(tier, seed)
    kfs = load_known_findings(prop)
    open_kfs = [k for k in kfs if k.get("status") == "open"]
    fixed_kfs = [k for k in kfs if str(k.get("status", "")).startswith("fixed")]
    printed_kf = set()
    unlisted = []
    kf_replayed = []

    # 1. replay the committed witnesses of listed findings (one fresh process)
    wit = {}
    for k in open_kfs + fixed_kfs:
        w = k.get("witness")
        if w and (common.VERIF / w).exists():
            wit[k["id"]] = common.VERIF / w
    results, _ = replay_cases(prop, list(wit.values()))
    for k in open_kfs + fixed_kfs:
        wp = wit.get(k["id"])
        if wp is None:
            continue
        rep, sig = results.get(str(wp), (None, None))
        kf_replayed.append({"id": k["id"], "status": k["status"], "reproduced": rep})
        if k in open_kfs:
            if rep:
                print(f"KNOWN-FINDING: property={prop} {k['what']}")
                printed_kf.add(k["id"])
        else:
            if rep:
                # a repaired defect has returned
                unlisted.append({"sig": sig or {"regression_of": k["id"]}, "case": None, "path": wp})

    # 2. the workload
    agg = run_shards(
        prop,
        plan["nshards"],
        seed,
        tier,
        plan.get("params", {}),
        plan.get("hard_timeout_s", 3600),
        plan.get("max_par"),
    )

    # 2b. W2: the repository's own tests under the hooks (optional per driver)
    if hasattr(mod, "w2"):
        w2 = mod.w2(tier)
        if w2:
            run_w2(prop, w2, agg)

    # 3. classify violations
    matched = {}
    for v in agg.violations:
        hit = None
        for k in open_kfs:
            if _match(k, v.get("sig") or {}, v.get("case") or {}):
                hit = k
                break
        if hit is not None:
            matched[hit["id"]] = matched.get(hit["id"], 0) + 1
            if hit["id"] not in printed_kf:
                print(f"KNOWN-FINDING: property={prop} {hit['what']}")
                printed_kf.add(hit["id"])
        else:
            unlisted.append(v)

    # dedupe unlisted by signature so that one defect yields few lines
    seen = set()
    nviol = 0
    for v in unlisted:
        key = common.jhash(v.get("sig"))
        if key in seen:
            continue
        seen.add(key)
        nviol += 1
        path = v.get("path") or write_replay(prop, v)
        if nviol <= 25:
            print(f"VIOLATION property={prop} replay={path}")

    # 4. verdict + evidence
    fin = mod.finish(agg, tier) if hasattr(mod, "finish") else {}
    inconclusive_reasons = list(fin.get("inconclusive", []))
    coverage = {
        "evaluations": int(fin.get("evaluations", agg.stats.get("evaluations", 0))),
        "distinct_nontrivial": len(agg.distinct_nt),
        "distinct_total": len(agg.distinct),
        "rule": fin.get("rule", getattr(mod, "RULE", "")),
        "samples": (agg.samples[:6] or fin.get("samples") or []),
        "stats": dict(sorted(agg.stats.items())),
        "inconclusive": dict(agg.inconc),
        "known_findings_replayed": kf_replayed,
        "known_findings_matched": matched,
        "shards": {"done": agg.shards_done, "failed": agg.shards_failed},
    }
    for k, v in fin.get("coverage", {}).items():
        coverage[k] = v
    if agg.shard_errors:
        coverage["shard_errors"] = agg.shard_errors[:4]
    if agg.shards_failed > max(1, plan["nshards"] // 4):
        inconclusive_reasons.append(
            f"{agg.shards_failed}/{plan['nshards']} shards did not finish"
        )
    if coverage["evaluations"] < 1 or coverage["distinct_nontrivial"] < 2:
        inconclusive_reasons.append("too few observations")
    ev = {
        "property_id": prop,
        "tier": tier,
        "seed": int(seed),
        "level": getattr(mod, "LEVEL", "exploration"),
        "coverage": coverage,
        "assumptions": list(getattr(mod, "ASSUMPTIONS", [])),
        "wall_s": round(time.time() - t0, 2),
        "violations": nviol,
        "verdict": "violated"
        if nviol
        else ("inconclusive" if inconclusive_reasons else "held_on_observed"),
        "inconclusive_reasons": inconclusive_reasons,
    }
    common.EVIDENCE.mkdir(exist_ok=True)
    (common.EVIDENCE / f"{prop}.json").write_text(json.dumps(ev, indent=1, default=str))

    if nviol:
        print(f"{prop}: VIOLATED ({nviol} distinct unlisted signature(s))")
        return 1
    if inconclusive_reasons:
        print(f"{prop}: INCONCLUSIVE: " + "; ".join(inconclusive_reasons))
        return 2
    print(
        f"{prop}: held on {coverage['evaluations']} evaluations "
        f"({coverage['distinct_nontrivial']} distinct non-trivial), "
        f"{len(printed_kf)} known finding(s), {ev['wall_s']} s"
    )
    return 0
