"""C15 judge: a deliberately NARROW, independent classifier of annotation
inconsistencies over LoopIR (DESIGN.md section 3/C15).

`judge(root)` walks the procedure that is about to be compiled and every callee
reachable from it (the bodies of instruction procedures are not compiled by exo,
so only the call boundary towards them is looked at) and reports the *definite*
inconsistencies, in exactly the ways property C15 lists:

  precision_mixed          two different concrete precisions are operands of one
                           arithmetic operator / one extern application
  precision_call           a buffer of concrete precision P is bound to a callee
                           parameter declared with another concrete precision Q
  memory_call              a buffer in memory M is bound to a callee parameter
                           annotated with N and M is not N nor a subclass of N
  window_to_dense          a window (window expression, name bound by a window
                           statement, window-typed parameter) is bound to a
                           parameter declared as a dense tensor
  forbidden_direct_access  a read / assignment / reduction, in a compiled body,
                           of a buffer whose memory class cannot be read /
                           written / reduced

Everything is derived from the *declarations* (argument types and memories,
allocations, window statements), never from the `type` field cached on the
expression nodes, and never from exo's backend analyses.

Rules that keep the judge narrow (when unsure: consistent):
  * `R` is "unknown": it never conflicts with anything.
  * constants have no precision of their own (they adapt).
  * an assignment / reduction whose right-hand side has another precision than
    the destination is NOT an inconsistency: exo converts at the store with an
    explicit cast and its own test-suite documents that as intended
    (tests/test_precision.py::test_good_prec1).  It is only counted
    (`info` entries of kind assign_cast).
  * index / size / bool expressions are never looked at.
"""

from exo.core.LoopIR import LoopIR, T
from exo.core.memory import Memory, MemGenError, DRAM

KINDS = (
    "precision_mixed",
    "precision_call",
    "memory_call",
    "window_to_dense",
    "forbidden_direct_access",
)

_PREC_CLASS = {
    "F16": "f16",
    "F32": "f32",
    "F64": "f64",
    "INT8": "i8",
    "UINT8": "ui8",
    "UINT16": "ui16",
    "INT32": "i32",
}


def _base(t):
    """scalar base type of a (tensor / window / scalar) numeric type"""
    if isinstance(t, T.Tensor):
        return t.type
    if isinstance(t, T.Window):
        return _base(t.as_tensor)
    return t


def prec_name(t):
    """'f32', ... for a concrete precision; None for R / anything else"""
    return _PREC_CLASS.get(type(_base(t)).__name__)


def _is_numeric_decl(t):
    b = _base(t)
    return type(b).__name__ in _PREC_CLASS or type(b).__name__ == "Num"


class Decl:
    __slots__ = ("name", "prec", "mem", "window", "rank", "how")

    def __init__(self, name, prec, mem, window, rank, how):
        self.name = name
        self.prec = prec  # str | None (R)
        self.mem = mem if mem is not None else DRAM
        self.window = window
        self.rank = rank
        self.how = how  # "arg" | "alloc" | "winstmt"


def _rank(t):
    if isinstance(t, T.Tensor):
        return len(t.hi)
    if isinstance(t, T.Window):
        return _rank(t.as_tensor)
    return 0


# ----------------------------------------------------------------------------
# what a memory class permits (asked of the class itself, not of the compiler)
def mem_can_read(mem):
    try:
        return bool(mem.can_read())
    except Exception:
        return True  # unsure


def _mem_permits(mem, what, stmt):
    """does `mem.write/reduce` produce code (True) or refuse (False)?"""
    try:
        getattr(mem, what)(stmt, "lhs", "rhs")
        return True
    except MemGenError:
        return False
    except Exception:
        return True  # unsure


class Finding(dict):
    pass


class _Judge:
    def __init__(self):
        self.findings = []
        self.info = []
        self.visited = set()
        self.nprocs = 0
        self.ncalls = 0
        self.depth = 0

    def add(self, kind, proc, detail):
        self.findings.append(Finding(kind=kind, proc=str(proc.name), detail=detail))

    # -- expressions ---------------------------------------------------------
    def prec_of(self, e, env, proc):
        """concrete precision of a numeric expression or None; reports mixed
        operands and forbidden reads on the way"""
        if isinstance(e, LoopIR.Read):
            d = env.get(e.name)
            if d is None:
                return None  # an index / size / bool variable
            if not mem_can_read(d.mem):
                self.add("forbidden_direct_access", proc, f"read of {e.name} in {d.mem.name()}")
            return d.prec
        if isinstance(e, LoopIR.Const):
            return None
        if isinstance(e, LoopIR.USub):
            return self.prec_of(e.arg, env, proc)
        if isinstance(e, LoopIR.BinOp):
            l = self.prec_of(e.lhs, env, proc)
            r = self.prec_of(e.rhs, env, proc)
            if l is not None and r is not None and l != r:
                self.add("precision_mixed", proc, f"{l} {e.op} {r}")
                return None
            return l if l is not None else r
        if isinstance(e, LoopIR.Extern):
            ps = [self.prec_of(a, env, proc) for a in e.args]
            conc = [p for p in ps if p is not None]
            if len(set(conc)) > 1:
                self.add("precision_mixed", proc, f"extern {e.f.name()}({', '.join(map(str, ps))})")
                return None
            return conc[0] if conc else None
        if isinstance(e, LoopIR.ReadConfig):
            try:
                return prec_name(e.config.lookup_type(e.field))
            except Exception:
                return None
        return None

    # -- statements ------------------------------------------------------------
    def block(self, body, env, proc):
        env = dict(env)
        for s in body:
            if isinstance(s, (LoopIR.Assign, LoopIR.Reduce)):
                d = env.get(s.name)
                rp = self.prec_of(s.rhs, env, proc)
                if d is not None:
                    what = "write" if isinstance(s, LoopIR.Assign) else "reduce"
                    if not _mem_permits(d.mem, what, s):
                        self.add("forbidden_direct_access", proc, f"{what} of {s.name} in {d.mem.name()}")
                    if rp is not None and d.prec is not None and rp != d.prec:
                        self.info.append({"kind": "assign_cast", "proc": str(proc.name), "detail": f"{d.prec} <- {rp}"})
            elif isinstance(s, LoopIR.WriteConfig):
                self.prec_of(s.rhs, env, proc)
            elif isinstance(s, LoopIR.If):
                self.block(s.body, env, proc)
                self.block(s.orelse, env, proc)
            elif isinstance(s, LoopIR.For):
                self.block(s.body, env, proc)
            elif isinstance(s, LoopIR.Alloc):
                env[s.name] = Decl(s.name, prec_name(s.type), s.mem, False, _rank(s.type), "alloc")
            elif isinstance(s, LoopIR.WindowStmt):
                src = env.get(s.rhs.name) if isinstance(s.rhs, LoopIR.WindowExpr) else None
                if src is not None:
                    rank = sum(1 for w in s.rhs.idx if isinstance(w, LoopIR.Interval))
                    env[s.name] = Decl(s.name, src.prec, src.mem, True, rank, "winstmt")
            elif isinstance(s, LoopIR.Call):
                self.call(s, env, proc)

    def call(self, s, env, proc):
        self.ncalls += 1
        f = s.f
        if len(s.args) != len(f.args):
            return
        for a, fa in zip(s.args, f.args):
            if not _is_numeric_decl(fa.type):
                continue
            # the buffer that is handed over
            if isinstance(a, LoopIR.WindowExpr):
                d = env.get(a.name)
                is_window = True
            elif isinstance(a, LoopIR.Read) and not a.idx:
                d = env.get(a.name)
                is_window = bool(d.window) if d is not None else False
            else:
                continue  # not a plain buffer: out of the judge's scope
            if d is None:
                continue
            pp = prec_name(fa.type)
            if d.prec is not None and pp is not None and d.prec != pp:
                self.add("precision_call", proc, f"{a.name}: {d.prec} -> {f.name}.{fa.name}: {pp}")
            pm = fa.mem if fa.mem is not None else DRAM
            try:
                ok = issubclass(d.mem, pm)
            except TypeError:
                ok = True
            if not ok:
                self.add("memory_call", proc, f"{a.name} @ {d.mem.name()} -> {f.name}.{fa.name} @ {pm.name()}")
            if isinstance(fa.type, T.Tensor) and not fa.type.is_window and is_window:
                self.add("window_to_dense", proc, f"{a.name} (window) -> {f.name}.{fa.name} (dense)")
        self.proc(f)

    def proc(self, p, depth=0):
        if id(p) in self.visited:
            return
        self.visited.add(id(p))
        if p.instr is not None:
            return  # not compiled: only the boundary counts
        self.nprocs += 1
        env = {}
        for a in p.args:
            if _is_numeric_decl(a.type):
                win = isinstance(a.type, T.Tensor) and bool(a.type.is_window)
                env[a.name] = Decl(a.name, prec_name(a.type), a.mem, win, _rank(a.type), "arg")
        self.block(p.body, env, p)


def judge(root_ir):
    """returns (findings, info, stats) for the procedure and all its callees"""
    j = _Judge()
    j.proc(root_ir)
    # one entry per (kind, proc, detail)
    seen = set()
    out = []
    for f in j.findings:
        k = (f["kind"], f["proc"], f["detail"])
        if k not in seen:
            seen.add(k)
            out.append(f)
    return out, j.info, {"procs": j.nprocs, "calls": j.ncalls}


def kinds_of(findings):
    return sorted({f["kind"] for f in findings})


# ----------------------------------------------------------------------------
def annotation_vector(root_ir):
    """[(proc, buffer, precision, memory, window?)...] of root and callees, in
    declaration order (for samples and evidence)"""
    out = []
    seen = set()

    def blk(body, pname):
        for s in body:
            if isinstance(s, LoopIR.Alloc):
                out.append((pname, str(s.name), prec_name(s.type) or "R", (s.mem or DRAM).name(), False))
            elif isinstance(s, LoopIR.For):
                blk(s.body, pname)
            elif isinstance(s, LoopIR.If):
                blk(s.body, pname)
                blk(s.orelse, pname)
            elif isinstance(s, LoopIR.Call):
                walk(s.f)

    def walk(p):
        if id(p) in seen:
            return
        seen.add(id(p))
        for a in p.args:
            if _is_numeric_decl(a.type):
                win = isinstance(a.type, T.Tensor) and bool(a.type.is_window)
                out.append((str(p.name), str(a.name), prec_name(a.type) or "R", (a.mem or DRAM).name(), win))
        if p.instr is None:
            blk(p.body, str(p.name))

    walk(root_ir)
    return out


def call_depth(root_ir):
    """longest chain of non-instruction calls below root (0 = no call)"""
    memo = {}

    def d(p):
        if id(p) in memo:
            return memo[id(p)]
        memo[id(p)] = 0
        best = 0

        def blk(body):
            nonlocal best
            for s in body:
                if isinstance(s, LoopIR.Call):
                    best = max(best, 1 + (d(s.f) if s.f.instr is None else 0))
                elif isinstance(s, LoopIR.For):
                    blk(s.body)
                elif isinstance(s, LoopIR.If):
                    blk(s.body)
                    blk(s.orelse)

        if p.instr is None:
            blk(p.body)
        memo[id(p)] = best
        return best

    return d(root_ir)
