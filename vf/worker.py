"""Entry point of a shard subprocess: python -m vf.worker <prop> <shard> <n> <seed> <tier> <out> <params.json>"""

import importlib
import json
import sys
import traceback


def main(argv):
    prop, shard, nshards, seed, tier, out, pfile = argv[:7]
    params = json.loads(open(pfile).read())
    from .workers import ShardCtx
    from .common import install_speedups

    install_speedups()

    ctx = ShardCtx(prop, int(shard), int(nshards), int(seed), tier, out, params)
    mod = importlib.import_module(f"vf.props.{prop}")
    try:
        mod.shard(ctx)
    except BaseException:
        traceback.print_exc()
        ctx.inconclusive("shard_exception")
        ctx.flush_stats()
        # no "done" record: the master counts the shard as failed
        sys.exit(3)
    ctx.close()


if __name__ == "__main__":
    main(sys.argv[1:])
