"""Reference model of procedure equivalence for property C11.

The model is the literal reading of the property: the *undirected multigraph of
recorded steps*.  Nodes are procedures (any hashable id), every step
`derive(parent, child, K)` / `assert_eqv(a, b, K)` is an edge labelled with the
set K of configuration fields it may have disturbed (assert_eqv: K = {} unless
given).  `decl` adds an isolated node.

  f-connected(a, b)  iff  a path joins a and b whose edges all have  f not in K
  connected(a, b)    iff  a path joins them at all (labels ignored)
  strictest(a, b)    =   {f in ALL fields ever mentioned : not f-connected(a,b)}
                          defined iff connected(a, b), else None
  eqv(a, b, K)       iff  connected(a, b) and strictest(a, b) <= K

No union-find, no per-field copies, nothing lazy: every answer is recomputed by
graph search from the list of steps.  Two implementations are kept: the fast one
(adjacency lists, search restricted to the component of `a`, per-version cache)
and `*_naive` (fixpoint relabelling over the flat step list and over the whole
field set) which the driver uses to cross-check the fast one on a sample.
"""


class RefEqv:
    def __init__(self):
        self.adj = {}  # node -> [(neighbour, K)]
        self.steps = []  # (a, b, K) in history order
        self.fields = {}  # field -> index of the step that first mentioned it
        self.version = 0
        self._cache = {}

    # -- history ---------------------------------------------------------
    def decl(self, a):
        if a not in self.adj:
            self.adj[a] = []
            self.version += 1
            self._cache.clear()

    def step(self, a, b, K=frozenset()):
        K = frozenset(K)
        self.decl(a)
        self.decl(b)
        for f in K:
            self.fields.setdefault(f, len(self.steps))
        self.steps.append((a, b, K))
        self.adj[a].append((b, K))
        self.adj[b].append((a, K))
        self.version += 1
        self._cache.clear()

    def known(self, a):
        return a in self.adj

    # -- queries (fast) --------------------------------------------------
    def component(self, a, without=None):
        """Nodes reachable from a by edges whose label does not contain `without`
        (without=None: every edge counts)."""
        key = (a, without)
        hit = self._cache.get(key)
        if hit is not None:
            return hit
        seen = {a}
        todo = [a]
        while todo:
            x = todo.pop()
            for y, K in self.adj[x]:
                if y not in seen and (without is None or without not in K):
                    seen.add(y)
                    todo.append(y)
        comp = frozenset(seen)
        for x in comp:
            self._cache[(x, without)] = comp
        return comp

    def connected(self, a, b, without=None):
        return b in self.component(a, without)

    def strictest(self, a, b):
        comp = self.component(a)
        if b not in comp:
            return None
        # a field that labels no edge inside the component cannot cut it
        cand = set()
        for x in comp:
            for _, K in self.adj[x]:
                cand |= K
        return frozenset(f for f in cand if b not in self.component(a, f))

    def eqv(self, a, b, K=frozenset()):
        s = self.strictest(a, b)
        return s is not None and s <= frozenset(K)

    def path_eqv(self, a, b, K=frozenset()):
        """Stricter, single-path reading: one path whose every edge label is a
        subset of K.  Informational only (path_eqv => eqv, not conversely)."""
        K = frozenset(K)
        seen = {a}
        todo = [a]
        while todo:
            x = todo.pop()
            for y, L in self.adj[x]:
                if y not in seen and L <= K:
                    seen.add(y)
                    todo.append(y)
        return b in seen

    # -- queries (naive, definition-shaped) ---------------------------------
    def _labels_naive(self, without):
        lab = {x: i for i, x in enumerate(self.adj)}
        changed = True
        while changed:
            changed = False
            for a, b, K in self.steps:
                if without is not None and without in K:
                    continue
                if lab[a] != lab[b]:
                    m = min(lab[a], lab[b])
                    lab[a] = lab[b] = m
                    changed = True
        return lab

    def strictest_naive(self, a, b):
        lab = self._labels_naive(None)
        if lab[a] != lab[b]:
            return None
        out = set()
        for f in self.fields:  # ALL fields ever mentioned, not only nearby ones
            lf = self._labels_naive(f)
            if lf[a] != lf[b]:
                out.add(f)
        return frozenset(out)
