"""E3: catalogue of scheduling operations, argument synthesis from the IR of the
current procedure, and recordable / replayable scripts.

A *step* is {"op": name, "args": [descriptor...], "kw": {...}} where a
descriptor is JSON:
  {"k":"node","path":[[attr,idx],...],"of":j}     statement/expression cursor into proc j of the session
  {"k":"block","path":[...],"attr":"body","lo":a,"hi":b,"of":j}
  {"k":"gap","path":[...],"side":"before"|"after","of":j}
  {"k":"arg","name":"x","of":j}                    argument cursor
  {"k":"lit","v":value}  (str/int/bool/None/list)
  {"k":"proc","name":"sub0"} / {"k":"sproc","i":j}  module-level procedure / j-th session procedure
  {"k":"mem","name":"DRAM_STACK"}  {"k":"config","name":"Cfg"}
  {"k":"list","v":[descriptor...]}
"""

import exo.API_cursors as PC
from exo.API import Procedure
from exo.core import internal_cursors as IC
from exo.core.LoopIR import LoopIR, T

from . import irutil
from .common import CaseTimeout

UNSAFE_OPS = {"add_unsafe_guard"}
SIG_CHANGING = {"partial_eval", "transpose", "add_assertion"}


def _mems():
    from exo import DRAM
    from exo.libs import memories as M

    return {
        "DRAM": DRAM,
        "DRAM_STATIC": M.DRAM_STATIC,
        "DRAM_STACK": M.DRAM_STACK,
        "AVX2": M.AVX2,
        "AVX512": M.AVX512,
    }


# ----------------------------------------------------------------------------
class Session:
    """program module + chain of procedures produced by the script so far"""

    def __init__(self, module, root_name, text=None):
        self.mod = module
        self.root_name = root_name
        self.text = text
        self.procs = [getattr(module, root_name)]
        self.steps = []
        self.step_of = [None]  # step that produced procs[i]
        self.extra = {}  # name -> Procedure made during the session (extract_subproc)

    @property
    def cur(self):
        return self.procs[-1]

    def derive_variant(self, name, base, steps):
        """make a scheduled variant of module procedure `base` available as `name`
        (recorded in self.prelude so that a case replays it)"""
        sub = Session(self.mod, base, self.text)
        done = []
        for st in steps:
            r = apply_step(sub, st)
            if r.status == "accepted":
                done.append(st)
        self.extra[name] = sub.cur
        if not hasattr(self, "prelude"):
            self.prelude = []
        self.prelude.append({"name": name, "base": base, "steps": done})
        return sub.cur

    def apply_prelude(self, prelude):
        for p in prelude or []:
            self.derive_variant(p["name"], p["base"], p["steps"])

    def module_procs(self):
        out = {}
        for k, v in vars(self.mod).items():
            if isinstance(v, Procedure) and not k.startswith("_"):
                if getattr(v, "__module__", None) or True:
                    out[k] = v
        return out

    def local_procs(self):
        """procedures defined in the generated module itself (by name order)"""
        out = {}
        txt = self.text or ""
        for k, v in vars(self.mod).items():
            if isinstance(v, Procedure) and f"def {k}(" in txt:
                out[k] = v
        out.update(self.extra)
        return out

    def configs(self):
        from exo.core.configs import Config

        return {k: v for k, v in vars(self.mod).items() if isinstance(v, Config)}


# ----------------------------------------------------------------------------
# descriptor resolution
def mk_node_cursor(proc: Procedure, path):
    impl = IC.Node(proc._loopir_proc, [(a, i) for a, i in path])
    impl._node  # raises if the path is dangling
    return PC.lift_cursor(impl, proc)


def mk_block_cursor(proc, path, attr, lo, hi):
    anchor = IC.Node(proc._loopir_proc, [(a, i) for a, i in path])
    impl = IC.Block(proc._loopir_proc, anchor, attr, range(lo, hi))
    return PC.lift_cursor(impl, proc)


def resolve(d, sess: Session):
    k = d["k"]
    if k == "lit":
        return d["v"]
    if k == "list":
        return [resolve(x, sess) for x in d["v"]]
    of = d.get("of", len(sess.procs) - 1)
    if k == "node":
        return mk_node_cursor(sess.procs[of], d["path"])
    if k == "block":
        return mk_block_cursor(sess.procs[of], d["path"], d["attr"], d["lo"], d["hi"])
    if k == "gap":
        c = mk_node_cursor(sess.procs[of], d["path"])
        return c.before() if d["side"] == "before" else c.after()
    if k == "arg":
        for a in sess.procs[of].args():
            if a.name() == d["name"]:
                return a
        raise KeyError(d["name"])
    if k == "proc":
        if d["name"] in sess.extra:
            return sess.extra[d["name"]]
        return getattr(sess.mod, d["name"])
    if k == "sproc":
        return sess.procs[d["i"]]
    if k == "mem":
        return _mems()[d["name"]]
    if k == "config":
        return sess.configs()[d["name"]]
    raise ValueError(k)


# ----------------------------------------------------------------------------
# op lookup
def _op_table():
    import exo.stdlib.scheduling as S
    import exo.stdlib.stdlib as L

    tbl = {}
    for name in dir(S):
        f = getattr(S, name)
        if S.is_atomic_scheduling_op(f):
            tbl[name] = f
    # Procedure methods, wrapped to the same calling convention
    tbl["partial_eval"] = lambda p, *a, **kw: p.partial_eval(*a, **kw)
    tbl["transpose"] = lambda p, c: p.transpose(c)
    tbl["add_assertion"] = lambda p, s: p.add_assertion(s)
    # stdlib compositions
    for name in (
        "lift_if",
        "replace_all",
    ):
        tbl["std." + name] = getattr(S, name)
    for name in (
        "hoist_stmt",
        "hoist_from_loop",
        "jam_stmt",
        "unroll_and_jam",
        "fission_into_singles",
        "tile_loops_bottom_up",
        "auto_stage_mem",
        "unroll_buffers",
        "unfold_reduce",
        "bound_loop_by_if",
        "unroll_loops",
        "cleanup",
        "reorder_stmt_forward",
        "reorder_stmt_backwards",
        "divide_loop_recursive",
        "binary_specialize",
        "cse",
        "dealias",
        "round_loop",
        "cut_loop_and_unroll",
        "interleave_loop",
        "vectorize_predicate_tail",
        "parallelize_all_reductions",
        "interleave_outer_loop_with_inner_loop",
        "stage_compute",
        "parallelize_allocs",
    ):
        if hasattr(L, name):
            tbl["std." + name] = getattr(L, name)
    return tbl


_OPS = None


def ops():
    global _OPS
    if _OPS is None:
        _OPS = _op_table()
    return _OPS


# ----------------------------------------------------------------------------
class IRView:
    """index of the current IR: statements and expressions with their paths"""

    def __init__(self, ir):
        self.ir = ir
        self.stmts = irutil.all_stmts(ir)  # [(path, node)]
        self._exprs = None
        self.parent_block = {}  # path -> list of sibling stmts
        for path, s in self.stmts:
            par = path[:-1]
            attr, i = path[-1]
            n = irutil.node_at(ir, par) if par else ir
            self.parent_block[path] = getattr(n, attr)

    def of_type(self, *cls):
        return [(p, s) for p, s in self.stmts if isinstance(s, cls)]

    def exprs(self):
        if self._exprs is None:
            out = []
            for path, s in self.stmts:
                for f, i, e in irutil.stmt_exprs(s):
                    for ep, sub in irutil.sub_exprs(e, path + ((f, i),)):
                        out.append((ep, sub, path))
            self._exprs = out
        return self._exprs

    def enclosing_loops(self, path):
        out = []
        for k in range(1, len(path)):
            n = irutil.node_at(self.ir, path[:k])
            if isinstance(n, LoopIR.For):
                out.append((path[:k], n))
        return out

    def decl_of(self, sym):
        for a in self.ir.args:
            if a.name == sym:
                return a
        for p, s in self.stmts:
            if isinstance(s, LoopIR.Alloc) and s.name == sym:
                return s
        return None

    def buffers_visible(self, path):
        """names (str) and shapes (list of expr strings) of buffers in scope at path"""
        out = []
        for a in self.ir.args:
            if a.type.is_numeric():
                out.append((str(a.name), [str(h) for h in a.type.shape()], a.name))
        # allocs that precede `path` in an enclosing block
        for k in range(len(path)):
            par = path[:k]
            attr, i = path[k]
            n = irutil.node_at(self.ir, par) if par else self.ir
            for s in getattr(n, attr)[:i]:
                if isinstance(s, LoopIR.Alloc):
                    out.append((str(s.name), [str(h) for h in s.type.shape()], s.name))
        return out


def _p(path):
    return [list(x) for x in path]


def D_node(path, of=None):
    d = {"k": "node", "path": _p(path)}
    if of is not None:
        d["of"] = of
    return d


def D_block(path, n=1, of=None):
    par = path[:-1]
    attr, i = path[-1]
    d = {"k": "block", "path": _p(par), "attr": attr, "lo": i, "hi": i + n}
    if of is not None:
        d["of"] = of
    return d


def D_gap(path, side, of=None):
    d = {"k": "gap", "path": _p(path), "side": side}
    if of is not None:
        d["of"] = of
    return d


def L(v):
    return {"k": "lit", "v": v}


# ----------------------------------------------------------------------------
class Synth:
    """argument synthesis for one op application on the current procedure"""

    def __init__(self, sess: Session, rng, stale_prob=0.15):
        self.sess = sess
        self.rng = rng
        self.proc = sess.cur
        self.ir = self.proc._loopir_proc
        self.v = IRView(self.ir)
        self.stale_prob = stale_prob
        self.ncount = 0

    def name(self, base="v"):
        self.ncount += 1
        return f"{base}{len(self.sess.procs)}_{self.ncount}"

    def pick(self, xs):
        return self.rng.choice(xs) if xs else None

    # -- candidate selectors ------------------------------------------------
    def loops(self):
        return self.v.of_type(LoopIR.For)

    def allocs(self, tensor=None):
        out = self.v.of_type(LoopIR.Alloc)
        if tensor is True:
            out = [(p, s) for p, s in out if isinstance(s.type, T.Tensor)]
        if tensor is False:
            out = [(p, s) for p, s in out if not isinstance(s.type, T.Tensor)]
        return out

    def pairs(self):
        """paths of statements that have a next sibling"""
        out = []
        for p, s in self.v.stmts:
            blk = self.v.parent_block[p]
            if p[-1][1] + 1 < len(blk):
                out.append((p, s, blk[p[-1][1] + 1]))
        return out

    def nested_loops(self):
        return [
            (p, s)
            for p, s in self.loops()
            if len(s.body) == 1 and isinstance(s.body[0], LoopIR.For)
        ]

    def expr_str(self, e):
        return str(e)

    # -- per-op synthesis; each returns (args, kw) or None ------------------
    def synth(self, op):
        fn = getattr(self, "s_" + op.replace(".", "_"), None)
        if fn is None:
            return None
        r = fn()
        if r is None:
            return None
        if isinstance(r, tuple):
            return r
        return r, {}

    def s_simplify(self):
        return []

    def s_rename(self):
        return [L(self.name("renamed"))]

    def s_make_instr(self):
        return [L("/* instr {}_data */".replace("{}", "x")), L("")]

    def s_insert_pass(self):
        c = self.pick(self.v.stmts)
        return [D_gap(c[0], self.rng.choice(["before", "after"]))] if c else None

    def s_delete_pass(self):
        if not self.v.of_type(LoopIR.Pass):
            return None
        return []

    def s_reorder_stmts(self):
        c = self.pick(self.pairs())
        return [D_block(c[0], 2)] if c else None

    def s_parallelize_loop(self):
        c = self.pick(self.loops())
        return [D_node(c[0])] if c else None

    def _binops(self, ops_, numeric=True):
        return [
            (p, e, sp)
            for p, e, sp in self.v.exprs()
            if isinstance(e, LoopIR.BinOp) and e.op in ops_ and (e.type.is_numeric() == numeric)
        ]

    def s_commute_expr(self):
        c = self.pick(self._binops(("+", "*")))
        return [{"k": "list", "v": [D_node(c[0])]}] if c else None

    def s_left_reassociate_expr(self):
        cs = [
            c
            for c in self._binops(("+", "*"))
            if isinstance(c[1].rhs, LoopIR.BinOp) and c[1].rhs.op == c[1].op
        ]
        c = self.pick(cs)
        return [D_node(c[0])] if c else None

    def s_rewrite_expr(self):
        cs = [
            (p, e, sp)
            for p, e, sp in self.v.exprs()
            if e.type.is_indexable() and not isinstance(e, LoopIR.Const)
        ]
        c = self.pick(cs)
        if not c:
            return None
        s = str(c[1])
        new = self.rng.choice([f"{s} + 0", f"({s}) * 1", f"0 + ({s})", f"{s} + 1 - 1", f"{s} + 1", f"({s}) / 1"])
        return [D_node(c[0]), L(new)]

    def s_bind_expr(self):
        cs = [
            (p, e, sp)
            for p, e, sp in self.v.exprs()
            if e.type.is_real_scalar() and not isinstance(e, (LoopIR.Const,)) and p[-1][0] not in ("idx",)
        ]
        cs = [c for c in cs if not isinstance(irutil.node_at(self.ir, c[2]), LoopIR.Call)]
        c = self.pick(cs)
        return [D_node(c[0]), L(self.name("b"))] if c else None

    def s_extract_subproc(self):
        c = self.pick(self.v.stmts)
        if not c:
            return None
        blk = self.v.parent_block[c[0]]
        n = self.rng.randint(1, min(3, len(blk) - c[0][-1][1]))
        return [D_block(c[0], n), L(self.name("sp")), L(self.rng.random() < 0.7)]

    def s_inline(self):
        c = self.pick(self.v.of_type(LoopIR.Call))
        return [D_node(c[0])] if c else None

    def s_inline_window(self):
        c = self.pick(self.v.of_type(LoopIR.WindowStmt))
        return [D_node(c[0])] if c else None

    def s_replace(self):
        procs = self.sess.local_procs()
        names = [n for n, p in procs.items() if p is not self.sess.procs[0] and n != self.sess.root_name]
        if not names:
            return None
        c = self.pick(self.v.stmts)
        if not c:
            return None
        blk = self.v.parent_block[c[0]]
        n = self.rng.randint(1, min(2, len(blk) - c[0][-1][1]))
        return [D_block(c[0], n), {"k": "proc", "name": self.rng.choice(names)}, L(True)]

    def s_call_eqv(self):
        c = self.pick(self.v.of_type(LoopIR.Call))
        if not c:
            return None
        procs = self.sess.local_procs()
        names = list(procs)
        if not names:
            return None
        return [D_node(c[0]), {"k": "proc", "name": self.rng.choice(names)}]

    def _arg_or_alloc(self):
        cands = [("alloc", p, s) for p, s in self.allocs()]
        cands += [("arg", None, a) for a in self.ir.args if a.type.is_numeric()]
        return self.pick(cands)

    def s_set_precision(self):
        c = self._arg_or_alloc()
        if not c:
            return None
        d = D_node(c[1]) if c[0] == "alloc" else {"k": "arg", "name": str(c[2].name)}
        return [d, L(self.rng.choice(["f32", "f64", "i8", "i32", "R", "ui8", "f16"]))]

    def s_set_memory(self):
        c = self._arg_or_alloc()
        if not c:
            return None
        d = D_node(c[1]) if c[0] == "alloc" else {"k": "arg", "name": str(c[2].name)}
        return [d, {"k": "mem", "name": self.rng.choice(["DRAM", "DRAM_STATIC", "DRAM_STACK", "AVX2"])}]

    def s_set_window(self):
        cands = [a for a in self.ir.args if isinstance(a.type, T.Tensor)]
        a = self.pick(cands)
        return [{"k": "arg", "name": str(a.name)}, L(self.rng.random() < 0.7)] if a else None

    # -- config ---------------------------------------------------------------
    def _cfg_fields(self, want):
        out = []
        for cn, c in self.sess.configs().items():
            for f, _ in c.fields():
                t = c.lookup_type(f)
                if want(t):
                    out.append((cn, f, t))
        return out

    def s_bind_config(self):
        cs = [
            (p, e, sp)
            for p, e, sp in self.v.exprs()
            if isinstance(e, LoopIR.Read) and not e.idx and (e.type.is_real_scalar() or e.type.is_bool())
        ]
        c = self.pick(cs)
        if not c:
            return None
        fs = self._cfg_fields(lambda t: type(t) is type(c[1].type)) or self._cfg_fields(lambda t: True)
        f = self.pick(fs)
        if not f:
            return None
        return [D_node(c[0]), {"k": "config", "name": f[0]}, L(f[1])]

    def s_delete_config(self):
        c = self.pick(self.v.of_type(LoopIR.WriteConfig))
        return [D_node(c[0])] if c else None

    def s_write_config(self):
        c = self.pick(self.v.stmts)
        f = self.pick(self._cfg_fields(lambda t: True))
        if not c or not f:
            return None
        t = f[2]
        if t.is_real_scalar():
            srcs = [str(a.name) for a in self.ir.args if a.type.is_real_scalar()]
            srcs += [str(s.name) for p, s in self.allocs(tensor=False) if p[:-1] == c[0][: len(p) - 1] and p < c[0]]
            rhs = self.pick(srcs) if srcs and self.rng.random() < 0.7 else self.rng.choice([0.0, 1.0, 2.5])
        elif t.is_bool():
            srcs = [str(a.name) for a in self.ir.args if a.type.is_bool()]
            rhs = self.pick(srcs) if srcs else None
            if rhs is None:
                return None
        else:
            srcs = [str(a.name) for a in self.ir.args if a.type.is_indexable()]
            rhs = self.pick(srcs) if srcs and self.rng.random() < 0.5 else self.rng.choice([0, 1, 2, 3])
        return [D_gap(c[0], self.rng.choice(["before", "after"])), {"k": "config", "name": f[0]}, L(f[1]), L(rhs)]

    # -- buffers --------------------------------------------------------------
    def s_expand_dim(self):
        c = self.pick(self.allocs())
        if not c:
            return None
        loops = self.v.enclosing_loops(c[0])
        if loops and self.rng.random() < 0.85:
            lp, l = self.rng.choice(loops)
            hi = str(l.hi)
            size = self.rng.choice([hi, hi, hi, f"{hi} + 1", f"{hi} - 1"])
            idx = self.rng.choice([str(l.iter), str(l.iter), f"{l.iter} - {l.lo}", f"{l.iter} + 1"])
        else:
            size = self.rng.choice(["1", "2", "4"])
            idx = self.rng.choice(["0", "1"])
        return [D_node(c[0]), L(size), L(idx)]

    def s_resize_dim(self):
        c = self.pick(self.allocs(tensor=True))
        if not c:
            return None
        d = self.rng.randrange(len(c[1].type.hi))
        e = str(c[1].type.hi[d])
        if self.rng.random() < 0.3:
            return [D_node(c[0]), L(d), L(self.rng.choice([1, 2, 3, 4])), L(0)], {"fold": True}
        size = self.rng.choice([e, f"{e} + 1", f"{e} - 1", f"{e} - 4", f"({e}) / 2", "2", "3", "4", "8", "12"])
        off = self.rng.choice([0, 0, 1, -1, 2])
        # sizes that a path condition of the procedure would justify (constants compared in its ifs):
        # a copy of a block under `n == 4` may shrink its buffer to 4, a copy on another path may not
        consts = set()
        for _, st in self.v.of_type(LoopIR.If):
            for _, sub in irutil.sub_exprs(st.cond):
                if isinstance(sub, LoopIR.Const) and isinstance(sub.val, int) and not isinstance(sub.val, bool) and 1 <= sub.val <= 16:
                    consts.add(sub.val)
        if consts and self.rng.random() < 0.5:
            k = self.rng.choice(sorted(consts))
            size = str(self.rng.choice([k, k, k + 1]))
            off = 0
        return [D_node(c[0]), L(d), L(size), L(off)]

    def s_rearrange_dim(self):
        cs = [c for c in self.allocs(tensor=True) if len(c[1].type.hi) >= 2]
        c = self.pick(cs)
        if not c:
            return None
        n = len(c[1].type.hi)
        perm = list(range(n))
        self.rng.shuffle(perm)
        return [D_node(c[0]), L(perm)]

    def s_divide_dim(self):
        c = self.pick(self.allocs(tensor=True))
        if not c:
            return None
        d = self.rng.randrange(len(c[1].type.hi))
        return [D_node(c[0]), L(d), L(self.rng.choice([2, 2, 3, 4]))]

    def s_mult_dim(self):
        cs = [c for c in self.allocs(tensor=True) if len(c[1].type.hi) >= 2]
        c = self.pick(cs)
        if not c:
            return None
        n = len(c[1].type.hi)
        a, b = self.rng.sample(range(n), 2)
        return [D_node(c[0]), L(a), L(b)]

    def s_unroll_buffer(self):
        c = self.pick(self.allocs(tensor=True))
        if not c:
            return None
        return [D_node(c[0]), L(self.rng.randrange(len(c[1].type.hi)))]

    def s_lift_alloc(self):
        cs = [c for c in self.allocs() if len(c[0]) >= 2]
        c = self.pick(cs)
        return [D_node(c[0]), L(self.rng.choice([1, 1, 2]))] if c else None

    def s_sink_alloc(self):
        c = self.pick(self.allocs())
        return [D_node(c[0])] if c else None

    def s_autolift_alloc(self):
        cs = [c for c in self.allocs() if len(c[0]) >= 2]
        c = self.pick(cs)
        if not c:
            return None
        return [D_node(c[0]), L(self.rng.choice([1, 2])), L(self.rng.choice(["row", "col"])), L(None), L(self.rng.random() < 0.5)]

    def s_delete_buffer(self):
        c = self.pick(self.allocs())
        return [D_node(c[0])] if c else None

    def s_reuse_buffer(self):
        cs = self.allocs()
        if len(cs) < 2:
            return None
        a, b = self.rng.sample(cs, 2)
        if a[0] > b[0]:
            a, b = b, a
        return [D_node(a[0]), D_node(b[0])]

    def s_stage_mem(self):
        c = self.pick(self.v.stmts)
        if not c:
            return None
        blk = self.v.parent_block[c[0]]
        n = self.rng.randint(1, min(3, len(blk) - c[0][-1][1]))
        bufs = [b for b in self.v.buffers_visible(c[0])]
        # prefer buffers that are accessed inside the block
        used = set()
        for s in blk[c[0][-1][1] : c[0][-1][1] + n]:
            for _, ss in irutil._iter_block([s], (), "body"):
                if isinstance(ss, (LoopIR.Assign, LoopIR.Reduce)):
                    used.add(ss.name)
                for _, _, e in irutil.stmt_exprs(ss):
                    for _, sub in irutil.sub_exprs(e):
                        if isinstance(sub, (LoopIR.Read, LoopIR.WindowExpr)) and sub.type.is_numeric():
                            used.add(sub.name)
        pref = [b for b in bufs if b[2] in used]
        b = self.pick(pref if pref and self.rng.random() < 0.9 else bufs)
        if not b:
            return None
        name, shape, _ = b
        if not shape:
            win = name
        else:
            loops = self.v.enclosing_loops(c[0])
            parts = []
            for e in shape:
                roll = self.rng.random()
                if loops and roll < 0.3:
                    it = str(self.rng.choice(loops)[1].iter)
                    parts.append(self.rng.choice([it, f"{it}:{it} + 1"]))
                elif roll < 0.85:
                    parts.append(f"0:{e}")
                elif roll < 0.93:
                    parts.append(f"0:{e} - 1")
                else:
                    parts.append(f"1:{e}")
            win = f"{name}[{', '.join(parts)}]"
        return [D_block(c[0], n), L(win), L(self.name("stg")), L(self.rng.random() < 0.2)]

    # -- loops ------------------------------------------------------------------
    def s_divide_loop(self):
        c = self.pick(self.loops())
        if not c:
            return None
        q = self.rng.choice([2, 2, 3, 4, 4, 8])
        tail = self.rng.choice(["guard", "cut", "cut_and_guard"])
        perfect = self.rng.random() < 0.35
        it = str(c[1].iter)
        return [D_node(c[0]), L(q), L([it + "o", it + "i"])], {"tail": tail, "perfect": perfect}

    def s_divide_with_recompute(self):
        c = self.pick(self.loops())
        if not c:
            return None
        hi = str(c[1].hi)
        q = self.rng.choice([2, 3, 4])
        # the divisor written in the new outer bound need not be the stride
        d = q if self.rng.random() < 0.55 else self.rng.choice([2, 3, 4, 8])
        outer = self.rng.choice([f"({hi}) / {d}", f"{hi} / {d}", f"({hi}) / {d}", f"({hi} + {q - 1}) / {d}", f"({hi}) / {d} + 1", "2", "1"])
        it = str(c[1].iter)
        return [D_node(c[0]), L(outer), L(q), L([it + "o", it + "i"])]

    def s_mult_loops(self):
        c = self.pick(self.nested_loops())
        return [D_node(c[0]), L(self.name("ij"))] if c else None

    def s_join_loops(self):
        cs = [c for c in self.pairs() if isinstance(c[1], LoopIR.For) and isinstance(c[2], LoopIR.For)]
        c = self.pick(cs)
        if not c:
            return None
        p2 = c[0][:-1] + ((c[0][-1][0], c[0][-1][1] + 1),)
        return [D_node(c[0]), D_node(p2)]

    def _pt(self, loop):
        lo, hi = str(loop.lo), str(loop.hi)
        return self.rng.choice(
            [lo, hi, f"{lo} + 1", f"{hi} - 1", f"{hi} + 1", "1", "2", "3", f"({hi}) / 2", f"{lo} - 1"]
        )

    def s_cut_loop(self):
        c = self.pick(self.loops())
        return [D_node(c[0]), L(self._pt(c[1]))] if c else None

    def s_shift_loop(self):
        c = self.pick(self.loops())
        if not c:
            return None
        return [D_node(c[0]), L(self.rng.choice(["0", "1", "2", "3", "4", "8", f"{c[1].lo} + 1", f"{c[1].lo} + 4"]))]

    def s_reorder_loops(self):
        c = self.pick(self.nested_loops())
        return [D_node(c[0])] if c else None

    def s_merge_writes(self):
        cs = [
            c
            for c in self.pairs()
            if isinstance(c[1], (LoopIR.Assign, LoopIR.Reduce))
            and isinstance(c[2], (LoopIR.Assign, LoopIR.Reduce))
            and c[1].name == c[2].name
        ]
        c = self.pick(cs)
        return [D_block(c[0], 2)] if c else None

    def s_split_write(self):
        cs = [c for c in self.v.of_type(LoopIR.Assign, LoopIR.Reduce) if isinstance(c[1].rhs, LoopIR.BinOp) and c[1].rhs.op == "+"]
        c = self.pick(cs)
        return [D_node(c[0])] if c else None

    def s_fold_into_reduce(self):
        c = self.pick(self.v.of_type(LoopIR.Assign))
        return [D_node(c[0])] if c else None

    def s_inline_assign(self):
        c = self.pick(self.v.of_type(LoopIR.Assign))
        return [D_node(c[0])] if c else None

    def s_lift_reduce_constant(self):
        cs = [c for c in self.pairs() if isinstance(c[1], LoopIR.Assign) and isinstance(c[2], LoopIR.For)]
        c = self.pick(cs)
        return [D_block(c[0], 2)] if c else None

    def _inner_gaps(self):
        return [c for c in self.pairs() if len(c[0]) >= 2]

    def s_fission(self):
        c = self.pick(self._inner_gaps())
        if not c:
            return None
        depth = sum(1 for k in range(1, len(c[0])) if True)
        return [D_gap(c[0], "after"), L(self.rng.choice([1, 1, 2]))]

    def s_autofission(self):
        c = self.pick(self._inner_gaps())
        return [D_gap(c[0], "after"), L(self.rng.choice([1, 1, 2]))] if c else None

    def s_fuse(self):
        cs = [
            c
            for c in self.pairs()
            if (isinstance(c[1], LoopIR.For) and isinstance(c[2], LoopIR.For))
            or (isinstance(c[1], LoopIR.If) and isinstance(c[2], LoopIR.If))
        ]
        c = self.pick(cs)
        if not c:
            return None
        p2 = c[0][:-1] + ((c[0][-1][0], c[0][-1][1] + 1),)
        return [D_node(c[0]), D_node(p2)]

    def s_remove_loop(self):
        c = self.pick(self.loops())
        return [D_node(c[0])] if c else None

    def s_add_loop(self):
        c = self.pick(self.v.stmts)
        if not c:
            return None
        his = ["1", "2", "3", "4", "0"]
        # bounds that are (not) provably positive: size and index arguments with offsets
        for a in self.ir.args:
            if a.type.is_indexable():
                nm = str(a.name)
                his += [nm, f"{nm} - 1", f"{nm} + 1", f"{nm} / 2", f"{nm} % 2", f"{nm} - 2"]
        hi = self.rng.choice(his)
        return [D_block(c[0], 1), L(self.name("a")), L(hi), L(self.rng.random() < 0.5)]

    def s_unroll_loop(self):
        c = self.pick(self.loops())
        return [D_node(c[0])] if c else None

    def s_lift_scope(self):
        cs = [c for c in self.v.of_type(LoopIR.For, LoopIR.If) if len(c[0]) >= 2]
        c = self.pick(cs)
        return [D_node(c[0])] if c else None

    def s_eliminate_dead_code(self):
        c = self.pick(self.v.of_type(LoopIR.For, LoopIR.If))
        return [D_node(c[0])] if c else None

    def _cond_str(self, path):
        loops = self.v.enclosing_loops(path)
        opts = []
        for _, l in loops:
            it = str(l.iter)
            opts += [f"{it} < {self.rng.choice([1, 2, 3])}", f"{it} == {l.lo}", f"{it} + 1 < {l.hi}"]
        for a in self.ir.args:
            if isinstance(a.type, T.Size):
                opts += [f"{a.name} > {self.rng.choice([1, 2, 4])}", f"{a.name} % 2 == 0", f"{a.name} == {self.rng.choice([1, 2, 3])}", f"{a.name} == {self.rng.choice([2, 3, 4, 6])}"]
            elif isinstance(a.type, T.Bool):
                opts.append(f"{a.name} == True")
            elif isinstance(a.type, T.Index):
                opts.append(f"{a.name} < 2")
        return self.pick(opts)

    def s_specialize(self):
        c = self.pick(self.v.stmts)
        if not c:
            return None
        allocs = self.allocs()
        if allocs and self.rng.random() < 0.4:
            # a block that starts at an allocation and runs to the end of its scope: the copies then own
            # their storage, which later rewrites of one copy have to judge under that copy's condition
            c = self.pick(allocs)
            cond = self._cond_str(c[0])
            if not cond:
                return None
            blk = self.v.parent_block[c[0]]
            conds = [cond] + ([self._cond_str(c[0])] if self.rng.random() < 0.4 else [])
            return [D_block(c[0], len(blk) - c[0][-1][1]), L([x for x in conds if x])]
        cond = self._cond_str(c[0])
        if not cond:
            return None
        blk = self.v.parent_block[c[0]]
        rest = len(blk) - c[0][-1][1]
        n = self.rng.randint(1, min(2, rest)) if self.rng.random() < 0.6 else self.rng.randint(1, rest)
        conds = [cond]
        if self.rng.random() < 0.4:
            c2 = self._cond_str(c[0])
            if c2:
                conds.append(c2)
        return [D_block(c[0], n), L(conds)]

    def s_add_unsafe_guard(self):
        c = self.pick(self.v.stmts)
        if not c:
            return None
        cond = self._cond_str(c[0])
        return [D_block(c[0], 1), L(cond)] if cond else None

    # -- signature changing (C19) ------------------------------------------------
    def s_partial_eval(self):
        ctl = [a for a in self.ir.args if isinstance(a.type, (T.Size, T.Index, T.Bool))]
        if not ctl:
            return None
        chosen = self.rng.sample(ctl, self.rng.randint(1, len(ctl)))
        kw = {}
        for a in chosen:
            if isinstance(a.type, T.Size):
                kw[str(a.name)] = self.rng.choice([1, 2, 3, 4, 6, 8])
            elif isinstance(a.type, T.Index):
                kw[str(a.name)] = self.rng.choice([0, 0, 1, 2, 3])
            else:
                kw[str(a.name)] = self.rng.random() < 0.5
        return [], kw

    def s_transpose(self):
        cs = [a for a in self.ir.args if isinstance(a.type, T.Tensor) and len(a.type.hi) == 2]
        a = self.pick(cs)
        return [{"k": "arg", "name": str(a.name)}] if a else None

    def s_add_assertion(self):
        opts = []
        for a in self.ir.args:
            if isinstance(a.type, T.Size):
                opts += [f"{a.name} >= 2", f"{a.name} % 2 == 0", f"{a.name} <= 6", f"{a.name} == 4"]
            elif isinstance(a.type, T.Index):
                opts += [f"{a.name} >= 1", f"{a.name} < 3"]
        o = self.pick(opts)
        return [L(o)] if o else None

    # -- stdlib compositions ------------------------------------------------------
    def s_std_lift_if(self):
        cs = [c for c in self.v.of_type(LoopIR.If) if len(c[0]) >= 2]
        c = self.pick(cs)
        return [D_node(c[0]), L(self.rng.choice([1, 1, 2]))] if c else None

    def s_std_hoist_stmt(self):
        cs = [c for c in self.v.stmts if len(c[0]) >= 2]
        c = self.pick(cs)
        return [D_node(c[0])] if c else None

    def s_std_hoist_from_loop(self):
        c = self.pick(self.loops())
        return [D_node(c[0])] if c else None

    def s_std_jam_stmt(self):
        cs = [c for c in self.pairs() if isinstance(c[2], (LoopIR.For, LoopIR.If))]
        c = self.pick(cs)
        return [D_node(c[0])] if c else None

    def s_std_unroll_and_jam(self):
        c = self.pick(self.nested_loops())
        return [D_node(c[0]), L(self.rng.choice([2, 2, 4]))] if c else None

    def s_std_fission_into_singles(self):
        cs = [c for c in self.v.of_type(LoopIR.For, LoopIR.If) if len(c[1].body) >= 2]
        c = self.pick(cs)
        return [D_node(c[0])] if c else None

    def s_std_auto_stage_mem(self):
        c = self.pick(self.v.stmts)
        if not c:
            return None
        bufs = self.v.buffers_visible(c[0])
        b = self.pick(bufs)
        if not b:
            return None
        return [D_block(c[0], 1), L(b[0]), L(self.name("as")), L(self.rng.random() < 0.2)]

    def s_std_unroll_buffers(self):
        if not self.allocs(tensor=True):
            return None
        return []

    def s_std_unfold_reduce(self):
        c = self.pick(self.v.of_type(LoopIR.Reduce))
        return [D_node(c[0])] if c else None

    def s_std_bound_loop_by_if(self):
        cs = [c for c in self.loops() if len(c[1].body) == 1 and isinstance(c[1].body[0], LoopIR.If)]
        c = self.pick(cs)
        return [D_node(c[0])] if c else None

    def s_std_unroll_loops(self):
        if not self.loops():
            return None
        return []

    def s_std_cleanup(self):
        return []

    def s_std_reorder_stmt_forward(self):
        c = self.pick(self.pairs())
        return [D_node(c[0])] if c else None

    def s_std_reorder_stmt_backwards(self):
        cs = [c for c in self.v.stmts if c[0][-1][1] > 0]
        c = self.pick(cs)
        return [D_node(c[0])] if c else None

    def s_std_divide_loop_recursive(self):
        c = self.pick(self.loops())
        return ([D_node(c[0]), L(self.rng.choice([2, 4]))], {"tail": self.rng.choice(["cut", "guard"])}) if c else None

    def s_std_binary_specialize(self):
        c = self.pick(self.v.stmts)
        if not c:
            return None
        szs = [str(a.name) for a in self.ir.args if isinstance(a.type, T.Size)]
        s = self.pick(szs)
        if not s:
            return None
        vals = sorted(self.rng.sample([1, 2, 3, 4, 5, 6], self.rng.choice([2, 3])))
        return [D_node(c[0]), L(s), L(vals)]

    def s_std_cse(self):
        c = self.pick(self.v.stmts)
        if not c:
            return None
        blk = self.v.parent_block[c[0]]
        n = self.rng.randint(1, min(3, len(blk) - c[0][-1][1]))
        return [D_block(c[0], n), L("f32")]

    def s_std_dealias(self):
        c = self.pick(self.v.of_type(LoopIR.Assign, LoopIR.Reduce))
        return [D_node(c[0])] if c else None

    def s_std_round_loop(self):
        c = self.pick(self.loops())
        return ([D_node(c[0]), L(self.rng.choice([2, 4]))], {"up": self.rng.random() < 0.5}) if c else None

    def s_std_cut_loop_and_unroll(self):
        c = self.pick(self.loops())
        return ([D_node(c[0]), L(self.rng.choice([1, 2]))], {"front": self.rng.random() < 0.5}) if c else None

    def s_std_interleave_loop(self):
        c = self.pick(self.loops())
        return ([D_node(c[0]), L(self.rng.choice([2, 4]))], {"tail": self.rng.choice(["cut", "guard"])}) if c else None

    def s_std_tile_loops_bottom_up(self):
        c = self.pick(self.nested_loops())
        return [D_node(c[0]), L([self.rng.choice([2, 4]), self.rng.choice([2, 4])])] if c else None

    def s_std_replace_all(self):
        procs = self.sess.local_procs()
        names = [n for n, p in procs.items() if n != self.sess.root_name]
        if not names:
            return None
        return [{"k": "list", "v": [{"k": "proc", "name": n} for n in names]}], {"mem_aware": False}


ALL_OPS = None


def all_op_names():
    global ALL_OPS
    if ALL_OPS is None:
        tbl = ops()
        ALL_OPS = sorted(
            n for n in tbl if hasattr(Synth, "s_" + n.replace(".", "_"))
        )
    return ALL_OPS


# ----------------------------------------------------------------------------
class StepResult:
    __slots__ = ("status", "proc", "exc", "extra", "step", "calls")

    def __init__(self, status, proc=None, exc=None, extra=None, step=None, calls=None):
        self.status = status  # "accepted" | "rejected" | "noargs"
        self.proc = proc
        self.exc = exc
        self.extra = extra
        self.step = step
        self.calls = calls or []  # hooks.CallRecord of every primitive invoked by this step


def is_unsafe_step(step):
    if step["op"] in UNSAFE_OPS:
        return True
    kw = step.get("kw") or {}
    if kw.get("unsafe_disable_check") or kw.get("unsafe_disable_checks"):
        return True
    # positional unsafe flags are never generated
    return False


def apply_step(sess: Session, step, commit=True):
    """apply one step to the session's current procedure"""
    tbl = ops()
    fn = tbl[step["op"]]
    try:
        args = [resolve(d, sess) for d in step["args"]]
        kw = dict(step.get("kw") or {})
    except Exception as e:  # a dangling locator
        return StepResult("rejected", exc=e, step=step)
    from . import hooks

    rec = hooks.install_call_recorder()
    rec.clear()
    try:
        res = fn(sess.cur, *args, **kw)
    except BaseException as e:
        if isinstance(e, (KeyboardInterrupt, SystemExit, MemoryError, CaseTimeout)):
            raise
        return StepResult("rejected", exc=e, step=step, calls=rec.take())
    calls = rec.take()
    extra = None
    if isinstance(res, tuple):
        # extract_subproc returns (proc, subproc); rc-style returns (proc, cursors)
        extra = res[1:]
        res = res[0]
    if not isinstance(res, Procedure):
        return StepResult("rejected", exc=TypeError("no procedure returned"), step=step, calls=calls)
    if commit:
        sess.procs.append(res)
        sess.steps.append(step)
        sess.step_of.append(step)
        if step["op"] == "extract_subproc" and extra and isinstance(extra[0], Procedure):
            sess.extra[extra[0].name()] = extra[0]
    return StepResult("accepted", proc=res, extra=extra, step=step, calls=calls)


def random_step(sess: Session, rng, op_weights=None, tries=6):
    """synthesise one step (not applied); returns step dict or None"""
    names = all_op_names()
    for _ in range(tries):
        if op_weights:
            op = rng.choices(list(op_weights), weights=list(op_weights.values()))[0]
        else:
            op = rng.choice(names)
        sy = Synth(sess, rng)
        try:
            r = sy.synth(op)
        except Exception:
            r = None
        if r is None:
            continue
        args, kw = r
        return {"op": op, "args": args, "kw": kw}
    return None
