"""Structural helpers over LoopIR that do not depend on exo's own passes:
fingerprints (C07), scope/binder validator (C04), walkers and locators."""

import hashlib

from exo.core.LoopIR import LoopIR, T
from exo.core.prelude import Sym, SrcInfo
from exo.core.configs import Config
from exo.core.extern import Extern


# ----------------------------------------------------------------------------
# fingerprint: own serializer over the attrs fields (independent of the printer)
def _ser(node, out, procs, alpha):
    if node is None or isinstance(node, (str, int, float, bool)):
        out.append(repr(node))
        return
    if isinstance(node, list) or isinstance(node, tuple):
        out.append("[%d" % len(node))
        for x in node:
            _ser(x, out, procs, alpha)
        out.append("]")
        return
    if isinstance(node, Sym):
        if alpha is None:
            out.append("$%s_%d" % (node._nm, node._id))
        else:
            k = alpha.get(node)
            if k is None:
                k = alpha[node] = len(alpha)
            out.append("$%d" % k)
        return
    if isinstance(node, SrcInfo):
        return
    if isinstance(node, Config):
        out.append("C:" + node.name())
        return
    if isinstance(node, Extern):
        out.append("X:" + node.name())
        return
    if isinstance(node, type):
        out.append("M:" + node.__name__)
        return
    if isinstance(node, LoopIR.proc):
        k = procs.get(id(node))
        if k is not None:
            out.append("P#%d" % k)
            return
        procs[id(node)] = len(procs)
    attrs = getattr(type(node), "__attrs_attrs__", None)
    if attrs is None:
        out.append("?" + type(node).__name__ + ":" + repr(node))
        return
    out.append("(" + type(node).__name__)
    for a in attrs:
        if a.name == "srcinfo":
            continue
        _ser(getattr(node, a.name), out, procs, alpha)
    out.append(")")


def fingerprint(proc, alpha=False):
    """hash of the full structure (callees included).  alpha=True numbers the
    symbols in order of first occurrence (used for 'distinct program shape')."""
    out = []
    _ser(proc, out, {}, {} if alpha else None)
    return hashlib.sha1("".join(out).encode()).hexdigest()[:20]


def serial(node):
    out = []
    _ser(node, out, {}, None)
    return "".join(out)


# ----------------------------------------------------------------------------
# walkers
def iter_stmts(body, path=()):
    """yields (path, stmt); path = tuple of (field, index) from the proc root"""
    for i, s in enumerate(body):
        p = path + (("body", i),) if not path or path[-1][0] != "_blk" else path
        yield p, s
        if isinstance(s, LoopIR.For):
            yield from _iter_block(s.body, p, "body")
        elif isinstance(s, LoopIR.If):
            yield from _iter_block(s.body, p, "body")
            yield from _iter_block(s.orelse, p, "orelse")


def _iter_block(body, parent, field):
    for i, s in enumerate(body):
        p = parent + ((field, i),)
        yield p, s
        if isinstance(s, LoopIR.For):
            yield from _iter_block(s.body, p, "body")
        elif isinstance(s, LoopIR.If):
            yield from _iter_block(s.body, p, "body")
            yield from _iter_block(s.orelse, p, "orelse")


def all_stmts(proc):
    return list(_iter_block(proc.body, (), "body"))


def node_at(proc, path):
    n = proc
    for f, i in path:
        n = getattr(n, f)[i]
    return n


def sub_exprs(e, path=()):
    """yields (path, expr) for e and all sub-expressions; path of (field, index|None)"""
    yield path, e
    if isinstance(e, LoopIR.BinOp):
        yield from sub_exprs(e.lhs, path + (("lhs", None),))
        yield from sub_exprs(e.rhs, path + (("rhs", None),))
    elif isinstance(e, LoopIR.USub):
        yield from sub_exprs(e.arg, path + (("arg", None),))
    elif isinstance(e, LoopIR.Read):
        for i, x in enumerate(e.idx):
            yield from sub_exprs(x, path + (("idx", i),))
    elif isinstance(e, LoopIR.Extern):
        for i, x in enumerate(e.args):
            yield from sub_exprs(x, path + (("args", i),))
    elif isinstance(e, LoopIR.WindowExpr):
        for i, w in enumerate(e.idx):
            if isinstance(w, LoopIR.Point):
                yield from sub_exprs(w.pt, path + (("idx", i), ("pt", None)))
            else:
                yield from sub_exprs(w.lo, path + (("idx", i), ("lo", None)))
                yield from sub_exprs(w.hi, path + (("idx", i), ("hi", None)))


def stmt_exprs(s):
    """top-level expressions of a statement: list of (field, index|None, expr)"""
    out = []
    if isinstance(s, (LoopIR.Assign, LoopIR.Reduce)):
        for i, e in enumerate(s.idx):
            out.append(("idx", i, e))
        out.append(("rhs", None, s.rhs))
    elif isinstance(s, LoopIR.WriteConfig):
        out.append(("rhs", None, s.rhs))
    elif isinstance(s, LoopIR.If):
        out.append(("cond", None, s.cond))
    elif isinstance(s, LoopIR.For):
        out.append(("lo", None, s.lo))
        out.append(("hi", None, s.hi))
    elif isinstance(s, LoopIR.Call):
        for i, e in enumerate(s.args):
            out.append(("args", i, e))
    elif isinstance(s, LoopIR.WindowStmt):
        out.append(("rhs", None, s.rhs))
    return out


def count_nodes(proc):
    n = 0
    for _, s in all_stmts(proc):
        n += 1
        for _, _, e in stmt_exprs(s):
            for _ in sub_exprs(e):
                n += 1
    return n


def callees(proc):
    out = []
    seen = set()
    for _, s in all_stmts(proc):
        if isinstance(s, LoopIR.Call) and id(s.f) not in seen:
            seen.add(id(s.f))
            out.append(s.f)
    return out


# ----------------------------------------------------------------------------
# scope / binder validator (C04a)
def _rank_of_type(t):
    if isinstance(t, T.Tensor):
        return len(t.hi)
    if isinstance(t, T.Window):
        return len(t.as_tensor.hi)
    return 0


def validate(proc):
    """Returns a list of problem dicts; [] means well-scoped.

    Checked: every symbol use lies in the scope of exactly one binder of it
    (argument, Alloc, For iterator, WindowStmt); no symbol is bound again while a
    binding of it is live; access arity equals the rank of the declaration."""
    problems = []

    def bad(kind, sym, node):
        if len(problems) < 10:
            problems.append(
                {"kind": kind, "sym": repr(sym), "node": str(node).strip().split("\n")[0][:160]}
            )

    def use(sym, scope, node):
        if sym not in scope:
            bad("use_out_of_scope", sym, node)
            return None
        return scope[sym]

    def bind(sym, scope, kind_rank, node):
        if sym in scope:
            bad("rebound_while_live", sym, node)
        scope[sym] = kind_rank

    def expr(e, scope):
        if isinstance(e, LoopIR.Read):
            d = use(e.name, scope, e)
            if d is not None and e.idx:
                if d[0] != "buf":
                    bad("index_of_control", e.name, e)
                elif len(e.idx) != d[1]:
                    bad("access_arity", e.name, e)
            for i in e.idx:
                expr(i, scope)
        elif isinstance(e, LoopIR.BinOp):
            expr(e.lhs, scope)
            expr(e.rhs, scope)
        elif isinstance(e, LoopIR.USub):
            expr(e.arg, scope)
        elif isinstance(e, LoopIR.Extern):
            for a in e.args:
                expr(a, scope)
        elif isinstance(e, LoopIR.WindowExpr):
            d = use(e.name, scope, e)
            if d is not None:
                if d[0] != "buf":
                    bad("window_of_control", e.name, e)
                elif len(e.idx) != d[1]:
                    bad("access_arity", e.name, e)
            for w in e.idx:
                if isinstance(w, LoopIR.Point):
                    expr(w.pt, scope)
                else:
                    expr(w.lo, scope)
                    expr(w.hi, scope)
        elif isinstance(e, LoopIR.StrideExpr):
            d = use(e.name, scope, e)
            if d is not None and (d[0] != "buf" or not (0 <= e.dim < max(d[1], 1))):
                bad("stride_dim", e.name, e)

    def typ(t, scope):
        if isinstance(t, T.Tensor):
            for h in t.hi:
                expr(h, scope)

    def block(body, scope):
        scope = dict(scope)
        for s in body:
            if isinstance(s, (LoopIR.Assign, LoopIR.Reduce)):
                d = use(s.name, scope, s)
                if d is not None:
                    if d[0] != "buf":
                        bad("assign_to_control", s.name, s)
                    elif len(s.idx) != d[1]:
                        bad("access_arity", s.name, s)
                for i in s.idx:
                    expr(i, scope)
                expr(s.rhs, scope)
            elif isinstance(s, LoopIR.WriteConfig):
                expr(s.rhs, scope)
            elif isinstance(s, LoopIR.If):
                expr(s.cond, scope)
                block(s.body, scope)
                block(s.orelse, scope)
            elif isinstance(s, LoopIR.For):
                expr(s.lo, scope)
                expr(s.hi, scope)
                inner = dict(scope)
                bind(s.iter, inner, ("ctl", 0), s)
                block(s.body, inner)
            elif isinstance(s, LoopIR.Alloc):
                typ(s.type, scope)
                bind(s.name, scope, ("buf", _rank_of_type(s.type)), s)
            elif isinstance(s, LoopIR.WindowStmt):
                expr(s.rhs, scope)
                rank = sum(1 for w in s.rhs.idx if isinstance(w, LoopIR.Interval))
                bind(s.name, scope, ("buf", rank), s)
            elif isinstance(s, LoopIR.Call):
                if len(s.args) != len(s.f.args):
                    bad("call_arity", s.f.name, s)
                for a in s.args:
                    expr(a, scope)
            elif isinstance(s, LoopIR.Free):
                use(s.name, scope, s)

    scope = {}
    for a in proc.args:
        if a.type.is_numeric():
            typ(a.type, scope)
            bind(a.name, scope, ("buf", _rank_of_type(a.type)), a)
        else:
            bind(a.name, scope, ("ctl", 0), a)
    for p in proc.preds:
        expr(p, scope)
    block(proc.body, scope)
    return problems
