"""Programs (as written and after accepted schedules) -> C harness.  Serves C02,
C08, C15(a) and C04(d); each driver picks the statuses that concern it."""

import random
import signal
import traceback

from . import irutil
from .ccheck import check_c
from .common import CaseTimeout, jhash
from .gen_prog import gen_program, load_program, Knobs
from .gen_sched import Session, apply_step, random_step, is_unsafe_step, SIG_CHANGING
from .gen_input import InputSpec
from .stream import sstr


def run_cstream(ctx, knobs_fn, on_result, sched_steps=(0, 0, 2, 4), ninputs=5, op_weights=None, case_timeout=120, templates=None, template_prob=0.5, only_exact=False):
    try:
        import z3

        z3.set_param("timeout", 20000)
    except Exception:
        pass

    def on_alarm(signum, frame):
        raise CaseTimeout()

    signal.signal(signal.SIGALRM, on_alarm)
    nprog = 0
    cap = int(ctx.params.get("nprograms", 10**9))
    while nprog < cap and not ctx.out_of_time():
        nprog += 1
        rng = random.Random((ctx.seed * 1000003 + ctx.shard * 7919 + nprog * 104729) & 0xFFFFFFFF)
        ctx.rng = rng
        signal.setitimer(signal.ITIMER_REAL, case_timeout)
        try:
            _one(ctx, rng, knobs_fn, on_result, sched_steps, ninputs, op_weights, nprog, templates, template_prob, only_exact)
        except CaseTimeout:
            ctx.inconclusive("case_watchdog")
        except RecursionError:
            ctx.inconclusive("case_recursion")
        finally:
            signal.setitimer(signal.ITIMER_REAL, 0)
        if nprog % 3 == 0:
            ctx.flush_stats()


def _one(ctx, rng, knobs_fn, on_result, sched_steps, ninputs, op_weights, nprog, templates, template_prob, only_exact=False):
    try:
        from .ctemplates import ALL as _CALL

        fams = list(dict.fromkeys(_CALL))  # distinct families, in order
        if templates and nprog <= 2:
            # family rotation at the start of every shard (see stream._run_program)
            gp = fams[(ctx.shard * 2 + nprog - 1) % len(fams)](rng)
            ctx.stat("programs.rotation")
        elif templates and rng.random() < template_prob:
            gp = templates(rng)
        else:
            gp = gen_program(rng, knobs_fn(rng))
        mod = load_program(gp.text, ctx.scratch)
    except CaseTimeout:
        raise
    except Exception:
        ctx.stat("programs.rejected")
        return
    ctx.stat("programs.accepted")
    sess = Session(mod, gp.root, gp.text)
    nsteps = rng.choice(sched_steps)
    if (getattr(gp, "meta", None) or {}).get("op_sequence") and rng.random() < 0.7:
        nsteps = max(nsteps, len(gp.meta["op_sequence"]))
    tries = 0
    while len(sess.steps) < nsteps and tries < nsteps * 4:
        tries += 1
        prefer = (getattr(gp, "meta", None) or {}).get("prefer_ops")
        seq = (getattr(gp, "meta", None) or {}).get("op_sequence")
        if seq and len(sess.steps) < len(seq) and rng.random() < 0.8:
            st = random_step(sess, rng, {seq[len(sess.steps)]: 1.0})
        elif prefer and len(sess.steps) < 2 and rng.random() < 0.6:
            # templates name the primitives that produce the forms they were written for
            st = random_step(sess, rng, {o: 1.0 for o in prefer})
        else:
            st = random_step(sess, rng, op_weights)
        if st is None or is_unsafe_step(st) or st["op"] in ("make_instr", "extract_subproc"):
            continue
        apply_step(sess, st)
    proc = sess.cur
    wd = ctx.scratch / f"cb{nprog}"
    res = check_c(proc, rng, wd, ninputs=ninputs, only_exact=only_exact)
    ctx.stat("c.status." + res.status)
    ctx.stat("evaluations")
    if res.status in ("ok", "mismatch", "sanitizer", "approx_mismatch"):
        ctx.stat("c.inputs", res.ninputs)
        ctx.stat("c.exact_inputs", res.exact_inputs)
        h = jhash([irutil.fingerprint(proc._loopir_proc, alpha=True)])
        ctx.distinct(h, nontrivial=True)
    case = {
        "text": gp.text,
        "root": gp.root,
        "steps": list(sess.steps),
        "inputs": [s.to_json() for s in res.specs],
        "status": res.status,
        "san": res.san,
        "diffs": res.diffs,
        "bad_input": res.bad_input,
        "detail": res.detail,
        "proc": sstr(proc, 3000),
        "c": (res.c_text or "")[-6000:],
    }
    on_result(ctx, sess, res, case)
    if ctx._nsamples < 2 and res.status == "ok":
        ctx.sample({"proc": sstr(proc, 1500), "schedule": [s["op"] for s in sess.steps], "inputs": res.ninputs, "exact_inputs": res.exact_inputs, "status": res.status, "c_tail": (res.c_text or "")[-800:]}, limit=2)


def replay_c(case, want_status, only_exact=False):
    """rebuild the procedure of a case and run the C harness on the recorded inputs"""
    import pathlib, tempfile, shutil

    scratch = pathlib.Path(tempfile.mkdtemp(prefix="vf_creplay_"))
    try:
        mod = load_program(case["text"], scratch, tag="replay")
        sess = Session(mod, case["root"], case["text"])
        for st in case["steps"]:
            r = apply_step(sess, st)
            if r.status != "accepted":
                return {"reproduced": False, "detail": f"schedule step {st['op']} rejected now: {r.exc!r}"}
        specs = [InputSpec.from_json(j) for j in case.get("inputs") or []] or None
        res = check_c(sess.cur, random.Random(0), scratch / "cb", ninputs=6, specs=specs, only_exact=only_exact)
        rep = res.status in want_status
        return {
            "reproduced": rep,
            "status": res.status,
            "san": res.san,
            "diffs": res.diffs,
            "detail": f"status={res.status} san={res.san} diffs={res.diffs}\n{(res.detail or '')[-1500:]}\n--- procedure ---\n{sstr(sess.cur)}\n--- C (tail) ---\n{(res.c_text or '')[-2500:]}",
        }
    finally:
        shutil.rmtree(scratch, ignore_errors=True)
