"""Input generation for LoopIR procedures (sizes, index/bool args, buffers with
strides, initial configuration state).  An input is pure JSON-able data
(`InputSpec`) that is materialised freshly for every execution."""

from fractions import Fraction

from exo.core.LoopIR import LoopIR, T

from .refinterp import Interp, View, Storage, POISON, Abort, dense_strides, num


# ----------------------------------------------------------------------------
def walk_procs(proc, seen=None):
    """proc and every callee reachable from it (pre-order, each once)"""
    seen = seen if seen is not None else {}
    if id(proc) in seen:
        return seen
    seen[id(proc)] = proc

    def stmts(body):
        for s in body:
            if isinstance(s, LoopIR.Call):
                walk_procs(s.f, seen)
            elif isinstance(s, LoopIR.For):
                stmts(s.body)
            elif isinstance(s, LoopIR.If):
                stmts(s.body)
                stmts(s.orelse)

    stmts(proc.body)
    return seen


def configs_of(procs):
    """all Config objects mentioned in the procedures (reads, writes)"""
    found = {}

    def expr(e):
        if isinstance(e, LoopIR.ReadConfig):
            found[e.config.name()] = e.config
        elif isinstance(e, LoopIR.BinOp):
            expr(e.lhs)
            expr(e.rhs)
        elif isinstance(e, LoopIR.USub):
            expr(e.arg)
        elif isinstance(e, LoopIR.Extern):
            for a in e.args:
                expr(a)
        elif isinstance(e, LoopIR.Read):
            for a in e.idx:
                expr(a)
        elif isinstance(e, LoopIR.WindowExpr):
            for w in e.idx:
                if isinstance(w, LoopIR.Point):
                    expr(w.pt)
                else:
                    expr(w.lo)
                    expr(w.hi)

    def stmts(body):
        for s in body:
            if isinstance(s, LoopIR.WriteConfig):
                found[s.config.name()] = s.config
                expr(s.rhs)
            elif isinstance(s, (LoopIR.Assign, LoopIR.Reduce)):
                for i in s.idx:
                    expr(i)
                expr(s.rhs)
            elif isinstance(s, LoopIR.For):
                expr(s.lo)
                expr(s.hi)
                stmts(s.body)
            elif isinstance(s, LoopIR.If):
                expr(s.cond)
                stmts(s.body)
                stmts(s.orelse)
            elif isinstance(s, LoopIR.Call):
                for a in s.args:
                    expr(a)
            elif isinstance(s, LoopIR.WindowStmt):
                expr(s.rhs)
            elif isinstance(s, LoopIR.Alloc):
                if isinstance(s.type, T.Tensor):
                    for h in s.type.hi:
                        expr(h)

    for p in procs:
        for pr in walk_procs(p).values():
            for e in pr.preds:
                expr(e)
            stmts(pr.body)
    return found


# ----------------------------------------------------------------------------
class InputSpec:
    """args: list aligned with proc.args of
         {"k":"int","v":n} | {"k":"bool","v":b} |
         {"k":"buf","shape":[..],"strides":[..],"off":o,"data":[flat store]}
       config: {"Cfg.field": value}"""

    def __init__(self, args, config):
        self.args = args
        self.config = config

    def to_json(self):
        def enc(v):
            if isinstance(v, Fraction):
                return {"q": [v.numerator, v.denominator]}
            return v

        args = []
        for a in self.args:
            if a["k"] == "buf":
                b = dict(a)
                b["data"] = [enc(x) for x in a["data"]]
                args.append(b)
            else:
                args.append(a)
        return {"args": args, "config": {k: enc(v) for k, v in self.config.items()}}

    @staticmethod
    def from_json(d):
        def dec(v):
            if isinstance(v, dict) and "q" in v:
                return Fraction(v["q"][0], v["q"][1])
            return v

        args = []
        for a in d["args"]:
            if a["k"] == "buf":
                b = dict(a)
                b["data"] = [dec(x) for x in a["data"]]
                args.append(b)
            else:
                args.append(a)
        return InputSpec(args, {k: dec(v) for k, v in d["config"].items()})

    def materialise(self):
        vals = []
        for i, a in enumerate(self.args):
            if a["k"] == "buf":
                st = Storage(i + 1, len(a["data"]), a.get("name", f"arg{i}"), is_arg=True)
                st.data = list(a["data"])
                vals.append(View(st, a["off"], a["strides"], a["shape"]))
            else:
                vals.append(a["v"])
        cfg = {}
        for k, v in self.config.items():
            c, f = k.split(".", 1)
            cfg[(c, f)] = v
        return vals, cfg

    def brief(self):
        out = []
        for a in self.args:
            if a["k"] == "buf":
                out.append(
                    f"{a.get('name','')}:shape={a['shape']},strides={a['strides']},off={a['off']}"
                )
            else:
                out.append(f"{a.get('name','')}={a['v']}")
        return ", ".join(out) + (f" | cfg={self.config}" if self.config else "")


# ----------------------------------------------------------------------------
_SIZE_POOL = [1, 2, 3, 4, 5, 6, 7, 8, 9, 12, 16]
_IDX_POOL = [0, 1, 2, 3, -1, 4, 5, -2, 7, 8, -3]

_INT_RANGE = {
    "INT8": (-6, 6),
    "UINT8": (0, 9),
    "UINT16": (0, 40),
    "INT32": (-50, 50),
}


def eval_expr(e, env, cfg=None):
    """evaluate a control expression with the reference evaluator"""
    from .refinterp import RunResult

    it = Interp(budget=20000)
    it.res = RunResult()
    it.cfg = cfg or {}
    it.parstack = []
    it._nonint_const = False
    return it.ev(e, env)


def _mentions_stride(e):
    if isinstance(e, LoopIR.StrideExpr):
        return True
    if isinstance(e, LoopIR.BinOp):
        return _mentions_stride(e.lhs) or _mentions_stride(e.rhs)
    if isinstance(e, LoopIR.USub):
        return _mentions_stride(e.arg)
    return False


def _mentions_config(e):
    if isinstance(e, LoopIR.ReadConfig):
        return True
    if isinstance(e, LoopIR.BinOp):
        return _mentions_config(e.lhs) or _mentions_config(e.rhs)
    if isinstance(e, LoopIR.USub):
        return _mentions_config(e.arg)
    return False


def gen_config(configs, rng, hint=None):
    cfg = {}
    for name in sorted(configs):
        c = configs[name]
        for fname, _ in c.fields():
            t = c.lookup_type(fname)
            key = f"{name}.{fname}"
            if isinstance(t, T.Bool):
                v = rng.random() < 0.5
            elif isinstance(t, T.Size):
                v = rng.choice([1, 2, 3, 4, 5])
            elif isinstance(t, (T.Index, T.Int, T.Stride)):
                v = rng.choice([0, 1, 2, 3, 4, -1])
            else:
                v = rng.choice([0, 1, 2, 3, -1, -2, 5, 7]) + rng.choice([0, 0, 0, 100])
            cfg[key] = v
    return cfg


def _const_bounds(preds, name):
    """[lo, hi] asserted for `name` by predicates of the form  name <op> literal"""
    lo = hi = None
    for p in preds:
        if not isinstance(p, LoopIR.BinOp) or p.op not in ("<", "<=", ">", ">="):
            continue
        l, r, op = p.lhs, p.rhs, p.op
        if isinstance(r, LoopIR.Read) and isinstance(l, LoopIR.Const):
            l, r = r, l
            op = {"<": ">", "<=": ">=", ">": "<", ">=": "<="}[op]
        if not (isinstance(l, LoopIR.Read) and l.name == name and not l.idx and isinstance(r, LoopIR.Const) and isinstance(r.val, int)):
            continue
        if op == ">=":
            lo = r.val if lo is None else max(lo, r.val)
        elif op == ">":
            lo = r.val + 1 if lo is None else max(lo, r.val + 1)
        elif op == "<=":
            hi = r.val if hi is None else min(hi, r.val)
        else:
            hi = r.val - 1 if hi is None else min(hi, r.val - 1)
    return lo, hi


def gen_input(proc, rng, extra_procs=(), data_mode=None, tries=200, size_cap=8, boundary=False):
    """Returns an InputSpec satisfying proc.preds, or None.

    data_mode: "distinct" (pairwise-distinct integers), "small" (-3..3), "dyadic".
    """
    data_mode = data_mode or rng.choice(["distinct", "distinct", "distinct", "small", "dyadic"])
    configs = configs_of([proc] + list(extra_procs))
    ctl_preds = [p for p in proc.preds if not _mentions_stride(p)]
    pool = [s for s in _SIZE_POOL if s <= size_cap] or [1]
    for attempt in range(tries):
        cfgj = gen_config(configs, rng)
        cfg = {tuple(k.split(".", 1)): v for k, v in cfgj.items()}
        env = {}
        ctl = {}
        for a in proc.args:
            t = a.type
            if isinstance(t, T.Size):
                if boundary and attempt < tries // 2 and rng.random() < 0.6:
                    v = rng.choice(pool[:3])
                else:
                    v = rng.choice(pool)
                env[a.name] = v
            elif isinstance(t, (T.Index, T.Int)):
                lo_b, hi_b = _const_bounds(ctl_preds, a.name)
                if lo_b is not None and hi_b is not None and lo_b <= hi_b:
                    # the asserted interval: its end points first, then anything inside
                    if boundary and rng.random() < 0.7:
                        env[a.name] = rng.choice([lo_b, hi_b, lo_b, min(lo_b + 1, hi_b)])
                    else:
                        env[a.name] = rng.randint(lo_b, hi_b)
                else:
                    env[a.name] = rng.choice(_IDX_POOL)
            elif isinstance(t, T.Stride):
                env[a.name] = rng.choice([1, 2, 3])
            elif isinstance(t, T.Bool):
                env[a.name] = rng.random() < 0.5
        ok = True
        try:
            for p in ctl_preds:
                # predicates over buffers' strides are checked after layout
                if eval_expr(p, env, cfg) is not True:
                    ok = False
                    break
        except Abort:
            ok = False
        except Exception:
            ok = False
        if not ok:
            continue
        # buffers
        args = []
        base = 0
        good = True
        nbuf = sum(1 for a in proc.args if a.type.is_numeric())
        layouts = None
        for a in proc.args:
            t = a.type
            nm = str(a.name)
            if not t.is_numeric():
                v = env[a.name]
                args.append({"k": "bool" if isinstance(t, T.Bool) else "int", "v": v, "name": nm})
                continue
            if isinstance(t, T.Tensor):
                try:
                    shape = [eval_expr(h, env, cfg) for h in t.hi]
                except Exception:
                    good = False
                    break
                if any((not isinstance(s, int)) or s < 1 or s > 64 for s in shape):
                    good = False
                    break
                is_win = t.is_window
                bt = t.type
            else:
                shape = []
                is_win = False
                bt = t
            args.append(
                {"k": "buf", "shape": shape, "name": nm, "_win": is_win, "_bt": type(bt).__name__}
            )
        if not good:
            continue
        # choose layouts (strides) for window args; verify all preds
        for lay_try in range(6):
            env2 = dict(env)
            for a, spec in zip(proc.args, args):
                if spec["k"] != "buf":
                    continue
                shape = spec["shape"]
                if spec["_win"] and lay_try > 0 and shape:
                    mode = rng.choice(["pad", "pad", "stride2", "offset", "dense"])
                    if lay_try >= 4:
                        mode = "offset"
                else:
                    mode = "dense"
                if mode == "dense":
                    strides = list(dense_strides(shape))
                    off = 0
                    size = 1
                    for s in shape:
                        size *= s
                elif mode in ("pad", "offset"):
                    # row padding: enlarge every dimension but the first's stride
                    padded = [s + (rng.choice([1, 2, 3]) if i > 0 else 0) for i, s in enumerate(shape)]
                    strides = list(dense_strides(padded))
                    if mode == "pad" and len(shape) == 1:
                        strides = [1]
                    off = rng.choice([0, 1, 3]) if mode == "offset" or len(shape) == 1 else rng.choice([0, 2])
                    size = off + sum((s - 1) * k for s, k in zip(shape, strides)) + 1 + rng.choice([0, 2])
                else:  # stride2: non-unit innermost stride
                    k = rng.choice([2, 3])
                    strides = [x * k for x in dense_strides(shape)]
                    off = rng.choice([0, 1])
                    size = off + sum((s - 1) * st for s, st in zip(shape, strides)) + 1 + 1
                spec["strides"] = strides
                spec["off"] = off
                spec["_size"] = size
                env2[a.name] = View(None, off, strides, shape)
            try:
                if all(eval_expr(p, env2, cfg) is True for p in proc.preds):
                    layouts = True
                    break
            except Exception:
                pass
        if not layouts:
            continue
        # data
        for spec in args:
            if spec["k"] != "buf":
                continue
            n = spec.pop("_size")
            btn = spec.pop("_bt")
            spec.pop("_win")
            if data_mode == "fine":
                # for precision casts: small integers (sums stay in range), quarter-valued floats
                # (truncation toward zero vs. rounding differ), and doubles that are not floats
                if btn in _INT_RANGE:
                    lo, hi = _INT_RANGE[btn]
                    vals = [rng.randint(max(lo, -40), min(hi, 40)) for _ in range(n)]
                else:
                    vals = []
                    for _ in range(n):
                        v = Fraction(rng.randint(-64, 64), rng.choice([1, 2, 4, 4]))
                        if btn == "F64" and rng.random() < 0.4:
                            v += Fraction(rng.choice([1, 3, 5, 7]) * rng.choice([1, -1]), 2 ** rng.choice([26, 30, 40]))
                        vals.append(num(v))
            elif btn in _INT_RANGE:
                lo, hi = _INT_RANGE[btn]
                if data_mode == "distinct" and (hi - lo + 1) >= n:
                    vals = rng.sample(range(lo, hi + 1), n)
                else:
                    vals = [rng.randint(lo, hi) for _ in range(n)]
            elif data_mode == "distinct":
                vals = list(range(base + 1, base + n + 1))
                rng.shuffle(vals)
                if rng.random() < 0.5:
                    vals = [v if rng.random() < 0.7 else -v for v in vals]
                base += n
            elif data_mode == "small":
                vals = [rng.choice([-3, -2, -1, 0, 0, 1, 2, 3]) for _ in range(n)]
            else:
                vals = [num(Fraction(rng.randint(-32, 32), rng.choice([1, 2, 4]))) for _ in range(n)]
            spec["data"] = vals
        return InputSpec(args, cfgj)
    return None


def snapshot(argvals, cfg):
    """observable final state: flat stores of all buffer arguments + config"""
    out = []
    for v in argvals:
        if type(v) is View:
            out.append(list(v.st.data))
        else:
            out.append(None)
    return out, dict(cfg)
