"""Translation validation of one procedure: exo compile -> gcc (ASan+UBSan+LSan)
-> run on embedded inputs -> compare with the reference interpreter."""

import shutil
from pathlib import Path

from . import cbuild
from .gen_input import gen_input, InputSpec
from .refinterp import Interp

DOCUMENTED_COMPILE_REJECTIONS = ("TypeError", "MemGenError", "ConfigError", "SchedulingError", "NotImplementedError")


class CResult:
    def __init__(self):
        self.status = None  # see check_c
        self.detail = None
        self.specs = []
        self.ninputs = 0
        self.exact_inputs = 0
        self.c_text = None
        self.h_text = None
        self.san = None
        self.diffs = None
        self.bad_input = None
        self.compile_exc = None


def clean_inputs(ir, rng, n, tries=None, size_cap=6, data_mode=None, par=False):
    """inputs on which the reference interpreter runs event-free"""
    out = []
    tries = tries or n * 4
    # several precisions among the arguments: the casts between them are what is being compiled
    precs = set()
    for a in ir.args:
        try:
            if a.type.is_numeric():
                precs.add(type(a.type.basetype()).__name__)
        except Exception:
            pass
    mixed = len(precs) > 1
    for t in range(tries):
        if len(out) >= n:
            break
        dm = data_mode or ("distinct" if t % 3 else "small")
        if mixed and data_mode is None and t % 2 == 0:
            dm = "fine"
        spec = gen_input(ir, rng, size_cap=size_cap, data_mode=dm, boundary=(t < 3))
        if spec is None:
            continue
        vals, cfg = spec.materialise()
        res = Interp(exact=True, budget=150000, par=par).run(ir, vals, cfg)
        if res.clean:
            out.append((spec, vals, cfg, res))
    return out


def check_c(proc, rng, workdir: Path, ninputs=5, openmp=False, sanitize=True, keep=False, specs=None, size_cap=6, only_exact=False, run_env=None):
    """status:
       'exo_reject'     exo refused to compile (documented rejection)        -> not a case
       'exo_crash'      exo's compiler raised something undocumented           (C04d/C15)
       'no_input'       no event-free input found                               -> inconclusive
       'gcc_reject'     gcc rejects the emitted C                               (C15)
       'sanitizer'      ASan/UBSan/LSan report, crash or const-page fault       (C08)
       'mismatch'       C result differs from the interpreter (exact class)     (C02)
       'ok'             agreed on all inputs
       'timeout'        watchdog                                                -> inconclusive
    """
    r = CResult()
    ir = proc._loopir_proc
    try:
        c_text, h_text = cbuild.compile_exo([proc])
    except Exception as e:
        r.compile_exc = e
        r.status = "exo_reject" if type(e).__name__ in DOCUMENTED_COMPILE_REJECTIONS else "exo_crash"
        r.detail = repr(e)[:600]
        return r
    r.c_text, r.h_text = c_text, h_text
    if specs is not None:
        ins = []
        for spec in specs:
            vals, cfg = spec.materialise()
            res = Interp(exact=True, budget=150000).run(ir, vals, cfg)
            if res.clean:
                ins.append((spec, vals, cfg, res))
    else:
        ins = clean_inputs(ir, rng, ninputs, size_cap=size_cap)
    if only_exact:
        # data arithmetic that leaves the C type (e.g. int32 overflow) is the program's
        # business, not the code generator's: such inputs are not used
        # (neither is arithmetic on uninitialised data: what C computes there is garbage)
        ins = [x for x in ins if x[3].exact_ok and not x[3].poison_arith]
    if not ins:
        r.status = "no_input"
        return r
    r.specs = [x[0] for x in ins]
    r.ninputs = len(ins)
    try:
        drv = cbuild.gen_driver(ir, h_text, r.specs)
    except (cbuild.BuildError, AssertionError, ValueError) as e:
        r.status = "driver_error"
        r.detail = repr(e)[:300]
        return r
    try:
        out = cbuild.build_and_run(c_text, h_text, drv, workdir, sanitize=sanitize, openmp=openmp or ("#pragma omp" in c_text), run_env=run_env)
        if out["status"] == "compile_error":
            r.status = "gcc_reject"
            r.detail = out["stderr"][-1500:]
            return r
        if out["status"] == "timeout":
            r.status = "timeout"
            return r
        cases, done = cbuild.parse_output(out["stdout"], len(ins))
        if out["status"] != "ok":
            r.status = "sanitizer"
            r.san = out["status"]
            r.bad_input = len(cases)
            r.detail = out["stderr"][-2500:]
            return r
        approx = None
        for k, ((spec, vals, cfg, res), co) in enumerate(zip(ins, cases)):
            if res.exact_ok:
                r.exact_inputs += 1
            d = cbuild.compare_with_interp(ir, spec, co, vals, cfg, res.exact_ok)
            if d:
                if res.exact_ok:
                    r.status = "mismatch"
                    r.diffs = d
                    r.bad_input = k
                    return r
                # an input outside the exact class never decides; the remaining inputs still count
                if approx is None:
                    approx = (d, k)
        if approx is not None:
            r.status = "approx_mismatch"
            r.diffs, r.bad_input = approx
            return r
        r.status = "ok"
        return r
    finally:
        if not keep:
            shutil.rmtree(workdir, ignore_errors=True)
