"""Differential oracle: procedure before vs. after a rewrite on the same input,
executed by the reference interpreter (exact rationals)."""

from .refinterp import Interp, POISON, View
from .gen_input import gen_input, snapshot, InputSpec


def reported_mod_fields(ir_a, ir_b):
    """(connected, {(config name, field)}) as *reported by the system itself*"""
    from exo.core.proc_eqv import get_strictest_eqv_proc
    from exo.core.configs import reverse_config_lookup

    try:
        ok, keys = get_strictest_eqv_proc(ir_a, ir_b)
    except KeyError:
        return False, set()
    out = set()
    for k in keys:
        try:
            c, f = reverse_config_lookup(k)
            out.add((c.name(), f))
        except Exception:
            pass
    return ok, out


class Cmp:
    """result of comparing one input"""

    __slots__ = ("status", "detail", "old", "new")

    def __init__(self, status, detail=None, old=None, new=None):
        self.status = status
        self.detail = detail
        self.old = old
        self.new = new


def run_one(ir, spec: InputSpec, **kw):
    vals, cfg = spec.materialise()
    it = Interp(**kw)
    res = it.run(ir, vals, cfg)
    return res, vals, cfg


def compare_on(old_ir, new_ir, spec, mod_fields=(), budget=300000, arg_map=None, new_spec=None, par=False):
    """status in:
      'skip_old'   old run not clean (input not valid/defined for the original)
      'same'       identical observable state
      'diff'       some defined location differs            (C01)
      'new_event'  new run raised a monitor event / aborted (C04)
      'budget'     interpreter budget exceeded
    """
    ro, vo, co = run_one(old_ir, spec, budget=budget)
    if ro.aborted == "budget":
        return Cmp("budget")
    if not ro.clean:
        return Cmp("skip_old", detail=(ro.first_event() or ro.aborted), old=ro)
    rn, vn, cn = run_one(new_ir, new_spec or spec, budget=budget * 4, par=par)
    if rn.aborted == "budget":
        return Cmp("budget")
    if not rn.clean:
        ev = rn.first_event()
        return Cmp(
            "new_event",
            detail={"event": ev.as_dict() if ev else None, "aborted": rn.aborted},
            old=ro,
            new=rn,
        )
    so, cfo = snapshot(vo, co)
    sn, cfn = snapshot(vn, cn)
    diffs = []
    poison_new = []
    if arg_map is None:
        pairs = list(zip(range(len(so)), range(len(sn)))) if len(so) == len(sn) else None
    else:
        pairs = arg_map
    if pairs is None:
        return Cmp("diff", detail={"kind": "signature", "n_old": len(so), "n_new": len(sn)})
    for io, in_ in pairs:
        a, b = so[io], sn[in_]
        if a is None or b is None:
            continue
        if len(a) != len(b):
            diffs.append({"arg": io, "kind": "size"})
            continue
        for k, (x, y) in enumerate(zip(a, b)):
            if x is POISON:
                continue
            if y is POISON:
                poison_new.append({"arg": io, "off": k, "old": str(x)})
                if len(poison_new) > 3:
                    break
                continue
            if x != y:
                diffs.append({"arg": io, "off": k, "old": str(x), "new": str(y)})
                if len(diffs) > 3:
                    break
    cfg_diffs = []
    for key, v in cfo.items():
        if key in mod_fields:
            continue
        w = cfn.get(key, None)
        if v is POISON:
            continue
        if w is POISON:
            poison_new.append({"cfg": list(key), "old": str(v)})
        elif w != v:
            cfg_diffs.append({"cfg": list(key), "old": str(v), "new": str(w)})
    for key, w in cfn.items():
        if key not in cfo and key not in mod_fields:
            cfg_diffs.append({"cfg": list(key), "old": None, "new": str(w)})
    if diffs or cfg_diffs:
        return Cmp("diff", detail={"buffers": diffs, "config": cfg_diffs}, old=ro, new=rn)
    if poison_new:
        return Cmp("poison", detail={"poison": poison_new}, old=ro, new=rn)
    return Cmp("same", old=ro, new=rn)


def judge(old_ir, new_ir, rng, ninputs=6, mod_fields=(), size_cap=8, specs=None, par=False):
    """Run up to ninputs valid inputs.  Returns dict:
       {"judged": k, "skipped": s, "verdict": "same"|"diff"|"new_event"|"poison"|"vacuous",
        "witness": {...}, "spec": InputSpec}
    """
    judged = 0
    skipped = 0
    budget_hits = 0
    tries = 0
    reasons = {}
    specs = list(specs) if specs else []
    while judged < ninputs and tries < ninputs * 3:
        tries += 1
        if specs:
            spec = specs.pop(0)
        else:
            spec = gen_input(old_ir, rng, extra_procs=[new_ir], size_cap=size_cap, boundary=(tries <= 2))
        if spec is None:
            skipped += 1
            reasons["no_input"] = reasons.get("no_input", 0) + 1
            continue
        try:
            c = compare_on(old_ir, new_ir, spec, mod_fields, par=par)
        except RecursionError:
            skipped += 1
            continue
        if c.status == "skip_old":
            skipped += 1
            k = "old_" + str(getattr(c.detail, "kind", c.detail))
            reasons[k] = reasons.get(k, 0) + 1
            continue
        if c.status == "budget":
            budget_hits += 1
            continue
        judged += 1
        if c.status != "same":
            return {
                "judged": judged,
                "skipped": skipped,
                "verdict": c.status,
                "witness": c.detail,
                "spec": spec,
                "reasons": reasons,
            }
    return {
        "judged": judged,
        "skipped": skipped,
        "budget": budget_hits,
        "verdict": "same" if judged else "vacuous",
        "witness": None,
        "spec": None,
        "reasons": reasons,
    }
