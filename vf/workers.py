"""Subprocess fan-out (one process per shard, never multiprocessing.Pool) and the
JSONL record protocol between shards and the master.

A shard writes records (one JSON object per line, flushed) to its out file:
  {"t":"stat","k":key,"n":int}            summed by the master
  {"t":"distinct","h":hash,"nt":bool}     distinct case ids (nt = non-trivial)
  {"t":"viol","sig":{...},"case":{...}}   a monitor fired
  {"t":"sample","v":obj}                  a written-out case for the evidence
  {"t":"inconc","k":reason,"n":int}
  {"t":"done"}                            last record of a shard that finished
"""

import json
import os
import random
import shutil
import subprocess
import sys
import tempfile
import time
from collections import Counter
from pathlib import Path

from . import common


class ShardCtx:
    def __init__(self, prop, shard, nshards, seed, tier, out_path, params=None):
        self.prop = prop
        self.shard = shard
        self.nshards = nshards
        self.seed = seed
        self.tier = tier
        self.params = params or {}
        self.rng = random.Random((seed * 1000003 + shard * 7919 + 17) & 0xFFFFFFFF)
        self._out = open(out_path, "a") if out_path else None
        self._stats = Counter()
        self._totals = Counter()
        self._inconc = Counter()
        self._nsamples = 0
        self.t0 = time.time()
        self.scratch = Path(tempfile.mkdtemp(prefix=f"vf_{prop}_{shard}_"))
        # soft wall-clock cap for *generation*; never a verdict
        self.soft_deadline = self.t0 + float(self.params.get("soft_s", 1e9))

    # -- record emitters ------------------------------------------------
    def _w(self, rec):
        if self._out:
            self._out.write(json.dumps(rec, default=str) + "\n")
            self._out.flush()

    def stat(self, key, n=1):
        self._stats[key] += n
        self._totals[key] += n

    def stat_count(self, key):
        """running total of a counter in this shard (flushes do not reset it)"""
        return self._totals[key]

    def inconclusive(self, reason, n=1):
        self._inconc[reason] += n

    def distinct(self, h, nontrivial=True):
        self._w({"t": "distinct", "h": h, "nt": bool(nontrivial)})

    def violation(self, sig, case):
        self._w({"t": "viol", "sig": sig, "case": case})

    def sample(self, obj, limit=3):
        if self._nsamples < limit:
            self._nsamples += 1
            self._w({"t": "sample", "v": obj})

    def time_left(self):
        return self.soft_deadline - time.time()

    def out_of_time(self):
        return time.time() > self.soft_deadline

    def flush_stats(self):
        for k, n in self._stats.items():
            self._w({"t": "stat", "k": k, "n": n})
        for k, n in self._inconc.items():
            self._w({"t": "inconc", "k": k, "n": n})
        self._stats.clear()
        self._inconc.clear()

    def close(self):
        self.flush_stats()
        self._w({"t": "done"})
        if self._out:
            self._out.close()
        shutil.rmtree(self.scratch, ignore_errors=True)


class Aggregate:
    def __init__(self):
        self.stats = Counter()
        self.inconc = Counter()
        self.distinct = set()
        self.distinct_nt = set()
        self.violations = []
        self.samples = []
        self.shards_done = 0
        self.shards_failed = 0
        self.shard_errors = []

    def read(self, path):
        done = False
        try:
            with open(path) as f:
                for line in f:
                    line = line.strip()
                    if not line:
                        continue
                    try:
                        r = json.loads(line)
                    except Exception:
                        continue
                    t = r.get("t")
                    if t == "stat":
                        self.stats[r["k"]] += r["n"]
                    elif t == "inconc":
                        self.inconc[r["k"]] += r["n"]
                    elif t == "distinct":
                        self.distinct.add(r["h"])
                        if r.get("nt"):
                            self.distinct_nt.add(r["h"])
                    elif t == "viol":
                        self.violations.append(r)
                    elif t == "sample":
                        self.samples.append(r["v"])
                    elif t == "done":
                        done = True
        except FileNotFoundError:
            pass
        if done:
            self.shards_done += 1
        else:
            self.shards_failed += 1
        return done


def run_shards(prop, nshards, seed, tier, params, hard_timeout_s, max_par=None):
    """Run `nshards` worker processes, at most max_par at once; returns Aggregate."""
    max_par = max_par or common.NCPU
    tmp = Path(tempfile.mkdtemp(prefix=f"vfm_{prop}_"))
    agg = Aggregate()
    pending = list(range(nshards))
    running = {}
    pfile = tmp / "params.json"
    pfile.write_text(json.dumps(params))
    env = common.worker_env()
    try:
        while pending or running:
            while pending and len(running) < max_par:
                i = pending.pop(0)
                out = tmp / f"shard{i}.jsonl"
                err = open(tmp / f"shard{i}.err", "w")
                p = subprocess.Popen(
                    [
                        common.PY,
                        "-m",
                        "vf.worker",
                        prop,
                        str(i),
                        str(nshards),
                        str(seed),
                        tier,
                        str(out),
                        str(pfile),
                    ],
                    cwd=str(common.VERIF),
                    env=env,
                    stdout=err,
                    stderr=subprocess.STDOUT,
                )
                running[i] = (p, out, err, time.time())
            time.sleep(0.2)
            for i, (p, out, err, t0) in list(running.items()):
                rc = p.poll()
                if rc is None and time.time() - t0 > hard_timeout_s:
                    p.kill()
                    p.wait()
                    rc = -9
                    agg.inconc["shard_watchdog"] += 1
                if rc is not None:
                    err.close()
                    ok = agg.read(out)
                    if not ok:
                        tail = (tmp / f"shard{i}.err").read_text()[-1500:]
                        agg.shard_errors.append({"shard": i, "rc": rc, "tail": tail})
                        agg.inconc["shard_died"] += 1
                    del running[i]
    finally:
        for i, (p, out, err, t0) in running.items():
            p.kill()
        shutil.rmtree(tmp, ignore_errors=True)
    return agg
