"""Runtime-monitoring machinery for exo-lang/exo (see /verif/DESIGN.md)."""
