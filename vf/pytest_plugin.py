"""W2: the repository's own tests as a workload.

Loaded with `pytest -p vf.pytest_plugin` (PYTHONPATH=/verif, EXO_VERIF=1,
VF_W2_OUT=<jsonl>, VF_W2_MONITORS=C01,C04,...).  After every test the primitive
applications recorded by vf/hooks.py are judged by light versions of the
stream monitors; records go to VF_W2_OUT in the shard record protocol.  The
hooks never raise into the tests: with or without the plugin a test passes or
fails the same way.
"""

import json
import os
import random
import time
import traceback

_OUT = None
_MON = set()
_T0 = time.time()
_STATE = {"nodes_cap": 400, "judged": 0, "rng": random.Random(0)}


def _w(rec):
    if _OUT:
        _OUT.write(json.dumps(rec, default=str) + "\n")
        _OUT.flush()


def pytest_configure(config):
    global _OUT, _MON
    if os.environ.get("EXO_VERIF") != "1":
        return
    path = os.environ.get("VF_W2_OUT")
    if path:
        # one file per xdist worker
        wid = os.environ.get("PYTEST_XDIST_WORKER", "main")
        _OUT = open(f"{path}.{wid}", "a")
    _MON = set((os.environ.get("VF_W2_MONITORS") or "C01,C04").split(","))
    try:
        from .common import install_speedups
        from . import hooks

        install_speedups()
        hooks.install_call_recorder()
    except Exception:
        traceback.print_exc()


def pytest_runtest_setup(item):
    try:
        from . import hooks

        hooks.REC.clear()
    except Exception:
        pass


def pytest_runtest_teardown(item, nextitem):
    if _OUT is None:
        return
    try:
        from . import hooks

        calls = hooks.REC.take()
        hooks.REC.enabled = False
        try:
            _judge_calls(item.nodeid, calls)
        finally:
            hooks.REC.enabled = True
    except Exception as e:
        _w({"t": "inconc", "k": "w2_monitor_error:" + type(e).__name__, "n": 1})


def pytest_unconfigure(config):
    if _OUT:
        _w({"t": "done"})
        _OUT.close()


# ----------------------------------------------------------------------------
def _judge_calls(test_id, calls):
    from . import irutil, equiv
    from .common import jhash
    from .stream import sstr, diagnose, ir_features

    rng = _STATE["rng"]
    _w({"t": "stat", "k": "w2.tests", "n": 1})
    budget_t = time.time() + 20  # per test, generation only
    for k, c in enumerate(calls):
        if not c.accepted or c.proc_in is None or not hasattr(c.proc_in, "_loopir_proc"):
            if c.exc is not None:
                _w({"t": "stat", "k": "w2.calls_rejected", "n": 1})
            continue
        old_ir, new_ir = c.proc_in._loopir_proc, c.proc_out._loopir_proc
        if old_ir is new_ir:
            continue
        _w({"t": "stat", "k": "w2.calls_accepted", "n": 1})
        _w({"t": "stat", "k": f"op.accepted.{c.op}", "n": 1})
        case = {"w2_test": test_id, "call_index": k, "op": c.op, "before": sstr(c.proc_in, 2500), "after": sstr(c.proc_out, 2500)}
        h = jhash([irutil.fingerprint(old_ir, alpha=True), c.op, irutil.fingerprint(new_ir, alpha=True)])
        if "C04" in _MON:
            _w({"t": "stat", "k": "w2.validate", "n": 1})
            probs = irutil.validate(new_ir)
            if probs and not irutil.validate(old_ir):
                from .diagnosers import binder_kind

                dg = dict(diagnose(c.op, old_ir, new_ir, c) or {})
                dg["oos_binder"] = binder_kind(old_ir, probs[0].get("sym"))
                sig = {"prop": "C04", "monitor": "validate", "kind": probs[0]["kind"], "op": c.op, "workload": "W2", "features": ir_features(old_ir), "diag": dg}
                _w({"t": "viol", "sig": sig, "case": dict(case, problems=probs)})
                continue
        if time.time() > budget_t:
            _w({"t": "stat", "k": "w2.skipped_time", "n": 1})
            continue
        if not (_MON & {"C01", "C04"}):
            continue
        if c.is_unsafe():
            continue
        try:
            n = irutil.count_nodes(new_ir)
        except Exception:
            n = 10**9
        if n > _STATE["nodes_cap"]:
            _w({"t": "stat", "k": "w2.skipped_large", "n": 1})
            continue
        _, mf = equiv.reported_mod_fields(old_ir, new_ir)
        try:
            j = equiv.judge(old_ir, new_ir, rng, 3, mf, size_cap=4)
        except Exception as e:
            _w({"t": "inconc", "k": "w2_judge_error:" + type(e).__name__, "n": 1})
            continue
        if j["verdict"] == "vacuous":
            _w({"t": "stat", "k": "w2.vacuous", "n": 1})
            continue
        _w({"t": "stat", "k": "evaluations", "n": 1})
        _w({"t": "stat", "k": f"op.judged.{c.op}", "n": 1})
        _w({"t": "distinct", "h": h, "nt": True})
        if j["verdict"] == "diff" and "C01" in _MON:
            sig = {"prop": "C01", "monitor": "equiv", "kind": "diff", "op": c.op, "workload": "W2", "features": ir_features(old_ir), "diag": diagnose(c.op, old_ir, new_ir, c)}
            _w({"t": "viol", "sig": sig, "case": dict(case, witness=j["witness"], input=j["spec"].to_json() if j["spec"] else None)})
        elif j["verdict"] in ("new_event", "poison") and "C04" in _MON:
            ev = (j["witness"] or {}).get("event") or {}
            kind = "poison" if j["verdict"] == "poison" else "event:" + str(ev.get("kind") or (j["witness"] or {}).get("aborted"))
            sig = {"prop": "C04", "monitor": "safety", "kind": kind, "op": c.op, "workload": "W2", "features": ir_features(old_ir), "diag": diagnose(c.op, old_ir, new_ir, c)}
            _w({"t": "viol", "sig": sig, "case": dict(case, witness=j["witness"], input=j["spec"].to_json() if j["spec"] else None)})
