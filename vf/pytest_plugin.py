"""W2: the repository's own tests as a workload.

Loaded with `pytest -p vf.pytest_plugin` (PYTHONPATH=/verif, EXO_VERIF=1,
VF_W2_OUT=<jsonl>, VF_W2_MONITORS=C01,C04,...).  After every test the primitive
applications recorded by vf/hooks.py are judged by light versions of the
stream monitors; records go to VF_W2_OUT in the shard record protocol.  The
hooks never raise into the tests: with or without the plugin a test passes or
fails the same way.
"""

import json
import os
import random
import time
import traceback

_OUT = None
_MON = set()
_T0 = time.time()
_STATE = {"nodes_cap": 400, "judged": 0, "rng": random.Random(0)}


def _w(rec):
    if _OUT:
        _OUT.write(json.dumps(rec, default=str) + "\n")
        _OUT.flush()


def pytest_configure(config):
    global _OUT, _MON
    if os.environ.get("EXO_VERIF") != "1":
        return
    path = os.environ.get("VF_W2_OUT")
    if path:
        # one file per xdist worker
        wid = os.environ.get("PYTEST_XDIST_WORKER", "main")
        _OUT = open(f"{path}.{wid}", "a")
    _MON = set((os.environ.get("VF_W2_MONITORS") or "C01,C04").split(","))
    try:
        from .common import install_speedups
        from . import hooks

        install_speedups()
        hooks.install_call_recorder()
        if "C07" in _MON:
            _install_purity_observers(hooks)
        if "C17" in _MON:
            from .props.C17 import install_printer_hook

            install_printer_hook()
    except Exception:
        traceback.print_exc()


# ---------------------------------------------------------------------------- C07
_PURITY = {"events": [], "checked": 0}


def _install_purity_observers(hooks):
    """fingerprint the input procedure (and its callees) before every primitive call made by a
    test and compare after the call, whether it returned or raised"""
    from . import irutil

    def fps(proc):
        ir = getattr(proc, "_loopir_proc", None)
        if ir is None:
            return None
        out = [(ir, irutil.fingerprint(ir))]
        try:
            for c in irutil.callees(ir):
                out.append((c, irutil.fingerprint(c)))
        except Exception:
            pass
        return out

    def pre(rec):
        try:
            if irutil.count_nodes(rec.proc_in._loopir_proc) > 1500:
                return
        except Exception:
            return
        rec.aux = fps(rec.proc_in)

    def post(rec):
        if not rec.aux:
            return
        _PURITY["checked"] += 1
        for ir, fp in rec.aux:
            if irutil.fingerprint(ir) != fp:
                if len(_PURITY["events"]) < 10:
                    _PURITY["events"].append({"op": rec.op, "proc": str(getattr(ir, "name", "?")), "raised": rec.exc is not None})
                break
        rec.aux = None

    hooks.REC.pre = pre
    hooks.REC.post = post


def pytest_runtest_setup(item):
    try:
        from . import hooks

        hooks.REC.clear()
    except Exception:
        pass


def pytest_runtest_teardown(item, nextitem):
    if _OUT is None:
        return
    try:
        from . import hooks

        calls = hooks.REC.take()
        hooks.REC.enabled = False
        try:
            _judge_calls(item.nodeid, calls)
        finally:
            hooks.REC.enabled = True
    except Exception as e:
        _w({"t": "inconc", "k": "w2_monitor_error:" + type(e).__name__, "n": 1})


def pytest_unconfigure(config):
    if _OUT:
        _w({"t": "done"})
        _OUT.close()


# ----------------------------------------------------------------------------
def _judge_calls(test_id, calls):
    from . import irutil, equiv
    from .common import jhash
    from .stream import sstr, diagnose, ir_features

    rng = _STATE["rng"]
    _w({"t": "stat", "k": "w2.tests", "n": 1})
    budget_t = time.time() + 20  # per test, generation only
    if "C07" in _MON:
        n = _PURITY["checked"]
        _PURITY["checked"] = 0
        _w({"t": "stat", "k": "w2.purity_checks", "n": n})
        _w({"t": "stat", "k": "evaluations", "n": n})
        for ev in _PURITY["events"]:
            _w({"t": "viol", "sig": {"prop": "C07", "monitor": "purity", "kind": "fingerprint", "op": ev["op"], "workload": "W2"}, "case": {"w2_test": test_id, "detail": ev}})
        _PURITY["events"] = []
    if "C17" in _MON:
        from .props.C17 import _HOOK

        n = _HOOK["evals"]
        _HOOK["evals"] = 0
        _w({"t": "stat", "k": "w2.get_name_evals", "n": n})
        _w({"t": "stat", "k": "evaluations", "n": 1 if n else 0})
        for ev in _HOOK["events"]:
            _w({"t": "viol", "sig": {"prop": "C17", "monitor": "get_name", "kind": "two_symbols_one_name", "workload": "W2"}, "case": {"w2_test": test_id, "event": ev}})
        _HOOK["events"] = []
    if "C06" in _MON:
        _judge_forwarding(test_id, calls, budget_t)
    if not (_MON & {"C01", "C04"}):
        return
    for k, c in enumerate(calls):
        if not c.accepted or c.proc_in is None or not hasattr(c.proc_in, "_loopir_proc"):
            if c.exc is not None:
                _w({"t": "stat", "k": "w2.calls_rejected", "n": 1})
            continue
        old_ir, new_ir = c.proc_in._loopir_proc, c.proc_out._loopir_proc
        if old_ir is new_ir:
            continue
        _w({"t": "stat", "k": "w2.calls_accepted", "n": 1})
        _w({"t": "stat", "k": f"op.accepted.{c.op}", "n": 1})
        case = {"w2_test": test_id, "call_index": k, "op": c.op, "before": sstr(c.proc_in, 2500), "after": sstr(c.proc_out, 2500)}
        h = jhash([irutil.fingerprint(old_ir, alpha=True), c.op, irutil.fingerprint(new_ir, alpha=True)])
        if "C04" in _MON:
            _w({"t": "stat", "k": "w2.validate", "n": 1})
            probs = irutil.validate(new_ir)
            if probs and not irutil.validate(old_ir):
                from .diagnosers import binder_kind

                dg = dict(diagnose(c.op, old_ir, new_ir, c) or {})
                dg["oos_binder"] = binder_kind(old_ir, probs[0].get("sym"))
                sig = {"prop": "C04", "monitor": "validate", "kind": probs[0]["kind"], "op": c.op, "workload": "W2", "features": ir_features(old_ir), "diag": dg}
                _w({"t": "viol", "sig": sig, "case": dict(case, problems=probs)})
                continue
        if time.time() > budget_t:
            _w({"t": "stat", "k": "w2.skipped_time", "n": 1})
            continue
        if not (_MON & {"C01", "C04"}):
            continue
        if c.is_unsafe():
            continue
        try:
            n = irutil.count_nodes(new_ir)
        except Exception:
            n = 10**9
        if n > _STATE["nodes_cap"]:
            _w({"t": "stat", "k": "w2.skipped_large", "n": 1})
            continue
        _, mf = equiv.reported_mod_fields(old_ir, new_ir)
        try:
            j = equiv.judge(old_ir, new_ir, rng, 3, mf, size_cap=4)
        except Exception as e:
            _w({"t": "inconc", "k": "w2_judge_error:" + type(e).__name__, "n": 1})
            continue
        if j["verdict"] == "vacuous":
            _w({"t": "stat", "k": "w2.vacuous", "n": 1})
            continue
        _w({"t": "stat", "k": "evaluations", "n": 1})
        _w({"t": "stat", "k": f"op.judged.{c.op}", "n": 1})
        _w({"t": "distinct", "h": h, "nt": True})
        if j["verdict"] == "diff" and "C01" in _MON:
            sig = {"prop": "C01", "monitor": "equiv", "kind": "diff", "op": c.op, "workload": "W2", "features": ir_features(old_ir), "diag": diagnose(c.op, old_ir, new_ir, c)}
            _w({"t": "viol", "sig": sig, "case": dict(case, witness=j["witness"], input=j["spec"].to_json() if j["spec"] else None)})
        elif j["verdict"] in ("new_event", "poison") and "C04" in _MON:
            ev = (j["witness"] or {}).get("event") or {}
            kind = "poison" if j["verdict"] == "poison" else "event:" + str(ev.get("kind") or (j["witness"] or {}).get("aborted"))
            sig = {"prop": "C04", "monitor": "safety", "kind": kind, "op": c.op, "workload": "W2", "features": ir_features(old_ir), "diag": diagnose(c.op, old_ir, new_ir, c)}
            _w({"t": "viol", "sig": sig, "case": dict(case, witness=j["witness"], input=j["spec"].to_json() if j["spec"] else None)})


# ---------------------------------------------------------------------------- C06
class _W2Ctx:
    """the part of the shard context the stream monitors use, writing W2 records"""

    def __init__(self, rng):
        self.rng = rng
        self._nsamples = 99

    def stat(self, k, n=1):
        _w({"t": "stat", "k": k, "n": n})

    def distinct(self, h, nontrivial=True):
        _w({"t": "distinct", "h": h, "nt": bool(nontrivial)})

    def inconclusive(self, k, n=1):
        _w({"t": "inconc", "k": k, "n": n})

    def sample(self, *a, **k):
        pass


class _Pair:
    """two procedures presented to ForwardMonitor.check_pair as a session"""

    def __init__(self, a, b):
        self.procs = [a, b]
        self.steps = []


def _judge_forwarding(test_id, calls, budget_t):
    from . import irutil
    from .common import jhash
    from .monitors import ForwardMonitor
    from .stream import sstr

    class M(ForwardMonitor):
        def report(self, sess, step, kind, detail, frm, to):
            sig = {"prop": "C06", "monitor": "forward", "kind": kind, "op": step["op"], "span": 1, "workload": "W2"}
            if step.get("flags"):
                sig["flags"] = step["flags"]  # boolean arguments of the call (mechanism level, e.g. guard=True)
            _w({"t": "viol", "sig": sig, "case": {"w2_test": test_id, "op": step["op"], "detail": detail, "before": sstr(sess.procs[0], 2500), "after": sstr(sess.procs[1], 2500)}})

    mon = M(_W2Ctx(_STATE["rng"]), max_cursors=80, implicit_every=0)
    seen = set()
    for c in calls:
        if time.time() > budget_t:
            _w({"t": "stat", "k": "w2.forward_skipped_time", "n": 1})
            break
        if not c.accepted or c.proc_in is None or not hasattr(c.proc_in, "_loopir_proc"):
            continue
        a, b = c.proc_in, c.proc_out
        if a._loopir_proc is b._loopir_proc:
            continue
        try:
            if irutil.count_nodes(a._loopir_proc) > 1200:
                _w({"t": "stat", "k": "w2.forward_skipped_large", "n": 1})
                continue
        except Exception:
            continue
        h = jhash([irutil.fingerprint(a._loopir_proc, alpha=True), c.op])
        if h in seen:
            continue
        seen.add(h)
        mon.on_program(None)
        try:
            flags = {k: v for k, v in (c.kwargs or {}).items() if isinstance(v, bool)}
            mon.check_pair(_Pair(a, b), {"op": c.op, "flags": flags}, 0, 1)
            _w({"t": "stat", "k": "w2.forward_pairs", "n": 1})
            _w({"t": "stat", "k": f"op.judged.{c.op}", "n": 1})
            _w({"t": "distinct", "h": h, "nt": True})
        except Exception as e:
            _w({"t": "inconc", "k": "w2_forward_error:" + type(e).__name__, "n": 1})
