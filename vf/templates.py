"""Enabling templates (E3): parameterised program shapes on which the pickier
primitives are applicable (mult_dim, unroll_buffer, resize_dim(fold), reuse_buffer,
lift_reduce_constant, fuse/join_loops, merge_writes, fold_into_reduce, delete_buffer,
...), randomised in sizes, offsets and surrounding code; they are then scheduled
further at random like every other program."""

from .gen_prog import GenProgram, HEADER


def _c(rng, xs):
    return rng.choice(xs)


def t_temp2d(rng):
    a, b = _c(rng, [2, 3, 4]), _c(rng, [2, 4])
    order = rng.random() < 0.5
    shape = f"{a}, {b}" if order else f"{b}, {a}"
    idx = (lambda p, q: f"{p}, {q}") if order else (lambda p, q: f"{q}, {p}")
    scale = _c(rng, ["2.0", "0.5", "3.0"])
    body = f"""@proc
def root(n: size, x: f32[n, {b}], y: f32[n, {b}]):
    for i in seq(0, n):
        t: f32[{shape}]
        for p in seq(0, {a}):
            for q in seq(0, {b}):
                t[{idx('p', 'q')}] = x[i, q] * {scale}
        for q in seq(0, {b}):
            y[i, q] = t[{idx('0', 'q')}] + t[{idx(str(a - 1), 'q')}]
"""
    return GenProgram(HEADER + body, "root", [], [], {"template": "temp2d", "prefer_ops": ["autolift_alloc", "lift_alloc", "autofission", "fission", "sink_alloc", "expand_dim", "lift_scope"]})


def t_two_loops(rng):
    lo = _c(rng, [0, 0, 1])
    hi = _c(rng, ["n", "n", "n - 1"])
    c = _c(rng, ["2.0", "3.0", "0.5"])
    # second loop: same bounds, or a larger lower bound with a shifted index
    d = _c(rng, [0, 0, 1, 2])
    lo2 = lo + d
    idx = "i" if d == 0 else f"i - {d}"
    second = _c(rng, [f"y[{idx}] += x[i] * {c}", f"y[{idx}] = y[{idx}] + x[i]", f"z[{idx}] = y[i] * {c}", f"z[{idx}] = x[i] * {c}", f"z[{idx}] = {c}"])
    body = f"""@proc
def root(n: size, x: f32[n], y: f32[n], z: f32[n]):
    assert n >= {max(2, lo2 + 1)}
    for i in seq({lo}, {hi}):
        y[i] = {_c(rng, ['0.0', 'x[i]', '1.0'])}
    for i in seq({lo2}, {hi}):
        {second}
    for i in seq(0, n):
        z[i] = z[i] + y[i]
"""
    return GenProgram(HEADER + body, "root", [], [], {"template": "two_loops", "prefer_ops": ["fuse", "fuse", "join_loops", "reorder_stmts"]})


def t_reduce_const(rng):
    c = _c(rng, ["2.0", "4.0", "0.5"])
    inner = _c(rng, [f"acc += {c} * x[i]", f"acc += x[i] * {c}", f"acc += {c} * (x[i] * y[i])"])
    body = f"""@proc
def root(n: size, x: f32[n], y: f32[n], out: f32[1]):
    acc: f32
    acc = 0.0
    for i in seq(0, n):
        {inner}
    out[0] = acc
"""
    return GenProgram(HEADER + body, "root", [], [], {"template": "reduce_const", "prefer_ops": ["bind_expr", "fold_into_reduce", "inline_assign", "stage_mem", "merge_writes"]})


def t_sliding(rng):
    w = _c(rng, [2, 3])
    taps = " + ".join(f"t[i + {k}]" for k in range(w))
    body = f"""@proc
def root(n: size, x: f32[n + {w - 1}], y: f32[n]):
    t: f32[n + {w - 1}]
    for i in seq(0, {w - 1}):
        t[i] = x[i]
    for i in seq(0, n):
        t[i + {w - 1}] = x[i + {w - 1}]
        y[i] = {taps}
"""
    return GenProgram(HEADER + body, "root", [], [], {"template": "sliding", "prefer_ops": ["stage_mem", "divide_with_recompute", "divide_loop", "std.auto_stage_mem"]})


def t_two_temps(rng):
    k = _c(rng, [3, 4])
    body = f"""@proc
def root(x: f32[{k}], z: f32[{k}], y: f32[{k}], w: f32[{k}]):
    a: f32[{k}]
    for i in seq(0, {k}):
        a[i] = x[i] * 2.0
    for i in seq(0, {k}):
        y[i] = a[i] + 1.0
    b: f32[{k}]
    for i in seq(0, {k}):
        b[i] = z[i]
    for i in seq(0, {k}):
        w[i] = b[i] * b[i]
    unused: f32[{k}]
"""
    return GenProgram(HEADER + body, "root", [], [], {"template": "two_temps", "prefer_ops": ["reuse_buffer", "delete_buffer", "inline_assign", "resize_dim", "sink_alloc"]})


def t_split_range(rng):
    m = _c(rng, [1, 2, 3])
    body = f"""@proc
def root(n: size, x: f32[n], y: f32[n]):
    assert n >= {m + 1}
    for i in seq(0, {m}):
        y[i] = x[i] * 2.0
    for i in seq({m}, n):
        y[i] = x[i] * 2.0
"""
    return GenProgram(HEADER + body, "root", [], [], {"template": "split_range", "prefer_ops": ["join_loops", "cut_loop", "shift_loop", "fuse"]})


def t_writes(rng):
    second = _c(rng, ["y[i] += z[i]", "y[i] = z[i]", "y[i] += x[i] * z[i]"])
    body = f"""@proc
def root(n: size, x: f32[n], y: f32[n], z: f32[n]):
    for i in seq(0, n):
        y[i] = x[i]
        {second}
        z[i] = z[i] + x[i]
"""
    return GenProgram(HEADER + body, "root", [], [], {"template": "writes"})


def t_matmul(rng):
    body = """@proc
def root(M: size, N: size, K: size, A: f32[M, K], B: f32[K, N], C: f32[M, N]):
    for i in seq(0, M):
        for j in seq(0, N):
            for k in seq(0, K):
                C[i, j] += A[i, k] * B[k, j]
"""
    return GenProgram(HEADER + body, "root", [], [], {"template": "matmul"})


def t_conv1d(rng):
    r = _c(rng, [2, 3])
    body = f"""@proc
def root(n: size, x: f32[n + {r - 1}], w: f32[{r}], y: f32[n]):
    for i in seq(0, n):
        y[i] = 0.0
        for r in seq(0, {r}):
            y[i] += x[i + r] * w[r]
"""
    return GenProgram(HEADER + body, "root", [], [], {"template": "conv1d"})


def t_blur(rng):
    body = """@proc
def root(n: size, m: size, inp: f32[n + 2, m], out: f32[n, m]):
    bx: f32[n + 2, m]
    for i in seq(0, n + 2):
        for j in seq(0, m):
            bx[i, j] = inp[i, j] * 0.5
    for i in seq(0, n):
        for j in seq(0, m):
            out[i, j] = bx[i, j] + bx[i + 1, j] + bx[i + 2, j]
"""
    return GenProgram(HEADER + body, "root", [], [], {"template": "blur"})


def t_temp2d_call(rng):
    a, b = _c(rng, [2, 3]), _c(rng, [2, 4])
    body = f"""@proc
def fill(dst: [f32][{b}], v: f32):
    for q in seq(0, {b}):
        dst[q] = v

@proc
def root(n: size, x: f32[n, {b}], y: f32[n, {b}], sc: f32):
    for i in seq(0, n):
        t: f32[{a}, {b}]
        fill(t[0, 0:{b}], sc)
        fill(t[{a - 1}, 0:{b}], sc)
        for q in seq(0, {b}):
            t[0, q] += x[i, q]
        for q in seq(0, {b}):
            y[i, q] = t[0, q] + t[{a - 1}, q]
"""
    return GenProgram(HEADER + body, "root", ["fill"], [], {"template": "temp2d_call"})


def t_config_flow(rng):
    """configuration written, read in a guard, overwritten; a callee that reads / writes it"""
    v1, v2 = _c(rng, [1, 2, 3]), _c(rng, [0, 4])
    loopw = rng.random() < 0.5
    body = f"""@config
class Cfg:
    n: index
    a: f32
    b: bool

@proc
def sub(x: f32[4]):
    for i in seq(0, 4):
        x[i] = x[i] + 1.0

@proc
def subw(x: f32[4]):
    Cfg.n = {v1}
    for i in seq(0, 4):
        x[i] = x[i] + 1.0

@proc
def root(x: f32[4], y: f32[4], sc: f32):
    Cfg.n = {v2}
    {'for k in seq(0, 4):' if loopw else 'if Cfg.n == ' + str(v2) + ':'}
        Cfg.n = {v1 + 4}
    sub(x)
    Cfg.n = {v1}
    if Cfg.n == {v1}:
        y[0] = 2.0
    sub(y)
    if Cfg.n == {v1}:
        y[1] = sc
    Cfg.n = 0
    Cfg.a = sc
    y[2] = Cfg.a * 2.0
"""
    return GenProgram(HEADER + body, "root", ["sub", "subw"], ["Cfg"], {"template": "config_flow"})


def t_name_clash(rng):
    """several distinct symbols with one spelling once scheduled (inlined callee iterator and
    temporary, unrolled/cut loops), next to arguments spelled like the printer's fallback
    names (i_1, t_1, i_2) and a three-way condition"""
    v = _c(rng, ["i", "j"])
    t = _c(rng, ["t", "tmp"])
    spare = _c(rng, [f"{v}_1", f"{t}_1", f"{v}_2", f"{v}_1"])
    cond = _c(rng, [f"(n > 2 or flag) and {v} < 2", f"(n > 2 and flag) and {v} < 2", f"({v} < 1 or flag) or n > 3", f"n > 2 and (flag or {v} < 2)", "flag"])
    body = f"""@proc
def fill(n: size, dst: [f32][n], src: [f32][n]):
    for {v} in seq(0, n):
        {t}: f32
        {t} = src[{v}] * 2.0
        dst[{v}] = {t}


@proc
def root(n: size, x: f32[4, n], y: f32[4, n], {spare}: f32[n], flag: bool):
    assert n >= 1
    for {v} in seq(0, 4):
        {t}: f32
        {t} = {spare}[0]
        fill(n, y[{v}, 0:n], x[{v}, 0:n])
        if {cond}:
            y[{v}, 0] += {t}
"""
    return GenProgram(HEADER + body, "root", ["fill"], [], {"template": "name_clash", "prefer_ops": ["inline", "inline", "unroll_loop", "cut_loop", "specialize", "inline_window"]})


def t_config_loop(rng):
    """a loop (or two adjacent loops) in which one part reads a configuration field and the
    other writes it: loop-carried dependences through configuration state"""
    kind = _c(rng, ["bool", "real", "index"])
    if kind == "bool":
        read = "if Cfg.b == True:\n            x[i] = 1.0"
        write = f"Cfg.b = {_c(rng, ['False', 'flag'])}"
    elif kind == "real":
        read = "x[i] = Cfg.a + 1.0"
        write = f"Cfg.a = {_c(rng, ['sc', '2.0'])}"
    else:
        read = "if Cfg.n == 1:\n            x[i] = 3.0"
        write = f"Cfg.n = {_c(rng, [0, 1, 2])}"
    other = _c(rng, ["y[i] = y[i] * 2.0", "y[i] += 1.0", "y[i] = sc"])
    read_first = rng.random() < 0.6
    shape = _c(rng, ["one", "one", "two"])
    a, b = (read, write) if read_first else (write, read)
    if shape == "one":
        parts = [a, other, b] if rng.random() < 0.5 else [a, b, other]
        loops = "    for i in seq(0, n):\n" + "".join(f"        {p_}\n" for p_ in parts)
    else:
        loops = f"    for i in seq(0, n):\n        {a}\n        {other}\n    for i in seq(0, n):\n        {b}\n"
    body = f"""@config
class Cfg:
    n: index
    a: f32
    b: bool

@proc
def root(n: size, x: f32[n], y: f32[n], sc: f32, flag: bool):
    assert n >= 2
{loops}"""
    return GenProgram(HEADER + body, "root", [], ["Cfg"], {"template": "config_loop", "prefer_ops": ["fission", "fission", "autofission", "fuse", "reorder_stmts", "remove_loop", "std.hoist_from_loop"]})


def t_mod_trip(rng):
    """trip counts and indices built from / and % of iterators with short constant ranges
    (ranges that do and do not straddle a multiple of the modulus): what range analysis
    concludes about them is what simplify folds with"""
    c = _c(rng, [3, 4, 5])
    lo = _c(rng, [0, 1, 2, 3, 5])
    ln = _c(rng, [1, 2, c - 1, c - 1, c, c + 1])
    hi = lo + ln
    s_ = _c(rng, [0, 0, 1, 2, 3])
    k = _c(rng, [2, 3])
    inner = _c(
        rng,
        [
            f"y[j, i / {k}] += x[i % {k}]",
            f"y[j, i % {k}] = x[i / {k}] + 1.0",
            f"y[j, (i + j) % {k}] += x[(i + {s_}) / {k}]",
            f"if i / {k} > 0:\n                y[j, i] = 2.0\n            else:\n                y[j, i] += x[i]",
        ],
    )
    body = f"""@proc
def root(x: f32[{c + 4}], y: f32[{hi + 1}, {c + 1}]):
    for j in seq({lo}, {hi}):
        for i in seq(0, (j + {s_}) % {c}):
            {inner}
"""
    return GenProgram(HEADER + body, "root", [], [], {"template": "mod_trip", "prefer_ops": ["simplify", "simplify", "unroll_loop", "cut_loop", "divide_loop", "std.cleanup"]})


# ---------------------------------------------------------------------------
# quasi-affine programs aimed at simplify / range analysis (C12, C13, C01, C04)
def _qa_expr(rng, vars_, depth, want_neg=True):
    """random quasi-affine index expression over vars_ (text)"""
    if depth <= 0 or rng.random() < 0.25:
        v = _c(rng, vars_)
        r = rng.random()
        if r < 0.35:
            return v
        if r < 0.6:
            return f"{v} + {_c(rng, [1, 2, 3, 5])}"
        if r < 0.75 and want_neg:
            return f"{v} - {_c(rng, [1, 2, 3, 4])}"
        if r < 0.9:
            return f"{_c(rng, [2, 3, 4])} * {v}"
        return f"{_c(rng, [2, 4])} * {v} + {_c(rng, vars_)}"
    r = rng.random()
    a = _qa_expr(rng, vars_, depth - 1, want_neg)
    if r < 0.35:
        return f"({a}) % {_c(rng, [2, 3, 4, 4, 5, 8])}"
    if r < 0.65:
        return f"({a}) / {_c(rng, [2, 3, 4, 4, 8])}"
    b = _qa_expr(rng, vars_, depth - 1, want_neg)
    if r < 0.85:
        return f"{a} + {b}"
    if want_neg:
        return f"{a} - ({b})"
    return f"{a} + {_c(rng, [2, 3])} * ({b})"


def t_quasi(rng):
    """loop nest whose trip counts, guards and indices are / and % expressions of iterators,
    sizes and a possibly negative index argument; a guard and the statements it protects share
    a sub-expression E (guard `E / M == c`, `E % M == c`, `E < c`; body uses E % M, E / M), the
    ranges of the iterators are short constant ranges that do / do not straddle a multiple of the
    modulus.  Every access is wrapped in `% P` (P prime, larger than the moduli) or left bare
    (then the front end decides), so that the program is accepted and a changed index value
    changes the location touched."""
    P, Q = _c(rng, [11, 13, 17]), _c(rng, [7, 11, 13])
    c = _c(rng, [3, 4, 4, 5, 8])
    lo = _c(rng, [0, 0, 1, 2, 3, 5, 6])
    ln = _c(rng, [1, 2, c - 1, c, c + 1, c + 2])
    hi = lo + ln
    s_ = _c(rng, [0, 1, 2, 3])
    use_n = rng.random() < 0.5
    use_r = rng.random() < 0.4
    outer_hi = _c(rng, [str(hi), str(hi), "n"]) if use_n else str(hi)
    trip = _c(
        rng,
        [
            f"(j + {s_}) % {c}",
            f"(j + {s_}) % {c} + 1",
            f"(j + {s_}) / {c} + 1",
            f"{c} - j % {c}",
            f"(2 * j + {s_}) % {c} + 1",
            str(_c(rng, [2, 3, 4, 5, 6, 8])),
            "n % 4 + 1" if use_n else f"j % {c} + 2",
        ],
    )
    vars_ = ["i", "j"] + (["n"] if use_n else []) + (["r"] if use_r else [])
    E = _qa_expr(rng, vars_, _c(rng, [0, 1, 1, 2]))
    M = _c(rng, [2, 3, 4, 4, 8])
    c0 = _c(rng, [0, 0, 1, 1, 2, 3])
    guard = _c(
        rng,
        [
            f"({E}) / {M} == {c0}",
            f"({E}) % {M} == {c0 % M}",
            f"({E}) / {M} < {c0 + 1}",
            f"({E}) < {M * (c0 + 1)}",
            f"({E}) / {M} >= {c0}",
            f"({E}) / {M} == {c0} and ({E}) >= 0",
            f"({E}) >= 0 and ({E}) < {M}",
            None,
        ],
    )

    def idx(mod, depth=None):
        r = rng.random()
        if r < 0.4:
            e = _c(rng, [f"({E}) % {M}", f"({E}) / {M}", f"({E}) % {M} + ({E}) / {M}", f"{M} * (({E}) / {M}) + ({E}) % {M}"])
        else:
            e = _qa_expr(rng, vars_, _c(rng, [1, 2, 2, 3]) if depth is None else depth)
        if rng.random() < 0.75:
            return f"({e}) % {mod}"
        return e

    def stmt():
        op = _c(rng, ["=", "+="])
        return f"y[{idx(Q)}, {idx(P)}] {op} x[{idx(P)}]"

    ind = "            "
    if guard is None:
        inner = ind + stmt() + "\n" + (ind + stmt() + "\n" if rng.random() < 0.4 else "")
    else:
        inner = f"{ind}if {guard}:\n{ind}    {stmt()}\n"
        if rng.random() < 0.5:
            inner += f"{ind}else:\n{ind}    {stmt()}\n"
    args = (["n: size"] if use_n else []) + (["r: index"] if use_r else []) + [f"x: f32[{P}]", f"y: f32[{Q}, {P}]"]
    asserts = ""
    if use_n:
        nlo = _c(rng, [1, 1, 2, lo + 1])
        asserts += f"    assert n >= {max(nlo, lo + 1)}\n    assert n <= {max(nlo, lo + 1) + _c(rng, [2, 4, 7])}\n"
    if use_r:
        asserts += f"    assert r >= {_c(rng, [-6, -3, -1, 0])}\n    assert r <= {_c(rng, [1, 3, 6])}\n"
    body = f"""@proc
def root({', '.join(args)}):
{asserts}    for j in seq({lo}, {outer_hi}):
        for i in seq(0, {trip}):
{inner}"""
    return GenProgram(HEADER + body, "root", [], [], {"template": "quasi", "prefer_ops": ["simplify"]})


def t_config_arg(rng):
    """control-typed configuration fields (bool / index) passed directly as call arguments -- a read
    of the field that no expression of the caller shows -- between writes of the same field"""
    v1 = _c(rng, [0, 1, 2])
    v2 = _c(rng, [0, 1, 2])
    b1 = _c(rng, ["flag", "True", "False"])
    b2 = _c(rng, ["flag", "True", "False"])
    op = _c(rng, ["=", "+="])
    calls = [
        "sub(n, x[0:n], Cfg.b, Cfg.k)",
        "sub(n, y[0:n], Cfg.b, 0)",
        f"sub(n, x[0:n], {_c(rng, ['True', 'flag'])}, Cfg.k)",
        "sub(n, y[0:n], Cfg.b, Cfg.k)",
    ]
    rng.shuffle(calls)
    mid = _c(rng, [f"Cfg.b = {b2}", f"Cfg.k = {v2}", f"Cfg.b = {b2}\n    Cfg.k = {v2}"])
    tail = _c(rng, ["", f"    Cfg.k = {v1}\n", f"    Cfg.b = {b1}\n", "    if Cfg.b == True:\n        y[0] = 2.0\n"])
    body = f"""@config
class Cfg:
    k: index
    a: f32
    b: bool

@proc
def sub(n: size, dst: [f32][n], go: bool, off: index):
    for i in seq(0, n):
        if go:
            if i >= off:
                dst[i] {op} 1.0

@proc
def root(n: size, x: f32[n], y: f32[n], flag: bool):
    assert n >= 3
    Cfg.b = {b1}
    Cfg.k = {v1}
    {calls[0]}
    {mid}
    {calls[1]}
{tail}    {calls[2]}
"""
    return GenProgram(HEADER + body, "root", ["sub"], ["Cfg"], {"template": "config_arg", "prefer_ops": ["delete_config", "delete_config", "write_config", "bind_config", "reorder_stmts", "inline", "fission"]})


def t_config_first_iter(rng):
    """a loop whose only change of a configuration field happens in its first (only) iteration,
    or in every iteration, followed by a read of the field (guard, right-hand side, call argument);
    real and bool fields (the front end cannot handle index fields written in loops)"""
    lo = _c(rng, [0, 0, 1, 2])
    kind = _c(rng, ["one_trip", "one_trip", "one_trip", "every"])
    hi = str(lo + 1) if kind == "one_trip" else "n"
    other = _c(rng, ["x[i] = x[i] * 2.0", "x[i] += 1.0", "pass"])
    if rng.random() < 0.5:
        pre = _c(rng, ["Cfg.a = sc", "Cfg.a = sc", "pass"])
        inner = f"Cfg.a = {_c(rng, ['3.0', '0.5', 'sc2'])}"
        reader = _c(rng, ["y[0] = Cfg.a", "subr(n, y[0:n], Cfg.a)", "for j in seq(0, n):\n        y[j] = Cfg.a * 2.0"])
        post = _c(rng, ["pass", "pass", "Cfg.a = sc"])
    else:
        pre = _c(rng, ["Cfg.b = flag", "Cfg.b = flag", "pass"])
        inner = f"Cfg.b = {_c(rng, ['True', 'False', 'flag2'])}"
        reader = _c(rng, ["if Cfg.b == True:\n        y[0] = 2.0", "subb(n, y[0:n], Cfg.b)", "for j in seq(0, n):\n        if Cfg.b == True:\n            y[j] = 3.0"])
        post = _c(rng, ["pass", "pass", "Cfg.b = flag"])
    body = f"""@config
class Cfg:
    k: index
    a: f32
    b: bool

@proc
def subr(n: size, dst: [f32][n], s: f32):
    for i in seq(0, n):
        dst[i] = s

@proc
def subb(n: size, dst: [f32][n], go: bool):
    for i in seq(0, n):
        if go:
            dst[i] = 1.0

@proc
def root(n: size, x: f32[n], y: f32[n], sc: f32, sc2: f32, flag: bool, flag2: bool):
    assert n >= {lo + 2}
    {pre}
    for i in seq({lo}, {hi}):
        {inner}
        {other}
    {reader}
    {post}
"""
    return GenProgram(HEADER + body, "root", ["subr", "subb"], ["Cfg"], {"template": "config_first_iter", "prefer_ops": ["delete_config", "delete_config", "write_config", "bind_config", "reorder_stmts", "fission", "remove_loop", "unroll_loop"]})


def t_dup_blocks(rng):
    """a block (allocation, a statement over arguments only, loops over a size) that duplicating
    rewrites copy (specialize with several conditions, cut_loop, unroll_loop); later rewrites of
    one copy are checked under that copy's own path condition"""
    cap = _c(rng, [6, 8])
    lead = _c(rng, ["y[0] = 0.0", "y[0] = x[0]", "pass", "y[0] += 1.0"])
    body = f"""@proc
def root(n: size, x: f32[{cap}], y: f32[{cap}]):
    assert n <= {cap}
    t: f32[{cap}]
    {lead}
    for i in seq(0, n):
        t[i] = x[i] * 2.0
    for i in seq(0, n):
        y[i] += t[i]
"""
    seq = _c(rng, [["specialize", "resize_dim"], ["specialize", "resize_dim"], ["specialize", "specialize", "resize_dim"], ["specialize", "stage_mem"], ["specialize", "divide_dim"], ["specialize", "sink_alloc"]])
    return GenProgram(HEADER + body, "root", [], [], {"template": "dup_blocks", "op_sequence": seq, "prefer_ops": ["specialize"]})


def t_nested_windows(rng):
    """a window statement cut from a window statement (offsets in both, point indices in the inner
    one) next to direct accesses of the underlying buffer that do / do not overlap it: every
    effect-based check has to compose the two windows to see the overlap"""
    R, C = _c(rng, [6, 8]), 4
    lo = _c(rng, [0, 1, 2, 2])
    p_ = _c(rng, [0, 1, 1, 2])
    clo = _c(rng, [0, 0, 1])
    row = lo + p_ if rng.random() < 0.6 else _c(rng, [r for r in range(R) if r != lo + p_])
    inner = _c(rng, [f"w[{p_}, {clo}:{C}]", f"w[{p_}, {clo}:{C}]", f"w[{p_}:{p_ + 1}, {clo}:{C}]"])
    zi = (lambda j: f"z[{j}]") if ":" not in inner.split(",")[0] else (lambda j: f"z[0, {j}]")
    n = C - clo
    a = f"for j in seq(0, {n}):\n        {zi('j')} {_c(rng, ['=', '+='])} {_c(rng, ['1.0', 'y[j]'])}"
    b = f"for j in seq(0, {n}):\n        x[{row}, j + {clo}] {_c(rng, ['=', '+='])} {_c(rng, ['2.0', 'y[j] * 2.0'])}"
    c = f"for j in seq(0, {n}):\n        y[j] = x[{row}, j + {clo}] + {zi('j')}"
    parts = [a, b, c] if rng.random() < 0.5 else [b, a, c]
    if rng.random() < 0.3:
        parts = [parts[0], parts[2], parts[1]]
    body = f"""@proc
def root(x: f32[{R}, {C}], y: f32[{C}]):
    w = x[{lo}:{R}, 0:{C}]
    z = {inner}
    {parts[0]}
    {parts[1]}
    {parts[2]}
"""
    return GenProgram(HEADER + body, "root", [], [], {"template": "nested_windows", "prefer_ops": ["reorder_stmts", "reorder_stmts", "fuse", "fission", "remove_loop", "inline_window", "stage_mem", "std.hoist_stmt", "parallelize_loop", "std.auto_stage_mem"]})


def t_sig_calls(rng):
    """2-D (non-square) tensors handed to sub-procedures whole, as windows and element-wise, and a
    size argument whose spelling is reused by a loop iterator: what transpose / partial_eval /
    set_window / set_precision have to treat consistently at every use"""
    const = rng.random() < 0.5
    m, n = (str(_c(rng, [2, 3])), str(_c(rng, [4, 5]))) if const else ("m", "n")
    sizes = "" if const else "m: size, n: size, "
    passm = "" if const else "m, n, "
    csig = "" if const else "m: size, n: size, "
    whole = _c(rng, [f"rowsum({passm}A, y)", f"rowsum({passm}A, y)", f"rowsum({passm}A[0:{m}, 0:{n}], y)"])
    dense = "A: f32[{m}, {n}]" if "0:" not in whole else "A: [f32][{m}, {n}]"
    dense = dense.format(m=m, n=n)
    direct = _c(rng, [f"for j in seq(0, {n}):\n        z[j] = A[0, j]", f"for i in seq(0, {m}):\n        for j in seq(0, {n}):\n            z[j] += A[i, j]", "pass"])
    shadow = _c(rng, ["k", "k", "n" if not const else "k"])
    body = f"""@proc
def rowsum({csig}{dense}, y: f32[{m}]):
    for i in seq(0, {m}):
        for j in seq(0, {n}):
            y[i] += A[i, j]


@proc
def root({sizes}A: f32[{m}, {n}], y: f32[{m}], z: f32[{n}]):
    {whole}
    {direct}
    for {shadow} in seq(0, {m}):
        y[{shadow}] = y[{shadow}] * 2.0
"""
    return GenProgram(HEADER + body, "root", ["rowsum"], [], {"template": "sig_calls", "prefer_ops": ["transpose", "transpose", "partial_eval", "set_window", "set_precision", "inline"]})


def t_adjacent_loops(rng):
    """two (three) adjacent loops over contiguous ranges whose bodies are equal, or equal up to a
    prefix / one operand / the iterator's spelling: what join_loops, fuse and remove_loop compare"""
    mid = _c(rng, [2, 3, 4])
    hi = mid + _c(rng, [2, 3, 4])
    v1 = _c(rng, ["i", "i", "j"])
    v2 = _c(rng, [v1, v1, "k"])
    s1 = ["x[{v}] = 1.0", "y[{v}] = x[{v}] * 2.0", "z[{v}] += y[{v}]"]
    n1 = _c(rng, [1, 2, 3])
    kind = _c(rng, ["same", "same", "prefix", "longer", "operand", "gap"])
    b1 = s1[:n1]
    if kind == "same":
        b2 = list(b1)
    elif kind == "prefix":
        b2 = b1[: max(1, n1 - 1)] if n1 > 1 else b1 + [s1[1]]
    elif kind == "longer":
        b2 = b1 + [s1[n1 % 3].replace("1.0", "3.0")]
    elif kind == "operand":
        b2 = [t.replace("1.0", "0.5").replace("* 2.0", "* 4.0") for t in b1]
    else:
        b2 = list(b1)
    lo2 = mid + (1 if kind == "gap" else 0)
    body1 = "\n        ".join(t.format(v=v1) for t in b1)
    body2 = "\n        ".join(t.format(v=v2) for t in b2)
    third = f"\n    for {v1} in seq({hi}, {hi + 2}):\n        " + "\n        ".join(t.format(v=v1) for t in b1) if rng.random() < 0.3 else ""
    body = f"""@proc
def root(x: f32[{hi + 3}], y: f32[{hi + 3}], z: f32[{hi + 3}]):
    for {v1} in seq(0, {mid}):
        {body1}
    for {v2} in seq({lo2}, {hi}):
        {body2}{third}
"""
    return GenProgram(HEADER + body, "root", [], [], {"template": "adjacent_loops", "prefer_ops": ["join_loops", "join_loops", "fuse", "remove_loop", "reorder_stmts"]})


def t_config_callees(rng):
    """configuration state that flows only through callees: a sub-procedure whose last effect is a
    configuration write, called twice with the same write repeated after each call; readers that see
    the field only inside another callee (the caller has no syntactic read)"""
    v1, v2 = rng.sample([1, 2, 3, 4, 5], 2)
    real = rng.random() < 0.5
    if real:
        w_callee, w_caller = "Cfg.a = 2.0", _c(rng, ["Cfg.a = 4.0", "Cfg.a = 2.0", "Cfg.a = sc"])
        read_in = "dst[0] = Cfg.a"
        read_here = _c(rng, ["y[1] = Cfg.a", "pass", "pass"])
    else:
        w_callee, w_caller = f"Cfg.k = {v1}", f"Cfg.k = {_c(rng, [v1, v2, v2])}"
        read_in = f"if Cfg.k == {v2}:\n        dst[0] = 1.0"
        read_here = _c(rng, [f"if Cfg.k == {v2}:\n        y[1] = 2.0", "pass", "pass"])
    order = _c(rng, ["wcwc", "wcwc", "wr", "wcr", "wcwr"])
    calls = []
    for ch in order:
        if ch == "w":
            calls.append(f"setcfg({_c(rng, ['x', 'y'])})")
        elif ch == "c":
            calls.append(w_caller)
        else:
            calls.append("reader(y)")
    if "r" not in order:
        calls.append(_c(rng, ["reader(y)", read_here, "reader(x)"]))
    calls.append(read_here)
    body_calls = "\n    ".join(calls)
    body = f"""@config
class Cfg:
    k: index
    a: f32

@proc
def setcfg(dst: f32[4]):
    dst[0] = 1.0
    {w_callee}

@proc
def reader(dst: f32[4]):
    {read_in}

@proc
def root(x: f32[4], y: f32[4], sc: f32):
    {body_calls}
"""
    return GenProgram(HEADER + body, "root", ["setcfg", "reader"], ["Cfg"], {"template": "config_callees", "prefer_ops": ["delete_config", "delete_config", "write_config", "reorder_stmts", "bind_config", "inline"]})


def t_shared_iter(rng):
    """a loop that scheduling splits into loops over the *same* iterator symbol with different
    ranges (fission, cut_loop, then shift_loop of one half); index expressions with % and / of the
    iterator that are removable in one range and not in the other"""
    c = _c(rng, [4, 8])
    n = c
    a_idx = _c(rng, [f"i % {c}", f"(i + {c}) % {c}", f"i / {c} + i % {c}"])
    b_idx = _c(rng, [f"i % {c}", f"i % {c}", f"(i + 1) % {c}"])
    body = f"""@proc
def root(x: f32[{2 * c + 4}], a: f32[{2 * c + 4}], b: f32[{2 * c + 4}]):
    for i in seq(0, {n}):
        a[{a_idx}] = x[i]
        b[{b_idx}] = x[i] * 2.0
"""
    seq = _c(rng, [["fission", "shift_loop", "simplify"], ["fission", "shift_loop", "simplify"], ["cut_loop", "shift_loop", "simplify"], ["fission", "simplify", "shift_loop", "simplify"]])
    return GenProgram(HEADER + body, "root", [], [], {"template": "shared_iter", "op_sequence": seq, "prefer_ops": ["fission", "shift_loop", "simplify"]})


def t_else_moves(rng):
    """ifs with else-branches (some with a dead branch, some nested in an else-branch, some inside a
    loop) followed by further statements: rewrites that move code out of an else-branch
    (eliminate_dead_code, fission inside an else-branch, lift_scope) shift everything behind them"""
    dead = _c(rng, ["n < 1", "n > 0", "n < 1", None])
    cond = dead or _c(rng, ["n > 2", "flag"])
    inner_if = rng.random() < 0.5
    els = "x[1] = 2.0\n        x[2] = 3.0"
    if inner_if:
        els = "if flag:\n            x[1] = 2.0\n        else:\n            x[1] = 2.5\n        x[2] = 3.0"
    in_loop = rng.random() < 0.4
    ifstmt = f"if {cond}:\n        x[0] = 1.0\n    else:\n        {els}"
    if in_loop:
        ifstmt = f"for t in seq(0, 2):\n        " + ifstmt.replace("\n    ", "\n        ")
    body = f"""@proc
def root(n: size, x: f32[8], flag: bool):
    x[7] = 0.5
    {ifstmt}
    x[3] = 4.0
    x[4] = 5.0
    for i in seq(0, 2):
        x[5] += 1.0
"""
    return GenProgram(HEADER + body, "root", [], [], {"template": "else_moves", "prefer_ops": ["eliminate_dead_code", "fission", "lift_scope", "eliminate_dead_code", "fission", "std.lift_if"]})


def t_alias_alloc(rng):
    """a local buffer that is (also) accessed through a window statement cut from its upper part:
    storage rewrites of the buffer (resize_dim, divide_dim, expand_dim, stage_mem, reuse_buffer)
    have to count the accesses made through the window"""
    N = _c(rng, [12, 16])
    lo = _c(rng, [N // 2, N // 2, N - 4])
    w = N - lo
    use = _c(rng, ["w[i] = y[i]", "w[i] += y[i]", "w[i] = y[i] * 2.0"])
    rd = _c(rng, [f"y[i] = x[i + {lo}] + w[i]", "y[i] = w[i]", "y[i] = w[i] + x[0]", f"y[i] = x[i + {lo}]"])
    body = f"""@proc
def root(y: f32[{w}]):
    x: f32[{N}]
    for i in seq(0, {_c(rng, [lo, lo, N])}):
        x[i] = 0.0
    w = x[{lo}:{N}]
    for i in seq(0, {w}):
        {use}
    for i in seq(0, {w}):
        {rd}
"""
    return GenProgram(HEADER + body, "root", [], [], {"template": "alias_alloc", "op_sequence": _c(rng, [["resize_dim"], ["resize_dim"], ["divide_dim"], ["stage_mem"], ["expand_dim", "resize_dim"]]), "prefer_ops": ["resize_dim", "resize_dim", "divide_dim", "expand_dim", "stage_mem", "lift_alloc", "sink_alloc"]})


ALL = [t_temp2d, t_temp2d_call, t_two_loops, t_reduce_const, t_sliding, t_two_temps, t_split_range, t_writes, t_matmul, t_conv1d, t_blur, t_name_clash, t_config_loop, t_mod_trip, t_quasi, t_config_arg, t_config_first_iter, t_dup_blocks, t_nested_windows, t_sig_calls, t_adjacent_loops, t_config_callees, t_shared_iter, t_else_moves, t_alias_alloc]


def any_template(rng):
    return rng.choice(ALL)(rng)


def quasi_template(rng):
    r = rng.random()
    return t_quasi(rng) if r < 0.65 else (t_mod_trip(rng) if r < 0.8 else t_shared_iter(rng))


def config_template(rng):
    return rng.choice([t_config_flow, t_config_loop, t_config_arg, t_config_arg, t_config_first_iter, t_config_first_iter, t_config_callees, t_config_callees, t_config_callees])(rng)
