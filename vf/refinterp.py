"""E1: reference interpreter for LoopIR and IR-level sanitizer.

Independent of every analysis in exo: it consumes LoopIR nodes only through
their public fields.  Semantics (see DESIGN.md section 1/E1):
  * numeric values are exact rationals (python int / fractions.Fraction);
  * index arithmetic on python ints with floor `/` and floor-mod `%`;
  * buffers are flat stores with (offset, strides, shape) views;
  * Alloc creates POISON which propagates through arithmetic/externs/copies;
  * configuration state is a dict (config name, field) -> value;
  * calls bind buffers/scalars by reference and run the callee *body*;
  * par loops run sequentially while per-iteration access sets are recorded.
"""

import math
from fractions import Fraction

from exo.core.LoopIR import LoopIR, T

_S = LoopIR  # node classes


class _Poison:
    __slots__ = ()

    def __repr__(self):
        return "POISON"


POISON = _Poison()


class Abort(Exception):
    """the run cannot continue (fatal monitor event, budget, undefined arithmetic)"""

    def __init__(self, kind):
        super().__init__(kind)
        self.kind = kind


class Storage:
    __slots__ = ("id", "data", "name", "is_arg", "btype")

    def __init__(self, id_, size, name, fill=POISON, is_arg=False):
        self.id = id_
        self.data = [fill] * size
        self.name = name
        self.is_arg = is_arg
        self.btype = None  # declared precision ("F32", "INT8", ...), set where the storage is declared


class View:
    """(offset, strides, shape) view of a storage.  `dims` remembers, for every
    dimension of the tensor the view was (transitively) cut from, its extent and
    where the view sits in it: (extent, point index | None, interval lo, window dim)
    -- used to check every *dereference* against the underlying tensor; forming an
    out-of-range window is not an event by itself (masked instructions do that)."""

    __slots__ = ("st", "off", "strides", "shape", "dims")

    def __init__(self, st, off, strides, shape, dims=None):
        self.st = st
        self.off = off
        self.strides = tuple(strides)
        self.shape = tuple(shape)
        if dims is None:
            dims = tuple((int(e), None, 0, w) for w, e in enumerate(self.shape))
        self.dims = dims

    def locs(self, cap=4096):
        """flat offsets covered by this view (None when larger than cap)"""
        n = 1
        for s in self.shape:
            n *= max(s, 0)
        if n > cap:
            return None
        out = [self.off]
        for s, k in zip(self.shape, self.strides):
            out = [o + i * k for o in out for i in range(s)]
        return out

    def __repr__(self):
        return f"View({self.st.name}#{self.st.id},off={self.off},str={self.strides},shape={self.shape})"


def dense_strides(shape):
    st = []
    k = 1
    for s in reversed(shape):
        st.append(k)
        k *= max(int(s), 1)
    return tuple(reversed(st))


def num(v):
    """exact rational for a python literal"""
    if isinstance(v, bool):
        return v
    if isinstance(v, int):
        return v
    if isinstance(v, float):
        f = Fraction(v)
        return int(f) if f.denominator == 1 else f
    if isinstance(v, Fraction):
        return int(v) if v.denominator == 1 else v
    return v


_EXACT_LIMITS = {
    "F32": 24,
    "F64": 53,
    "F16": 11,
    "Num": 53,
}
_INT_RANGES = {
    "INT8": (-128, 127),
    "UINT8": (0, 255),
    "UINT16": (0, 65535),
    "INT32": (-(2**31), 2**31 - 1),
}


def fits(v, typ):
    """is the exact value v representable in C type of `typ` (basetype)?"""
    if v is POISON:
        return True
    tn = typ if isinstance(typ, str) else type(typ).__name__
    if tn in _INT_RANGES:
        lo, hi = _INT_RANGES[tn]
        return isinstance(v, int) and lo <= v <= hi
    bits = _EXACT_LIMITS.get(tn)
    if bits is None:
        return True
    if isinstance(v, int):
        n, d = v, 1
    else:
        n, d = v.numerator, v.denominator
    if n == 0:
        return True
    if d & (d - 1):
        return False  # not dyadic
    n = abs(n)
    while n % 2 == 0:
        n //= 2
    if n.bit_length() > bits:
        return False
    # exponent range (coarse): keep magnitudes moderate
    return abs(v) < 2**60 and (d.bit_length() < 60)


def btype_name(t):
    """declared precision of a LoopIR type as a name ("F32", "INT8", ...; R counts as F32, the
    backend's default) or None for control types"""
    try:
        b = t.basetype()
    except Exception:
        return None
    n = type(b).__name__
    if n == "Num":
        return "F32"
    return n if (n in _INT_RANGES or n in _EXACT_LIMITS) else None


def convert(val, src, dst):
    """value of the C cast `(dst)(val)` for an exact `val` of precision `src`;
    returns (value, exact): exact=False when the cast is not modelled (out of range,
    half precision, rounding of an integer) -- the input then leaves the exact class."""
    import struct

    if val is POISON or src is None or dst is None or src == dst:
        return val, True
    if dst in _INT_RANGES:
        lo, hi = _INT_RANGES[dst]
        if src in _INT_RANGES:
            return val, (lo <= val <= hi)
        t = int(val)  # C truncates toward zero
        return (t, True) if lo <= t <= hi else (val, False)
    if dst not in ("F32", "F64"):
        return val, False
    if src in _INT_RANGES:
        return val, True  # the caller's fits() check decides representability
    if src not in ("F32", "F64"):
        return val, False
    bits = _EXACT_LIMITS[dst]
    if isinstance(val, int) and abs(val) < (1 << bits):
        return val, True
    if dst == "F64":
        return val, True  # widening
    # F64 -> F32: round to nearest even (the default rounding mode)
    try:
        f = float(val)
    except OverflowError:
        return val, False
    if Fraction(f) != val:
        return val, False  # val was not a double to begin with
    try:
        r = struct.unpack("f", struct.pack("f", f))[0]
    except OverflowError:
        return val, False
    if r != r or r in (float("inf"), float("-inf")):
        return val, False
    return num(r), True


def _libm(fn):
    def f(x):
        try:
            r = fn(float(x))
        except (ValueError, OverflowError):
            raise Abort("undefined_extern")
        if r != r or r in (float("inf"), float("-inf")):
            raise Abort("undefined_extern")
        return num(r)

    return f


def _sigmoid(x):
    x = float(x)
    try:
        return num(1.0 / (1.0 + math.exp(-x)))
    except OverflowError:
        raise Abort("undefined_extern")


EXTERNS = {
    "sin": (_libm(math.sin), False),
    "expf": (_libm(math.exp), False),
    "sqrt": (_libm(math.sqrt), False),
    "sigmoid": (_sigmoid, False),
}


class Event:
    __slots__ = ("kind", "detail", "node", "where")

    def __init__(self, kind, detail, node=None, where=None):
        self.kind = kind
        self.detail = detail
        self.node = node
        self.where = where

    def as_dict(self):
        return {
            "kind": self.kind,
            "detail": self.detail,
            "node": (str(self.node).strip()[:200] if self.node is not None else None),
            "where": self.where,
        }

    def __repr__(self):
        return f"Event({self.kind}: {self.detail} @ {str(self.node).strip()[:80] if self.node is not None else ''})"


class RunResult:
    def __init__(self):
        self.events = []
        self.trace = None
        self.par_conflicts = []
        self.par_instances = 0
        self.par_iters = 0
        self.steps = 0
        self.exact_ok = True
        self.casts = 0  # precision casts modelled on assignment
        self.poison_arith = False  # uninitialised data entered arithmetic
        self.aborted = None
        self.range_obs = None
        self.config = None
        self.wintype_diag = 0

    @property
    def clean(self):
        return not self.events and self.aborted is None

    def first_event(self):
        return self.events[0] if self.events else None


FATAL = {"oob", "rank", "unbound", "divzero", "undefined_extern", "budget", "type"}


class Interp:
    def __init__(
        self,
        trace=False,
        par=False,
        ranges=False,
        exact=False,
        budget=400000,
        max_events=8,
        trace_reads=False,
        alias_strict=False,
    ):
        self.want_trace = trace
        self.want_par = par
        self.want_ranges = ranges
        self.want_exact = exact
        self.budget = budget
        self.max_events = max_events
        self.trace_reads = trace_reads
        self.alias_strict = alias_strict

    # ------------------------------------------------------------------
    def run(self, proc, argvals, config=None):
        """argvals: list aligned with proc.args (int/bool or View); config: dict"""
        self.res = RunResult()
        self.res.trace = [] if self.want_trace else None
        self.res.range_obs = {} if self.want_ranges else None
        self.cfg = config if config is not None else {}
        self.res.config = self.cfg
        self.nalloc = 1000  # ids of interpreter-made allocations start here
        self.parstack = []
        self.depth = 0
        self._nonint_const = False
        env = {}
        try:
            for a, v in zip(proc.args, argvals):
                env[a.name] = v
                if type(v) is View and v.st.btype is None:
                    v.st.btype = btype_name(a.type)
            for p in proc.preds:
                if self.ev(p, env) is not True:
                    self.event("precondition", "root assertion false", p)
            self.stmts(proc.body, env)
        except Abort as a:
            self.res.aborted = a.kind
        except RecursionError:
            self.res.aborted = "recursion"
        return self.res

    # ------------------------------------------------------------------
    def event(self, kind, detail, node=None, fatal=None):
        if len(self.res.events) < self.max_events:
            self.res.events.append(Event(kind, detail, node))
        if fatal if fatal is not None else (kind in FATAL):
            raise Abort(kind)

    def tick(self, n=1):
        self.res.steps += n
        if self.res.steps > self.budget:
            raise Abort("budget")

    # ------------------------------------------------------------------
    # accesses
    def _flat(self, view, idx, node):
        if len(idx) != len(view.shape):
            self.event(
                "rank", f"access with {len(idx)} indices into rank {len(view.shape)}", node
            )
        off = view.off
        for d, (i, s, k) in enumerate(zip(idx, view.shape, view.strides)):
            if not (0 <= i < s):
                self.event("oob", {"dim": d, "index": i, "extent": s}, node)
            off += i * k
        # against the tensor the window was cut from (a window may be formed larger
        # than its base, but may not be dereferenced outside of it)
        for bd, (ext, pt, lo, w) in enumerate(view.dims):
            a = pt if pt is not None else lo + idx[w]
            if not (0 <= a < ext):
                self.event("oob", {"base_dim": bd, "index": a, "extent": ext, "through_window": True}, node)
        if not (0 <= off < len(view.st.data)):
            self.event("oob", {"flat": off, "alloc": len(view.st.data)}, node)
        return off

    def _par_note(self, kind, loc):
        for fr in self.parstack:
            fr[1][kind].add(loc)

    def load(self, view, idx, node):
        off = self._flat(view, idx, node)
        if self.parstack:
            self._par_note(0, (view.st.id, off))
        if self.trace_reads and self.res.trace is not None:
            self.res.trace.append(("R", view.st.id, off))
        return view.st.data[off]

    def store(self, view, idx, val, node, reduce=False, typ=None):
        off = self._flat(view, idx, node)
        st = view.st
        if reduce:
            old = st.data[off]
            if old is POISON or val is POISON:
                self.res.poison_arith = True
                val = POISON
            else:
                val = old + val
                if type(val) is Fraction and val.denominator == 1:
                    val = int(val)
        if self.parstack:
            self._par_note(2 if reduce else 1, (st.id, off))
        if self.want_exact and typ is not None:
            typ = st.btype or typ  # the declaration decides, not the node's annotation
            if not fits(val, typ):
                self.res.exact_ok = False
            elif self._nonint_const and (typ if isinstance(typ, str) else type(typ).__name__) in _INT_RANGES:
                # a fractional literal is cast to the integer type in C
                self.res.exact_ok = False
        st.data[off] = val
        if self.res.trace is not None:
            self.res.trace.append(("+" if reduce else "W", st.id, off, val))

    # ------------------------------------------------------------------
    # expressions
    def ev(self, e, env):
        self.tick()
        c = type(e)
        if c is _S.Read:
            try:
                v = env[e.name]
            except KeyError:
                self.event("unbound", f"symbol {e.name!r} not in scope", e)
            if type(v) is View:
                if e.idx:
                    idx = [self.ev(i, env) for i in e.idx]
                    return self.load(v, idx, e)
                if not v.shape:
                    return self.load(v, (), e)
                return v  # whole tensor (only legal as a call argument)
            if e.idx:
                self.event("rank", "indexing a control value", e)
            return v
        if c is _S.Const:
            v = num(e.val)
            if self.want_exact and type(v) is not int and type(v) is not bool:
                self._nonint_const = True
            return v
        if c is _S.BinOp:
            op = e.op
            if op == "and":
                l = self.ev(e.lhs, env)
                r = self.ev(e.rhs, env)
                return bool(l) and bool(r)
            if op == "or":
                l = self.ev(e.lhs, env)
                r = self.ev(e.rhs, env)
                return bool(l) or bool(r)
            l = self.ev(e.lhs, env)
            r = self.ev(e.rhs, env)
            if l is POISON or r is POISON:
                self.res.poison_arith = True
                return POISON
            if op == "+":
                v = l + r
            elif op == "-":
                v = l - r
            elif op == "*":
                v = l * r
            elif op == "/":
                if r == 0:
                    self.event("divzero", "division by zero", e)
                if e.type.is_indexable() or isinstance(e.type, T.Stride):
                    v = l // r
                    if self.res.range_obs is not None:
                        self._obs(e, v)
                    return v
                v = Fraction(l) / r
            elif op == "%":
                if r == 0:
                    self.event("divzero", "modulo by zero", e)
                v = l % r
                if self.res.range_obs is not None:
                    self._obs(e, v)
                return v
            elif op == "<":
                return l < r
            elif op == ">":
                return l > r
            elif op == "<=":
                return l <= r
            elif op == ">=":
                return l >= r
            elif op == "==":
                return l == r
            else:
                self.event("type", f"unknown operator {op}", e)
            if type(v) is Fraction and v.denominator == 1:
                v = int(v)
            if self.want_exact and e.type.is_real_scalar():
                if not fits(v, e.type):
                    self.res.exact_ok = False
                else:
                    # a fractional literal next to an integer-typed operand is cast to that
                    # integer type in C (0.5 -> 0)
                    for o, other in ((e.lhs, e.rhs), (e.rhs, e.lhs)):
                        if type(o) is _S.Const and isinstance(o.val, float) and o.val != int(o.val):
                            if type(e.type).__name__ in _INT_RANGES or type(other.type).__name__ in _INT_RANGES:
                                self.res.exact_ok = False
            if self.res.range_obs is not None and e.type.is_indexable():
                self._obs(e, v)
            return v
        if c is _S.USub:
            v = self.ev(e.arg, env)
            if v is POISON:
                self.res.poison_arith = True
                return v
            return -v
        if c is _S.ReadConfig:
            key = (e.config.name(), e.field)
            if key not in self.cfg:
                self.event("unbound", f"config field {key} has no value", e)
            if self.parstack:
                self._par_note(0, ("cfg",) + key)
            v = self.cfg[key]
            if self.res.trace is not None:
                self.res.trace.append(("CR", key[0], key[1], v))
            return v
        if c is _S.StrideExpr:
            v = env.get(e.name)
            if type(v) is not View:
                self.event("unbound", f"stride of non-buffer {e.name!r}", e)
            if not (0 <= e.dim < len(v.strides)):
                self.event("rank", "stride dim out of range", e)
            return v.strides[e.dim]
        if c is _S.Extern:
            args = [self.ev(a, env) for a in e.args]
            return self.extern(e, args)
        if c is _S.WindowExpr:
            return self.window(e, env)
        self.event("type", f"unknown expression {c.__name__}", e)

    def _obs(self, e, v):
        d = self.res.range_obs
        k = id(e)
        o = d.get(k)
        if o is None:
            d[k] = [e, v, v, 1]
        else:
            if v < o[1]:
                o[1] = v
            if v > o[2]:
                o[2] = v
            o[3] += 1

    def extern(self, e, args):
        name = e.f.name()
        if name == "select":
            a, b, c_, d = args
            if a is POISON or b is POISON:
                return POISON
            return c_ if a < b else d
        if any(a is POISON for a in args):
            return POISON
        if name == "relu":
            return args[0] if args[0] > 0 else 0
        if name == "fmaxf":
            return args[0] if args[0] >= args[1] else args[1]
        if name == "fminf":
            return args[0] if args[0] <= args[1] else args[1]
        if name in EXTERNS:
            self.res.exact_ok = False
            return EXTERNS[name][0](*args)
        # unknown extern: try its own interpret(), as a consistent function
        try:
            self.res.exact_ok = False
            return num(float(e.f.interpret([float(a) for a in args])))
        except Exception:
            raise Abort("undefined_extern")

    def prec(self, e, env):
        """static precision of a numeric expression from the *declarations* of what it reads
        (not from the type annotations of the nodes, which scheduling may leave stale);
        None for literals (they adopt the precision of their context)"""
        c = type(e)
        if c is _S.Read:
            v = env.get(e.name)
            return v.st.btype if type(v) is View else None
        if c is _S.BinOp:
            return self.prec(e.lhs, env) or self.prec(e.rhs, env)
        if c is _S.USub:
            return self.prec(e.arg, env)
        if c is _S.Extern:
            for a in e.args:
                p = self.prec(a, env)
                if p is not None:
                    return p
            return None
        if c is _S.ReadConfig:
            try:
                return btype_name(e.config.lookup_type(e.field))
            except Exception:
                return None
        if c is _S.WindowExpr:
            v = env.get(e.name)
            return v.st.btype if type(v) is View else None
        return None

    def window(self, e, env):
        try:
            base = env[e.name]
        except KeyError:
            self.event("unbound", f"symbol {e.name!r} not in scope", e)
        if type(base) is not View:
            self.event("type", "window of a control value", e)
        if len(e.idx) != len(base.shape):
            self.event(
                "rank", f"window with {len(e.idx)} accesses into rank {len(base.shape)}", e
            )
        off = base.off
        shape = []
        strides = []
        # position of each window dimension of `base` inside the underlying tensor
        bdims = list(base.dims)
        sel = {}  # base window dim -> ("pt", p) | ("iv", lo, new window dim)
        for d, (w, s, k) in enumerate(zip(e.idx, base.shape, base.strides)):
            if type(w) is _S.Point:
                p = self.ev(w.pt, env)
                off += p * k
                sel[d] = ("pt", p)
            else:
                lo = self.ev(w.lo, env)
                hi = self.ev(w.hi, env)
                if hi < lo:
                    self.event("oob", {"dim": d, "lo": lo, "hi": hi, "extent": s, "win": True, "negative_extent": True}, e)
                off += lo * k
                sel[d] = ("iv", lo, len(shape))
                shape.append(hi - lo)
                strides.append(k)
        ndims = []
        for ext, pt, lo0, wd in bdims:
            if pt is not None:
                ndims.append((ext, pt, 0, 0))
            else:
                c = sel[wd]
                if c[0] == "pt":
                    ndims.append((ext, lo0 + c[1], 0, 0))
                else:
                    ndims.append((ext, None, lo0 + c[1], c[2]))
        return View(base.st, off, strides, shape, tuple(ndims))

    # ------------------------------------------------------------------
    # statements
    def stmts(self, body, env):
        for s in body:
            self.stmt(s, env)

    def stmt(self, s, env):
        self.tick()
        c = type(s)
        if c is _S.Assign or c is _S.Reduce:
            try:
                v = env[s.name]
            except KeyError:
                self.event("unbound", f"symbol {s.name!r} not in scope", s)
            if type(v) is not View:
                self.event("type", "assignment to a control value", s)
            idx = [self.ev(i, env) for i in s.idx]
            self._nonint_const = False
            rhs = self.ev(s.rhs, env)
            if type(rhs) is View:
                if rhs.shape:
                    self.event("type", "tensor-valued right-hand side", s)
                rhs = self.load(rhs, (), s)
            if self.want_exact and rhs is not POISON:
                # precision cast on assignment / reduction: `dst (+)= (T)(rhs)` when the
                # precision of the right-hand side differs from the destination's
                dt = v.st.btype
                rt = self.prec(s.rhs, env)
                if dt is not None and rt is not None and dt != rt:
                    rhs, ok = convert(rhs, rt, dt)
                    self.res.casts += 1
                    if not ok:
                        self.res.exact_ok = False
            self.store(v, idx, rhs, s, reduce=(c is _S.Reduce), typ=s.type)
        elif c is _S.For:
            lo = self.ev(s.lo, env)
            hi = self.ev(s.hi, env)
            if hi < lo:
                self.event("loop_bounds", {"lo": lo, "hi": hi}, s)
            it = s.iter
            had = it in env
            old = env.get(it)
            is_par = type(s.loop_mode) is _S.Par
            if is_par and self.want_par:
                self.par_loop(s, lo, hi, env)
            else:
                body = s.body
                for i in range(lo, hi):
                    env[it] = i
                    self.scoped(body, env)
            if had:
                env[it] = old
            else:
                env.pop(it, None)
        elif c is _S.If:
            cond = self.ev(s.cond, env)
            if cond is POISON:
                self.event("poison_control", "branch on uninitialised value", s)
                return
            if cond:
                self.scoped(s.body, env)
            else:
                self.scoped(s.orelse, env)
        elif c is _S.Alloc:
            self.alloc(s, env)
        elif c is _S.Call:
            self.call(s, env)
        elif c is _S.WindowStmt:
            env[s.name] = self.window(s.rhs, env)
        elif c is _S.WriteConfig:
            v = self.ev(s.rhs, env)
            if type(v) is View:
                v = self.load(v, (), s)
            key = (s.config.name(), s.field)
            if self.parstack:
                self._par_note(1, ("cfg",) + key)
            self.cfg[key] = v
            if self.want_exact:
                # the value is stored in the C type of the configuration field
                try:
                    ftyp = s.config.lookup_type(s.field)
                except Exception:
                    ftyp = None
                if ftyp is not None and ftyp.is_real_scalar() and not fits(v, ftyp):
                    self.res.exact_ok = False
            if self.res.trace is not None:
                self.res.trace.append(("CW", key[0], key[1], v))
        elif c is _S.Pass:
            pass
        elif c is _S.Free:
            pass
        else:
            self.event("type", f"unknown statement {c.__name__}", s)

    def scoped(self, body, env):
        # names declared in a block go out of scope at its end
        if any(type(x) in (_S.Alloc, _S.WindowStmt) for x in body):
            saved = {}
            for x in body:
                if type(x) in (_S.Alloc, _S.WindowStmt):
                    saved[x.name] = env.get(x.name, None)
            self.stmts(body, env)
            for k, v in saved.items():
                if v is None:
                    env.pop(k, None)
                else:
                    env[k] = v
        else:
            self.stmts(body, env)

    def alloc(self, s, env):
        t = s.type
        shape = []
        if isinstance(t, T.Tensor):
            for h in t.hi:
                n = self.ev(h, env)
                if n < 1:
                    self.event("alloc_size", {"extent": n}, s)
                    n = max(n, 0)
                shape.append(n)
        size = 1
        for n in shape:
            size *= n
        if size > 1 << 20:
            raise Abort("budget")
        self.nalloc += 1
        st = Storage(self.nalloc, size, str(s.name))
        st.btype = btype_name(t)
        env[s.name] = View(st, 0, dense_strides(shape), shape)
        if self.res.trace is not None:
            self.res.trace.append(("A", st.id, tuple(shape)))

    def par_loop(self, s, lo, hi, env):
        self.res.par_instances += 1
        frame = [s, None, []]  # node, current iteration sets, all iterations
        self.parstack.append(frame)
        it = s.iter
        try:
            for i in range(lo, hi):
                sets = (set(), set(), set())  # reads, writes, reduces
                frame[1] = sets
                env[it] = i
                n0 = self.nalloc
                self.scoped(s.body, env)
                # storage allocated inside the iteration is private to it
                if self.nalloc > n0:
                    sets = tuple(
                        {l for l in ss if not (isinstance(l[0], int) and l[0] > n0)}
                        for ss in sets
                    )
                frame[2].append((i, sets))
                self.res.par_iters += 1
        finally:
            self.parstack.pop()
        # accesses were also noted in enclosing par frames on the fly (_par_note);
        # now look for a location touched by two different iterations, at least
        # one of them writing or reducing
        acc = {}
        for i, sets in frame[2]:
            for kind, ss in enumerate(sets):
                for loc in ss:
                    o = acc.get(loc)
                    if o is None:
                        o = acc[loc] = ([], [], [])
                    k = o[kind]
                    if len(k) < 2 and i not in k:
                        k.append(i)
        for loc, (R, W, D) in acc.items():
            if not (W or D):
                continue
            its = set(R) | set(W) | set(D)
            if len(its) >= 2:
                wi = (W or D)[0]
                other = next(j for j in sorted(its) if j != wi)
                okind = "W" if other in W else ("+" if other in D else "R")
                self.res.par_conflicts.append(
                    {
                        "loop": str(s.iter),
                        "loc": [str(x) for x in loc],
                        "a": ["W" if W else "+", wi],
                        "b": [okind, other],
                        "depth": len(self.parstack),
                        "node": s,
                    }
                )
                break

    def call(self, s, env):
        f = s.f
        if len(s.args) != len(f.args):
            self.event("call_arity", "argument count mismatch", s, fatal=True)
        self.depth += 1
        if self.depth > 40:
            raise Abort("recursion")
        cenv = {}
        views = []
        for fa, a in zip(f.args, s.args):
            ft = fa.type
            if ft.is_numeric():
                v = self.argview(a, env, s)
                cenv[fa.name] = v
                views.append((fa, v))
            else:
                v = self.ev(a, env)
                if type(v) is View:
                    v = self.load(v, (), s)
                if isinstance(ft, T.Size) and v < 1:
                    self.event("call_size", {"arg": str(fa.name), "value": v}, s)
                cenv[fa.name] = v
        # shapes
        for fa, v in views:
            ft = fa.type
            if isinstance(ft, T.Tensor):
                want = tuple(self.ev(h, cenv) for h in ft.hi)
                if want != v.shape:
                    self.event(
                        "call_shape",
                        {"arg": str(fa.name), "declared": list(want), "actual": list(v.shape)},
                        s,
                    )
            elif v.shape:
                self.event(
                    "call_shape", {"arg": str(fa.name), "declared": [], "actual": list(v.shape)}, s
                )
        # aliasing: one buffer handed to two arguments
        for i in range(len(views)):
            for j in range(i + 1, len(views)):
                a, b = views[i][1], views[j][1]
                if a.st is b.st:
                    la, lb = a.locs(), b.locs()
                    overlap = la is None or lb is None or bool(set(la) & set(lb))
                    if overlap or self.alias_strict:
                        self.event(
                            "call_alias",
                            {
                                "args": [str(views[i][0].name), str(views[j][0].name)],
                                "overlap": overlap,
                            },
                            s,
                        )
        for p in f.preds:
            r = self.ev(p, cenv)
            if r is not True:
                self.event("call_pred", {"callee": str(f.name), "pred": str(p)}, s)
        self.stmts(f.body, cenv)
        self.depth -= 1

    def argview(self, a, env, s):
        c = type(a)
        if c is _S.Read:
            try:
                v = env[a.name]
            except KeyError:
                self.event("unbound", f"symbol {a.name!r} not in scope", a)
            if type(v) is not View:
                self.event("type", "control value passed for a buffer", s)
            if a.idx:
                idx = [self.ev(i, env) for i in a.idx]
                off = self._flat(v, idx, a)
                return View(v.st, off, (), (), ())
            return v
        if c is _S.WindowExpr:
            return self.window(a, env)
        # by-value numeric expression: a temporary cell
        val = self.ev(a, env)
        self.nalloc += 1
        st = Storage(self.nalloc, 1, "<tmp>")
        st.data[0] = val
        return View(st, 0, (), (), ())
