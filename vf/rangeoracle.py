"""Oracle, monitors and case runners for property C13 (range analysis soundness).

The oracle is brute force only: expressions are evaluated on concrete integers
with Python's floor `//` and `%`; a reported bound is judged by membership of
those concrete values.  No interval arithmetic is re-implemented here.

Concretisation used everywhere (read off `IndexRange`'s docstring and its uses):
    gamma(IndexRange(base, lo, hi), sigma) = { base(sigma) + d | lo <= d <= hi }
with both ends *inclusive*, `None` = unbounded on that side, and `base` an index
expression over the variables the analysis did not bound (zero() if none).
`constant_bound` returns the inclusive pair (lo, hi) for a zero base.

exo is imported lazily: the master process imports the driver without exo on
its path.
"""

from __future__ import annotations

import copy
import itertools
import random
import traceback
from collections import ChainMap, Counter

BIG = 1000003
FREE_VALUES = [-BIG, -67] + list(range(-9, 10)) + [67, BIG]
POS_VALUES = list(range(1, 13)) + [16, 67, BIG]

EXPR_TAGS = ("c", "v", "neg", "+", "-", "*", "/", "%", "int")


class Undefined(Exception):
    """expression has no value here (division/modulo by a non-positive number)"""


class Unsupported(Exception):
    """node kind the concrete evaluator does not model (never a verdict)"""


class RangeContractViolation(Exception):
    """raised by the icontract postconditions in strict (direct call) mode only"""


# --------------------------------------------------------------------------
# lazy exo access
# --------------------------------------------------------------------------
class _Exo:
    pass


_EXO = None


def X():
    global _EXO
    if _EXO is None:
        import exo.rewrite.range_analysis as ra
        from exo.core.LoopIR import LoopIR, T
        from exo.core.prelude import Sym, _null_srcinfo_obj

        e = _Exo()
        e.ra = ra
        e.LoopIR = LoopIR
        e.T = T
        e.Sym = Sym
        e.si = _null_srcinfo_obj
        _EXO = e
    return _EXO


# --------------------------------------------------------------------------
# mini expression language (JSON-able): ["c",n] ["v",name] ["neg",e] [op,l,r]
# ["int",n] stands for a raw python int handed to the function under test
# --------------------------------------------------------------------------
def is_expr(o):
    return isinstance(o, list) and len(o) >= 2 and isinstance(o[0], str) and o[0] in EXPR_TAGS


def ev(e, val):
    t = e[0]
    if t == "c" or t == "int":
        return e[1]
    if t == "v":
        return val[e[1]]
    if t == "neg":
        return -ev(e[1], val)
    a = ev(e[1], val)
    b = ev(e[2], val)
    if t == "+":
        return a + b
    if t == "-":
        return a - b
    if t == "*":
        return a * b
    if b <= 0:
        raise Undefined()
    if t == "/":
        return a // b
    if t == "%":
        return a % b
    raise Unsupported(t)


def expr_vars(e, acc=None):
    acc = [] if acc is None else acc
    t = e[0]
    if t == "v":
        if e[1] not in acc:
            acc.append(e[1])
    elif t == "neg":
        expr_vars(e[1], acc)
    elif t not in ("c", "int"):
        expr_vars(e[1], acc)
        expr_vars(e[2], acc)
    return acc


def expr_str(e):
    t = e[0]
    if t in ("c", "int"):
        return str(e[1]) if e[1] >= 0 else f"({e[1]})"
    if t == "v":
        return e[1]
    if t == "neg":
        return f"(-{expr_str(e[1])})"
    return f"({expr_str(e[1])} {t} {expr_str(e[2])})"


def expr_shape(e):
    t = e[0]
    if t in ("c", "int"):
        return "c"
    if t == "v":
        return "v"
    if t == "neg":
        return f"-({expr_shape(e[1])})"
    return f"({expr_shape(e[1])}{t}{expr_shape(e[2])})"


def expr_depth(e):
    t = e[0]
    if t in ("c", "int", "v"):
        return 0
    if t == "neg":
        return 1 + expr_depth(e[1])
    return 1 + max(expr_depth(e[1]), expr_depth(e[2]))


def to_loopir(e, symtab, size_vars=()):
    """nested list -> real LoopIR node (Syms taken from / added to symtab)."""
    x = X()
    L, T = x.LoopIR, x.T
    t = e[0]
    if t == "int":
        return int(e[1])
    if t == "c":
        return L.Const(int(e[1]), T.index, x.si)
    if t == "v":
        s = symtab.get(e[1])
        if s is None:
            s = symtab[e[1]] = x.Sym(_plain(e[1]))
        return L.Read(s, [], T.size if e[1] in size_vars else T.index, x.si)
    if t == "neg":
        return L.USub(to_loopir(e[1], symtab, size_vars), T.index, x.si)
    return L.BinOp(
        t,
        to_loopir(e[1], symtab, size_vars),
        to_loopir(e[2], symtab, size_vars),
        T.index,
        x.si,
    )


def _plain(name):
    n = "".join(ch if (ch.isalnum() or ch == "_") else "_" for ch in name)
    return n if n and not n[0].isdigit() else "v" + n


class Namer:
    """distinct printable names for distinct Syms (Sym hashes by identity)."""

    def __init__(self):
        self.by_sym = {}
        self.used = set()
        self.sizes = set()

    def __call__(self, sym):
        n = self.by_sym.get(sym)
        if n is None:
            base = str(sym)
            n, k = base, 1
            while n in self.used:
                k += 1
                n = f"{base}_{k}"
            self.used.add(n)
            self.by_sym[sym] = n
        return n


def from_loopir(node, namer):
    L = X().LoopIR
    if isinstance(node, bool):
        raise Unsupported("bool")
    if isinstance(node, int):
        return ["int", node]
    if isinstance(node, L.Const):
        if isinstance(node.val, bool) or not isinstance(node.val, int):
            raise Unsupported("const")
        return ["c", node.val]
    if isinstance(node, L.Read):
        if node.idx:
            raise Unsupported("indexed read")
        n = namer(node.name)
        if isinstance(node.type, L.Size):
            namer.sizes.add(n)
        return ["v", n]
    if isinstance(node, L.USub):
        return ["neg", from_loopir(node.arg, namer)]
    if isinstance(node, L.BinOp) and node.op in ("+", "-", "*", "/", "%"):
        return [node.op, from_loopir(node.lhs, namer), from_loopir(node.rhs, namer)]
    raise Unsupported(type(node).__name__)


# --------------------------------------------------------------------------
# concrete evaluation of real LoopIR nodes (compiled once per distinct text)
# --------------------------------------------------------------------------
def _fd(a, b):
    if b <= 0:
        raise Undefined()
    return a // b


def _fm(a, b):
    if b <= 0:
        raise Undefined()
    return a % b


_FN_CACHE = {}
_GLOBALS = {"_fd": _fd, "_fm": _fm}


class Comp:
    """compiles several LoopIR expressions against one shared variable index."""

    def __init__(self):
        self.index = {}  # Sym -> position
        self.types = {}  # Sym -> type of the Read that mentioned it

    def src(self, node):
        L = X().LoopIR
        if isinstance(node, bool):
            return "True" if node else "False"
        if isinstance(node, int):
            return f"({node})"
        if isinstance(node, L.Const):
            if isinstance(node.val, bool):
                return "True" if node.val else "False"
            if not isinstance(node.val, int):
                raise Unsupported("const")
            return f"({node.val})"
        if isinstance(node, L.Read):
            if node.idx:
                raise Unsupported("indexed read")
            i = self.index.get(node.name)
            if i is None:
                i = self.index[node.name] = len(self.index)
                self.types[node.name] = node.type
            return f"v[{i}]"
        if isinstance(node, L.USub):
            return f"(-{self.src(node.arg)})"
        if isinstance(node, L.BinOp):
            a = self.src(node.lhs)
            b = self.src(node.rhs)
            op = node.op
            if op in ("+", "-", "*", "==", "<", ">", "<=", ">="):
                return f"({a}{op}{b})"
            if op in ("and", "or"):
                return f"({a} {op} {b})"
            lit = isinstance(node.rhs, L.Const) and isinstance(node.rhs.val, int)
            if op == "/":
                if lit and node.rhs.val > 0:
                    return f"({a}//{b})"
                return f"_fd({a},{b})"
            if op == "%":
                if lit and node.rhs.val > 0:
                    return f"({a}%{b})"
                return f"_fm({a},{b})"
        raise Unsupported(type(node).__name__)

    def fn(self, node):
        s = self.src(node)
        f = _FN_CACHE.get(s)
        if f is None:
            if len(_FN_CACHE) > 200000:
                _FN_CACHE.clear()
            f = _FN_CACHE[s] = eval("lambda v: " + s, _GLOBALS)
        return f

    def syms(self):
        return list(self.index)


# --------------------------------------------------------------------------
# sampling of ranges and boxes
# --------------------------------------------------------------------------
def samples_of_range(lo, hi, k=9):
    """window of a (possibly half-open / unknown) range: everything if small,
    otherwise both ends, their neighbours and the middle; unbounded sides are
    sampled next to the finite end (all residues of divisors <= 8) and far out."""
    if lo is not None and hi is not None:
        if lo > hi:
            return []
        if hi - lo + 1 <= k + 3:
            return list(range(lo, hi + 1))
        s = {lo, lo + 1, lo + 2, lo + 3, hi - 3, hi - 2, hi - 1, hi, (lo + hi) // 2}
        return sorted(s)
    if lo is None and hi is None:
        h = max(2, k // 2)
        return [-BIG, -67] + list(range(-h, h + 1)) + [67, BIG]
    if lo is None:
        return [hi - BIG, hi - 67] + [hi - d for d in range(k - 1, -1, -1)]
    return [lo + d for d in range(k)] + [lo + 67, lo + BIG]


def box(doms, cap, rng):
    """all tuples of the per-variable windows, or (if more than cap) the corners
    plus random tuples."""
    total = 1
    for d in doms:
        total *= len(d)
        if total == 0:
            return []
    if total <= cap:
        return list(itertools.product(*doms))
    out = set()
    ends = [(d[0], d[-1]) for d in doms]
    if len(doms) <= 6:
        for c in itertools.product(*ends):
            out.add(c)
    while len(out) < cap:
        out.add(tuple(rng.choice(d) for d in doms))
    return list(out)


def inside(v, lo, hi):
    return (lo is None or v >= lo) and (hi is None or v <= hi)


# --------------------------------------------------------------------------
# the monitor state
# --------------------------------------------------------------------------
class Monitor:
    def __init__(self):
        self.counts = Counter()  # evaluations per wrapper / contract
        self.stats = Counter()
        self.findings = []
        self.trail = []  # (monitor, feature) of every finding, in order
        self.keycount = Counter()
        self.max_per_key = 3
        self.strict = False
        self.enabled = True
        self.depth = 0
        self.rng = random.Random(20240913)
        self.light = False
        self.origin = None  # e.g. {"action": "compile", "src": "..."}
        self.errors = []
        self.installed = False
        self.ops_enabled = True

    def add(self, f):
        key = (f["monitor"], f.get("feature"), f.get("side"))
        self.trail.append((f["monitor"], f.get("feature")))
        self.keycount[key] += 1
        self.stats["findings"] += 1
        if self.keycount[key] <= self.max_per_key:
            if self.origin and "origin" not in f:
                f["origin"] = dict(self.origin)
            self.findings.append(f)

    def drain(self):
        out = self.findings
        self.findings = []
        self.keycount.clear()
        return out

    def via(self, start, own):
        """root cause attribution: the first lower-level monitor that fired during
        the call (the innermost operator is evaluated, hence judged, first)."""
        for m, ft in self.trail[start:]:
            if m == own:
                continue
            if ft in ("unbounded_lo_dropped", "unbounded_hi_dropped"):
                return [f"{m}:unbounded_side_dropped"]
            if m == "IndexRange.__or__" and ft:
                return [f"{m}:{ft}"]
            return [m]
        return []

    def guard(self, fn, *a):
        """run a validation; never lets anything escape into the observed code"""
        if not self.enabled or self.depth:
            return
        self.depth += 1
        try:
            fn(*a)
        except Unsupported:
            self.stats["unsupported_node"] += 1
        except Undefined:
            self.stats["undefined_value"] += 1
        except Exception:  # noqa
            self.stats["monitor_error"] += 1
            if len(self.errors) < 3:
                self.errors.append(traceback.format_exc()[-1500:])
        finally:
            self.depth -= 1


MON = Monitor()


# --------------------------------------------------------------------------
# encoding of IndexRange values
# --------------------------------------------------------------------------
def _is_zero(e):
    L = X().LoopIR
    return isinstance(e, L.Const) and e.val == 0


def enc_range(r, namer):
    if isinstance(r, bool):
        raise Unsupported("bool")
    if isinstance(r, int):
        return ["int", r]
    base = None if _is_zero(r.base) else from_loopir(r.base, namer)
    return [base, r.lo, r.hi]


def range_str(r):
    if is_expr(r):
        return str(r[1])
    b, lo, hi = r
    bs = "" if b is None else expr_str(b) + " + "
    return f"{bs}[{'-inf' if lo is None else lo}, {'inf' if hi is None else hi}]"


def dec_range(r, symtab, size_vars=()):
    x = X()
    if is_expr(r):
        return int(r[1])
    b, lo, hi = r
    base = x.LoopIR.Const(0, x.T.index, x.si) if b is None else to_loopir(b, symtab, size_vars)
    return x.ra.IndexRange(base, lo, hi)


def _dom_free(sym, types):
    L = X().LoopIR
    return POS_VALUES if isinstance(types.get(sym), L.Size) else FREE_VALUES


def _free_valuations(comp, n_many=14):
    syms = comp.syms()
    if not syms:
        return [()]
    doms = [_dom_free(s, comp.types) for s in syms]
    if len(syms) == 1:
        return [(a,) for a in doms[0]]
    out = []
    for a in (-3, 0, 1, 5):
        out.append(tuple(max(a, 1) if d is POS_VALUES else a for d in doms))
    r = MON.rng
    for _ in range(n_many):
        out.append(tuple(r.choice(d) for d in doms))
    return out


# --------------------------------------------------------------------------
# (1) operator postconditions
# --------------------------------------------------------------------------
BINARY_RANGE_OPS = ("__add__", "__sub__", "__or__")
SCALAR_OPS = (
    "__add__",
    "__radd__",
    "__sub__",
    "__rsub__",
    "__mul__",
    "__rmul__",
    "__floordiv__",
    "__mod__",
)


def _scalar_apply(op, x, c):
    if op in ("__add__", "__radd__"):
        return x + c
    if op == "__sub__":
        return x - c
    if op == "__rsub__":
        return c - x
    if op in ("__mul__", "__rmul__"):
        return x * c
    if op == "__floordiv__":
        if c == 0:
            raise Undefined()
        return x // c
    if op == "__mod__":
        if c <= 0:
            raise Undefined()
        return x % c
    raise Unsupported(op)


def _op_feature(op, a, b, res, side):
    IR = X().ra.IndexRange
    if op == "__or__":
        if side == "lo" and (a.lo is None or b.lo is None) and res.lo is not None:
            return "unbounded_lo_dropped"
        if side == "hi" and (a.hi is None or b.hi is None) and res.hi is not None:
            return "unbounded_hi_dropped"
        return "join_excludes_member"
    flags = []
    if isinstance(b, int) and not isinstance(b, bool):
        flags.append("scalar_neg" if b < 0 else ("scalar_zero" if b == 0 else "scalar_pos"))
    sym = (not _is_zero(a.base)) or (isinstance(b, IR) and not _is_zero(b.base))
    flags.append("symbolic_base" if sym else "zero_base")
    unb = a.lo is None or a.hi is None
    if isinstance(b, IR):
        unb = unb or b.lo is None or b.hi is None
    flags.append("unbounded_operand" if unb else "bounded_operands")
    return ",".join(flags)


def check_op(op, a, b, res):
    """postcondition of one IndexRange operator application; returns a finding or None."""
    IR = X().ra.IndexRange
    if not isinstance(a, IR):
        return None
    if isinstance(res, bool) or not isinstance(res, (int, IR)):
        MON.stats["op_result_not_a_range"] += 1
        return None
    unary = op == "__neg__"
    b_rng = isinstance(b, IR)
    if not unary and not b_rng and (isinstance(b, bool) or not isinstance(b, int)):
        return None
    comp = Comp()
    fa = comp.fn(a.base)
    fb = comp.fn(b.base) if b_rng else None
    fr = comp.fn(res.base) if isinstance(res, IR) else None
    k = 4 if MON.light else 7
    da = samples_of_range(a.lo, a.hi, k)
    db = samples_of_range(b.lo, b.hi, k) if b_rng else [0]
    if op == "__or__":
        vacuous = not da and not db
    else:
        vacuous = not da or (b_rng and not db)
    if vacuous:
        MON.stats["op_vacuous"] += 1
        return None
    vals = _free_valuations(comp, 6 if MON.light else 14)
    n = 0
    bad = None
    for v in vals:
        ba = fa(v)
        bb = fb(v) if b_rng else 0
        br = fr(v) if fr is not None else 0
        if op == "__or__":
            cands = [(ba + d, None, ba + d) for d in da] + [(None, bb + e, bb + e) for e in db]
        elif unary:
            cands = [(ba + d, None, -(ba + d)) for d in da]
        elif b_rng:
            cands = []
            for d in da:
                for e in db:
                    xx, yy = ba + d, bb + e
                    cands.append((xx, yy, xx + yy if op == "__add__" else xx - yy))
        else:
            cands = []
            for d in da:
                try:
                    cands.append((ba + d, b, _scalar_apply(op, ba + d, b)))
                except Undefined:
                    MON.stats["op_undefined"] += 1
        for xx, yy, val in cands:
            n += 1
            if isinstance(res, IR):
                off = val - br
                if res.lo is not None and off < res.lo:
                    bad = ("lo", v, xx, yy, val)
                elif res.hi is not None and off > res.hi:
                    bad = ("hi", v, xx, yy, val)
            elif val != res:
                bad = ("lo" if val < res else "hi", v, xx, yy, val)
            if bad:
                break
        if bad:
            break
    MON.stats["op_member_checks"] += n
    if isinstance(res, IR) and res.lo is None and res.hi is None:
        MON.stats["op_conservative_unbounded"] += 1
    if not bad:
        return None
    side, v, xx, yy, val = bad
    namer = Namer()
    case = {
        "kind": "op",
        "op": op,
        "a": enc_range(a, namer),
        "b": None if unary else enc_range(b, namer),
    }
    renc = enc_range(res, namer)
    case["size_vars"] = sorted(namer.sizes)
    sigma = {namer(s): v[i] for s, i in comp.index.items()}
    return {
        "monitor": "IndexRange." + op,
        "side": side,
        "feature": _op_feature(op, a, b, res, side),
        "case": case,
        "witness": {
            "sigma": sigma,
            "x": xx,
            "y": yy,
            "value": val,
            "result": range_str(renc),
            "text": f"{range_str(case['a'])} {op} "
            f"{'' if unary else range_str(case['b'])} = {range_str(renc)}"
            f" but member x={xx}, y={yy} (sigma={sigma}) gives {val}",
        },
    }


def _op_post(op, a, b, res):
    if not MON.enabled or MON.depth or not MON.ops_enabled:
        return True
    MON.depth += 1
    f = None
    try:
        MON.counts["IndexRange." + op] += 1
        f = check_op(op, a, b, res)
    except (Unsupported, Undefined):
        MON.stats["unsupported_node"] += 1
    except Exception:  # noqa
        MON.stats["monitor_error"] += 1
        if len(MON.errors) < 3:
            MON.errors.append(traceback.format_exc()[-1500:])
    finally:
        MON.depth -= 1
    if f is None:
        return True
    MON.add(f)
    return not MON.strict


# named icontract conditions (argument names must match the real signatures)
def post_add(self, other, result):
    return _op_post("__add__", self, other, result)


def post_radd(self, c, result):
    return _op_post("__radd__", self, c, result)


def post_neg(self, result):
    return _op_post("__neg__", self, None, result)


def post_sub(self, other, result):
    return _op_post("__sub__", self, other, result)


def post_rsub(self, c, result):
    return _op_post("__rsub__", self, c, result)


def post_mul(self, c, result):
    return _op_post("__mul__", self, c, result)


def post_rmul(self, c, result):
    return _op_post("__rmul__", self, c, result)


def post_floordiv(self, c, result):
    return _op_post("__floordiv__", self, c, result)


def post_mod(self, c, result):
    return _op_post("__mod__", self, c, result)


def post_or(self, other, result):
    return _op_post("__or__", self, other, result)


OP_CONTRACTS = {
    "__add__": post_add,
    "__radd__": post_radd,
    "__neg__": post_neg,
    "__sub__": post_sub,
    "__rsub__": post_rsub,
    "__mul__": post_mul,
    "__rmul__": post_rmul,
    "__floordiv__": post_floordiv,
    "__mod__": post_mod,
    "__or__": post_or,
}


# --------------------------------------------------------------------------
# partial_eval_with_range (used by buffer folding)
# --------------------------------------------------------------------------
def _validate_partial_eval(start, a, var, rng, res):
    IR = X().ra.IndexRange
    MON.counts["IndexRange.partial_eval_with_range"] += 1
    if not isinstance(a, IR) or not isinstance(rng, IR):
        return
    if isinstance(res, bool) or not isinstance(res, (int, IR)):
        return
    comp = Comp()
    fa = comp.fn(a.base)
    fg = comp.fn(rng.base)
    fr = comp.fn(res.base) if isinstance(res, IR) else None
    if var not in comp.index:
        comp.index[var] = len(comp.index)
    pos = comp.index[var]
    k = 4 if MON.light else 7
    da = samples_of_range(a.lo, a.hi, k)
    dg = samples_of_range(rng.lo, rng.hi, k)
    if not da or not dg:
        MON.stats["op_vacuous"] += 1
        return
    bad = None
    n = 0
    for v in _free_valuations(comp, 6 if MON.light else 12):
        v = list(v)
        for t in dg:
            v[pos] = 0
            v[pos] = fg(v) + t
            ba = fa(v)
            br = fr(v) if fr is not None else 0
            for d in da:
                n += 1
                val = ba + d
                if isinstance(res, IR):
                    off = val - br
                    if res.lo is not None and off < res.lo:
                        bad = ("lo", list(v), val)
                    elif res.hi is not None and off > res.hi:
                        bad = ("hi", list(v), val)
                elif val != res:
                    bad = ("lo" if val < res else "hi", list(v), val)
                if bad:
                    break
            if bad:
                break
        if bad:
            break
    MON.stats["op_member_checks"] += n
    if not bad:
        return
    side, v, val = bad
    namer = Namer()
    case = {
        "kind": "partial_eval",
        "self": enc_range(a, namer),
        "var": namer(var),
        "rng": enc_range(rng, namer),
    }
    renc = enc_range(res, namer)
    case["size_vars"] = sorted(namer.sizes)
    sigma = {namer(s): v[i] for s, i in comp.index.items()}
    feat = "offsets_of_self_dropped" if (a.lo or a.hi) else "other"
    MON.add(
        {
            "monitor": "IndexRange.partial_eval_with_range",
            "side": side,
            "feature": feat,
            "via": MON.via(start, "IndexRange.partial_eval_with_range"),
            "case": case,
            "witness": {
                "sigma": sigma,
                "value": val,
                "result": range_str(renc),
                "text": f"({range_str(case['self'])}).partial_eval_with_range({case['var']} in "
                f"{range_str(case['rng'])}) = {range_str(renc)} but sigma={sigma} gives {val}",
            },
        }
    )


# --------------------------------------------------------------------------
# (2)/(4) index_range_analysis, constant_bound, IndexRangeEnvironment
# --------------------------------------------------------------------------
def _env_doms(comp, env, k):
    """window of every variable: its stated interval if the environment has one,
    otherwise (free / base variable) a fixed list of small and large values."""
    doms = []
    for s in comp.syms():
        if env is not None and s in env:
            lo, hi = env[s]
            doms.append(samples_of_range(lo, hi, k))
        else:
            doms.append(_dom_free(s, comp.types))
    return doms


def _enc_env(comp, env, namer):
    out = {}
    for s in comp.syms():
        if env is not None and s in env:
            lo, hi = env[s]
            out[namer(s)] = [lo, hi]
    return out


def _cap():
    return 400 if MON.light else 2500


def _validate_ira(label, start, expr, env, res):
    IR = X().ra.IndexRange
    MON.counts[label] += 1
    if isinstance(expr, int):
        return
    if isinstance(res, bool) or not isinstance(res, (int, IR)):
        MON.stats["result_not_a_range"] += 1
        return
    comp = Comp()
    fe = comp.fn(expr)
    fr = comp.fn(res.base) if isinstance(res, IR) else None
    doms = _env_doms(comp, env, 6 if MON.light else 9)
    pts = box(doms, _cap(), MON.rng)
    if not pts:
        MON.stats["vacuous_env"] += 1
        return
    if isinstance(res, IR):
        if res.lo is None and res.hi is None:
            MON.stats["conservative_none"] += 1
        elif res.lo is None or res.hi is None:
            MON.stats["conservative_half_none"] += 1
    bad = None
    n = 0
    for v in pts:
        try:
            val = fe(v)
        except Undefined:
            MON.stats["undefined_value"] += 1
            continue
        n += 1
        if isinstance(res, IR):
            off = val - fr(v)
            if res.lo is not None and off < res.lo:
                bad = ("lo", v, val)
            elif res.hi is not None and off > res.hi:
                bad = ("hi", v, val)
        elif val != res:
            bad = ("lo" if val < res else "hi", v, val)
        if bad:
            break
    MON.stats["valuations"] += n
    if not bad:
        return
    side, v, val = bad
    namer = Namer()
    case = {"kind": "expr", "fn": label, "expr": from_loopir(expr, namer)}
    case["env"] = _enc_env(comp, env, namer)
    renc = enc_range(res, namer)
    case["size_vars"] = sorted(namer.sizes)
    sigma = {namer(s): v[i] for s, i in comp.index.items()}
    MON.add(
        {
            "monitor": label,
            "side": side,
            "via": MON.via(start, label),
            "case": case,
            "witness": {
                "sigma": sigma,
                "value": val,
                "result": range_str(renc),
                "text": f"{label}({expr_str(case['expr'])}, {case['env']}) = {range_str(renc)}"
                f" but sigma={sigma} gives {val}",
            },
        }
    )


def _validate_cb(start, expr, env, res):
    MON.counts["constant_bound"] += 1
    if isinstance(expr, int) or res is None:
        return
    lo, hi = res
    comp = Comp()
    fe = comp.fn(expr)
    doms = _env_doms(comp, env, 6 if MON.light else 9)
    pts = box(doms, _cap(), MON.rng)
    if not pts:
        MON.stats["vacuous_env"] += 1
        return
    if lo is None and hi is None:
        MON.stats["conservative_none"] += 1
    elif lo is None or hi is None:
        MON.stats["conservative_half_none"] += 1
    bad = None
    n = 0
    for v in pts:
        try:
            val = fe(v)
        except Undefined:
            MON.stats["undefined_value"] += 1
            continue
        n += 1
        if lo is not None and val < lo:
            bad = ("lo", v, val)
        elif hi is not None and val > hi:
            bad = ("hi", v, val)
        if bad:
            break
    MON.stats["valuations"] += n
    if not bad:
        return
    side, v, val = bad
    namer = Namer()
    case = {"kind": "expr", "fn": "constant_bound", "expr": from_loopir(expr, namer)}
    case["env"] = _enc_env(comp, env, namer)
    case["size_vars"] = sorted(namer.sizes)
    sigma = {namer(s): v[i] for s, i in comp.index.items()}
    MON.add(
        {
            "monitor": "constant_bound",
            "side": side,
            "via": MON.via(start, "constant_bound"),
            "case": case,
            "witness": {
                "sigma": sigma,
                "value": val,
                "result": [lo, hi],
                "text": f"constant_bound({expr_str(case['expr'])}, {case['env']}) = [{lo}, {hi}]"
                f" but sigma={sigma} gives {val}",
            },
        }
    )


_CMP = {
    "<": lambda a, b: a < b,
    "<=": lambda a, b: a <= b,
    "==": lambda a, b: a == b,
}


def _validate_decision(label, start, env, exprs, ops, res):
    """a True answer of check_expr_bound(s) claims `e0 op0 e1 (op1 e2)` for every
    valuation inside the stated intervals; False is conservative."""
    MON.counts[label] += 1
    if res is not True:
        MON.stats["decision_false_conservative"] += 1
        return
    MON.stats["decision_true"] += 1
    comp = Comp()
    fns = [comp.fn(e) for e in exprs]
    doms = _env_doms(comp, env, 6 if MON.light else 9)
    pts = box(doms, _cap(), MON.rng)
    if not pts:
        MON.stats["vacuous_env"] += 1
        return
    bad = None
    n = 0
    for v in pts:
        try:
            vals = [f(v) for f in fns]
        except Undefined:
            MON.stats["undefined_value"] += 1
            continue
        n += 1
        for i, op in enumerate(ops):
            if not _CMP[op](vals[i], vals[i + 1]):
                bad = (i, v, vals)
                break
        if bad:
            break
    MON.stats["valuations"] += n
    if not bad:
        return
    i, v, vals = bad
    namer = Namer()
    encs = [from_loopir(e, namer) for e in exprs]
    args = []
    for j, e in enumerate(encs):
        args.append(e)
        if j < len(ops):
            args.append(ops[j])
    case = {"kind": "decision", "fn": label.split(".")[-1], "args": args}
    case["env"] = _enc_env(comp, env, namer)
    case["size_vars"] = sorted(namer.sizes)
    sigma = {namer(s): v[k] for s, k in comp.index.items()}
    txt = " ".join(a if isinstance(a, str) else expr_str(a) for a in args)
    MON.add(
        {
            "monitor": label,
            "side": "decision",
            "feature": "claims_" + {"<": "lt", "<=": "leq", "==": "eq"}[ops[i]],
            "via": MON.via(start, label),
            "case": case,
            "witness": {
                "sigma": sigma,
                "values": vals,
                "text": f"{label} answered True for `{txt}` under {case['env']}"
                f" but sigma={sigma} gives values {vals}",
            },
        }
    )


def _validate_loop_iter(start, envobj, sym, lo_expr, hi_expr, env_before):
    MON.counts["IndexRangeEnvironment.add_loop_iter"] += 1
    rlo, rhi = envobj.env[sym]
    if rlo is None and rhi is None:
        MON.stats["conservative_none"] += 1
        return
    comp = Comp()
    flo = comp.fn(lo_expr)
    fhi = comp.fn(hi_expr)
    doms = _env_doms(comp, env_before, 6 if MON.light else 9)
    pts = box(doms, _cap(), MON.rng)
    if not pts:
        MON.stats["vacuous_env"] += 1
        return
    bad = None
    n = 0
    for v in pts:
        try:
            a, b = flo(v), fhi(v)
        except Undefined:
            continue
        if a >= b:
            continue  # the loop does not iterate here
        n += 1
        for it in (a, b - 1):
            if rlo is not None and it < rlo:
                bad = ("lo", v, it)
            elif rhi is not None and it > rhi:
                bad = ("hi", v, it)
        if bad:
            break
    MON.stats["valuations"] += n
    if not bad:
        return
    side, v, it = bad
    namer = Namer()
    case = {
        "kind": "loop_iter",
        "lo": from_loopir(lo_expr, namer),
        "hi": from_loopir(hi_expr, namer),
    }
    case["env"] = _enc_env(comp, env_before, namer)
    case["size_vars"] = sorted(namer.sizes)
    sigma = {namer(s): v[k] for s, k in comp.index.items()}
    MON.add(
        {
            "monitor": "IndexRangeEnvironment.add_loop_iter",
            "side": side,
            "via": MON.via(start, "IndexRangeEnvironment.add_loop_iter"),
            "case": case,
            "witness": {
                "sigma": sigma,
                "value": it,
                "result": [rlo, rhi],
                "text": f"add_loop_iter(seq({expr_str(case['lo'])}, {expr_str(case['hi'])})) under "
                f"{case['env']} recorded [{rlo}, {rhi}] but sigma={sigma} iterates {it}",
            },
        }
    )


# --------------------------------------------------------------------------
# concrete execution of the loops of a real procedure
# --------------------------------------------------------------------------
SIZE_CANDS = [1, 2, 3, 4, 5, 6, 7, 8, 9, 10, 12, 16, 20, 33]
INDEX_CANDS = [-3, 0, 2, 7]


def arg_valuations(ir, max_combos=5, rng=None, wide=False):
    """concrete values of the size/index arguments that satisfy the asserts."""
    L = X().LoopIR
    args = [a for a in ir.args if isinstance(a.type, (L.Size, L.Index))]
    if not args:
        return [], [()]
    comp = Comp()
    for a in args:
        comp.index[a.name] = len(comp.index)
        comp.types[a.name] = a.type
    preds = []
    for p in ir.preds:
        try:
            preds.append(comp.fn(p))
        except Unsupported:
            MON.stats["pred_unsupported"] += 1
    syms = comp.syms()
    sc = SIZE_CANDS + ([40, 64, 100, 2**15 + 5] if wide else [])
    doms = []
    for s in syms:
        t = comp.types.get(s)
        doms.append(sc if isinstance(t, L.Size) else INDEX_CANDS)
    ok = []
    for v in itertools.product(*doms):
        if len(v) != len(syms):
            continue
        try:
            if all(p(v) for p in preds):
                ok.append(v)
        except Undefined:
            continue
        if len(ok) > 4000:
            break
    if wide:
        return syms, ok
    ok.sort(key=lambda v: (sum(abs(a) for a in v), v))
    pick = ok[: max(1, max_combos - 2)]
    rest = ok[len(pick) :]
    r = rng or MON.rng
    for _ in range(min(2, len(rest))):
        pick.append(rest[r.randrange(len(rest))])
    return syms, pick


def loop_valuations(ir, loops, cap=3000, rng=None):
    """(syms, list of tuples): every iteration of the given enclosing loops
    (outermost first), for a few concrete argument values satisfying the asserts."""
    asyms, avals = arg_valuations(ir, rng=rng)
    comp = Comp()
    for s in asyms:
        comp.index[s] = len(comp.index)
    bounds = []
    for lp in loops:
        flo = comp.fn(lp.lo)
        fhi = comp.fn(lp.hi)
        if lp.iter not in comp.index:
            comp.index[lp.iter] = len(comp.index)
        bounds.append((comp.index[lp.iter], flo, fhi))
    nv = len(comp.index)
    out = []

    def rec(k, v):
        if len(out) >= cap:
            return
        if k == len(bounds):
            out.append(tuple(v))
            return
        pos, flo, fhi = bounds[k]
        try:
            a, b = flo(v), fhi(v)
        except Undefined:
            return
        for it in range(a, min(b, a + 64)):
            v[pos] = it
            rec(k + 1, v)
            if len(out) >= cap:
                return

    for av in avals:
        v = list(av) + [0] * (nv - len(av))
        before = len(out)
        rec(0, v)
        if len(out) - before > cap // 2:
            break
    return comp, out


def enclosing_loops(cursor):
    """LoopIR.For nodes around an API cursor, outermost first."""
    from exo.API_cursors import ForCursor, InvalidCursor

    loops = []
    c = cursor.parent()
    if isinstance(c, ForCursor):
        n = c._impl._node
        if n.lo is cursor._impl._node or n.hi is cursor._impl._node:
            c = c.parent()  # a loop bound is evaluated outside its own loop
    guard = 0
    while not isinstance(c, InvalidCursor) and guard < 200:
        guard += 1
        if isinstance(c, ForCursor):
            loops.append(c._impl._node)
        c = c.parent()
    loops.reverse()
    return loops


# --------------------------------------------------------------------------
# (3) user level: exo.stdlib.range_analysis
# --------------------------------------------------------------------------
def _check_cursor_exprs(label, start, exprs, res, extra):
    """every concrete value of the expression cursors (over all iterations of
    their enclosing loops) must lie in `res`."""
    IR = X().ra.IndexRange
    if res is None:
        MON.stats["user_none_result"] += 1
        return
    if isinstance(res, bool) or not isinstance(res, (int, IR)):
        return
    if isinstance(res, IR):
        if res.lo is None and res.hi is None:
            MON.stats["conservative_none"] += 1
        elif res.lo is None or res.hi is None:
            MON.stats["conservative_half_none"] += 1
    total = 0
    for ec in exprs:
        p = ec.proc()
        ir = p._loopir_proc
        node = ec._impl._node
        loops = enclosing_loops(ec)
        comp, pts = loop_valuations(ir, loops)
        fe = comp.fn(node)
        fr = comp.fn(res.base) if isinstance(res, IR) else None
        nv = len(comp.index)
        bad = None
        for v in pts:
            if len(v) < nv:
                v = tuple(v) + (1,) * (nv - len(v))
            try:
                val = fe(v)
            except Undefined:
                continue
            total += 1
            if isinstance(res, IR):
                off = val - fr(v)
                if res.lo is not None and off < res.lo:
                    bad = ("lo", v, val)
                elif res.hi is not None and off > res.hi:
                    bad = ("hi", v, val)
            elif val != res:
                bad = ("lo" if val < res else "hi", v, val)
            if bad:
                break
        if bad:
            side, v, val = bad
            namer = Namer()
            names = [str(lp.iter) for lp in loops]
            shadow = len(set(names)) < len(names)
            sigma = {}
            for s, i in comp.index.items():
                if i < len(v):
                    sigma[namer(s)] = v[i]
            renc = enc_range(res, namer)
            f = {
                "monitor": label,
                "side": side,
                "feature": "shadowed_iter_name" if shadow else "plain",
                "via": MON.via(start, label),
                "witness": {
                    "sigma": sigma,
                    "value": val,
                    "result": range_str(renc),
                    "expr": expr_str(from_loopir(node, namer)),
                    "text": f"{label} reported {range_str(renc)} for `{expr_str(from_loopir(node, namer))}`"
                    f" but the iteration sigma={sigma} gives {val}",
                },
            }
            f.update(extra)
            MON.add(f)
            break
    MON.stats["valuations"] += total
    if total == 0:
        MON.stats["user_no_iterations"] += 1
    else:
        MON.stats["user_judged"] += 1


def _validate_infer_range(start, idx_expr, scope, res):
    MON.counts["stdlib.infer_range"] += 1
    _check_cursor_exprs("stdlib.infer_range", start, [idx_expr], res, {})


def _validate_bounds_inference(start, loop, buffer_name, buffer_dim, include, res):
    MON.counts["stdlib.bounds_inference"] += 1
    matches = []
    if "R" in include:
        matches += loop.find(f"{buffer_name}[_]", many=True)
    if "W" in include:
        matches += loop.find(f"{buffer_name}[_] = _", many=True)
    exprs = [c.idx()[buffer_dim] for c in matches]
    MON.stats["bounds_inference_accesses"] += len(exprs)
    _check_cursor_exprs("stdlib.bounds_inference", start, exprs, res, {})


def _validate_arg_range(start, proc, arg, fast, res):
    MON.counts["arg_range_analysis"] += 1
    if res is None:
        return
    lo, hi = res
    if lo is None and hi is None:
        MON.stats["conservative_none"] += 1
        return
    syms, vals = arg_valuations(proc, wide=True)
    if arg.name not in syms:
        return
    pos = syms.index(arg.name)
    n = 0
    for v in vals:
        n += 1
        x = v[pos]
        if (lo is not None and x < lo) or (hi is not None and x > hi):
            side = "lo" if (lo is not None and x < lo) else "hi"
            namer = Namer()
            sigma = {namer(s): v[i] for i, s in enumerate(syms)}
            MON.add(
                {
                    "monitor": "arg_range_analysis",
                    "side": side,
                    "feature": "fast" if fast else "smt_binary_search",
                    "via": [],
                    "case": {
                        "kind": "arg_range",
                        "arg": str(arg.name),
                        "fast": bool(fast),
                        "proc": proc.name,
                        "src": (MON.origin or {}).get("src"),
                    },
                    "witness": {
                        "sigma": sigma,
                        "value": x,
                        "result": [lo, hi],
                        "text": f"arg_range_analysis({arg.name}) = [{lo}, {hi}] but the asserts allow {sigma}",
                    },
                }
            )
            break
    MON.stats["valuations"] += n


# --------------------------------------------------------------------------
# installation of the monitors on the real code
# --------------------------------------------------------------------------
def install():
    if MON.installed:
        return
    import icontract

    x = X()
    ra = x.ra
    IR = ra.IndexRange
    import exo.rewrite.LoopIR_scheduling as sched
    import exo.stdlib.range_analysis as sra

    # (1) icontract postconditions on the operators of the real class
    for name, cond in OP_CONTRACTS.items():
        orig = IR.__dict__.get(name)
        if orig is None:
            MON.stats["operator_absent:" + name] += 1
            continue
        setattr(IR, name, icontract.ensure(cond, error=RangeContractViolation)(orig))

    orig_pe = IR.partial_eval_with_range

    def partial_eval_with_range(self, var, rng):
        start = len(MON.trail)
        res = orig_pe(self, var, rng)
        MON.guard(_validate_partial_eval, start, self, var, rng, res)
        return res

    IR.partial_eval_with_range = partial_eval_with_range

    # (2)/(4) functions; every module that imported them by name is patched
    orig_ira = ra.index_range_analysis

    def index_range_analysis(expr, env={}):
        start = len(MON.trail)
        res = orig_ira(expr, env)
        MON.guard(_validate_ira, "index_range_analysis", start, expr, env, res)
        return res

    index_range_analysis.__wrapped__ = orig_ira
    ra.index_range_analysis = index_range_analysis
    if getattr(sched, "index_range_analysis", None) is orig_ira:
        sched.index_range_analysis = index_range_analysis
    else:
        MON.stats["patch_target_missing:sched.index_range_analysis"] += 1

    orig_cb = ra.constant_bound

    def constant_bound(expr, env):
        start = len(MON.trail)
        res = orig_cb(expr, env)
        MON.guard(_validate_cb, start, expr, env, res)
        return res

    ra.constant_bound = constant_bound

    orig_ara = ra.arg_range_analysis

    def arg_range_analysis(proc, arg, fast=True):
        start = len(MON.trail)
        res = orig_ara(proc, arg, fast=fast)
        MON.guard(_validate_arg_range, start, proc, arg, fast, res)
        return res

    ra.arg_range_analysis = arg_range_analysis

    IRE = ra.IndexRangeEnvironment
    orig_ceb = IRE.check_expr_bound
    orig_cebs = IRE.check_expr_bounds
    orig_ali = IRE.add_loop_iter

    def check_expr_bound(self, expr0, op, expr1):
        start = len(MON.trail)
        res = orig_ceb(self, expr0, op, expr1)
        MON.guard(
            _validate_decision,
            "IndexRangeEnvironment.check_expr_bound",
            start,
            self.env,
            [expr0, expr1],
            [op],
            res,
        )
        return res

    def check_expr_bounds(self, expr0, op0, expr1, op1, expr2):
        start = len(MON.trail)
        res = orig_cebs(self, expr0, op0, expr1, op1, expr2)
        MON.guard(
            _validate_decision,
            "IndexRangeEnvironment.check_expr_bounds",
            start,
            self.env,
            [expr0, expr1, expr2],
            [op0, op1],
            res,
        )
        return res

    def add_loop_iter(self, sym, lo_expr, hi_expr):
        start = len(MON.trail)
        snapshot = None
        if MON.enabled and not MON.depth:
            try:
                snapshot = dict(self.env)
                snapshot.pop(sym, None)
            except Exception:  # noqa
                snapshot = None
        res = orig_ali(self, sym, lo_expr, hi_expr)
        if snapshot is not None:
            MON.guard(_validate_loop_iter, start, self, sym, lo_expr, hi_expr, snapshot)
        return res

    IRE.check_expr_bound = check_expr_bound
    IRE.check_expr_bounds = check_expr_bounds
    IRE.add_loop_iter = add_loop_iter

    # (3) user level
    orig_inf = sra.infer_range

    def infer_range(idx_expr, scope):
        start = len(MON.trail)
        res = orig_inf(idx_expr, scope)
        MON.guard(_validate_infer_range, start, idx_expr, scope, res)
        return res

    sra.infer_range = infer_range

    orig_bi = sra.bounds_inference

    def bounds_inference(loop, buffer_name, buffer_dim, include=["W"]):
        start = len(MON.trail)
        res = orig_bi(loop, buffer_name, buffer_dim, include=include)
        MON.guard(
            _validate_bounds_inference, start, loop, buffer_name, buffer_dim, include, res
        )
        return res

    sra.bounds_inference = bounds_inference
    try:
        import exo.stdlib.halide_scheduling_ops as hso

        if getattr(hso, "bounds_inference", None) is orig_bi:
            hso.bounds_inference = bounds_inference
    except Exception:  # noqa
        MON.stats["patch_target_missing:halide_scheduling_ops"] += 1

    MON.installed = True


# --------------------------------------------------------------------------
# case runners (shared by the driver, the shrinker and replay)
# --------------------------------------------------------------------------
def _symtab_env(case, symtab):
    sv = set(case.get("size_vars") or ())
    x = X()
    env = {}
    for name, (lo, hi) in (case.get("env") or {}).items():
        s = symtab.get(name)
        if s is None:
            s = symtab[name] = x.Sym(_plain(name))
        env[s] = (lo, hi)
    return env, sv


def run_case(case):
    """execute a self-contained case against the real functions with the monitors
    installed; returns the findings it produced."""
    install()
    x = X()
    ra = x.ra
    MON.drain()
    kind = case["kind"]
    symtab = {}
    prev = (MON.strict, MON.light)
    MON.light = False
    try:
        if kind == "op":
            sv = set(case.get("size_vars") or ())
            a = dec_range(case["a"], symtab, sv)
            b = None if case.get("b") is None else dec_range(case["b"], symtab, sv)
            MON.strict = True
            try:
                if case["op"] == "__neg__":
                    -a
                else:
                    getattr(type(a), case["op"])(a, b)
            except RangeContractViolation:
                pass
        elif kind == "partial_eval":
            sv = set(case.get("size_vars") or ())
            a = dec_range(case["self"], symtab, sv)
            g = dec_range(case["rng"], symtab, sv)
            var = symtab.get(case["var"])
            if var is None:
                var = symtab[case["var"]] = x.Sym(_plain(case["var"]))
            a.partial_eval_with_range(var, g)
        elif kind == "expr":
            env, sv = _symtab_env(case, symtab)
            e = to_loopir(case["expr"], symtab, sv)
            if case["fn"] == "constant_bound":
                ra.constant_bound(e, env)
            else:
                ra.index_range_analysis(e, env)
        elif kind == "decision":
            env, sv = _symtab_env(case, symtab)
            obj = object.__new__(ra.IndexRangeEnvironment)
            obj.env = ChainMap(env)
            args = [a if isinstance(a, str) else to_loopir(a, symtab, sv) for a in case["args"]]
            getattr(obj, case["fn"])(*args)
        elif kind == "loop_iter":
            env, sv = _symtab_env(case, symtab)
            obj = object.__new__(ra.IndexRangeEnvironment)
            obj.env = ChainMap(env)
            lo = to_loopir(case["lo"], symtab, sv)
            hi = to_loopir(case["hi"], symtab, sv)
            obj.enter_scope()
            obj.add_loop_iter(x.Sym("it"), lo, hi)
        else:
            raise ValueError("run_case: unknown kind " + str(kind))
    except (AssertionError, TypeError, ValueError, ZeroDivisionError, AttributeError):
        MON.stats["analysis_exception"] += 1
    finally:
        MON.strict, MON.light = prev
    return MON.drain()


def sig_of(f):
    s = {"monitor": f["monitor"], "kind": "unsound", "side": f.get("side")}
    if f.get("feature"):
        s["feature"] = f["feature"]
    if "via" in f:
        s["via"] = list(f["via"])
    return s


# --------------------------------------------------------------------------
# generic shrinking of JSON cases
# --------------------------------------------------------------------------
_SKIP_KEYS = (
    "id",
    "kind",
    "fn",
    "op",
    "size_vars",
    "t",
    "v",
    "name",
    "var",
    "b",
    "buf",
    "cmp",
    "tkind",
    "include",
    "target",
    "scope",
    "dimn",
    "nread",
    "family",
)


def _paths(o, p=()):
    yield p, o
    if isinstance(o, list):
        for i, c in enumerate(o):
            if i == 0 and isinstance(c, str):
                continue
            yield from _paths(c, p + (i,))
    elif isinstance(o, dict):
        for k in sorted(o):
            if k in _SKIP_KEYS:
                continue
            yield from _paths(o[k], p + (k,))


def _replace(o, path, new):
    if not path:
        return new
    o2 = copy.copy(o)
    o2[path[0]] = _replace(o[path[0]], path[1:], new)
    return o2


def _int_shrinks(n):
    if n == 0:
        return []
    out = [0]
    if abs(n) > 1:
        out.append(1 if n > 0 else -1)
        out.append(n // 2 if n > 0 else -((-n) // 2))
    out.append(n - 1 if n > 0 else n + 1)
    if n < 0:
        out.append(-n)
    seen = []
    for c in out:
        if c != n and c not in seen:
            seen.append(c)
    return seen


def candidates(case):
    for path, o in _paths(case):
        if is_expr(o):
            t = o[0]
            if t in ("c", "int"):
                for c in _int_shrinks(o[1]):
                    yield _replace(case, path, [t, c])
            elif t == "v":
                yield _replace(case, path, ["c", 0])
                yield _replace(case, path, ["c", 1])
            elif t == "neg":
                yield _replace(case, path, o[1])
            else:
                yield _replace(case, path, o[1])
                yield _replace(case, path, o[2])
                yield _replace(case, path, ["c", 0])
        elif isinstance(o, bool):
            continue
        elif isinstance(o, int) and path and path[-1] != 0:
            for c in _int_shrinks(o):
                yield _replace(case, path, c)
        elif isinstance(o, list) and len(o) == 3 and (o[0] is None or is_expr(o[0])) and not is_expr(o):
            if o[0] is not None:
                yield _replace(case, path, [None, o[1], o[2]])
        elif isinstance(o, dict) and path and path[-1] == "env":
            for k in sorted(o):
                d = dict(o)
                del d[k]
                yield _replace(case, path, d)


def _base_ok(b):
    """a base is zero (None) or a constant-free combination of variables."""
    if b is None:
        return True
    vs = expr_vars(b)
    if not vs:
        return False
    try:
        return ev(b, {v: 0 for v in vs}) == 0
    except Undefined:
        return False


def in_domain(case):
    """shrinking must not leave the representation invariant of IndexRange
    (constants live in lo/hi, never in the base)."""
    k = case.get("kind")

    def nonempty(r):
        return r[1] is None or r[2] is None or r[1] <= r[2]

    if k == "op":
        if not _base_ok(case["a"][0]) or not nonempty(case["a"]):
            return False
        b = case.get("b")
        if b is not None and not is_expr(b) and not (_base_ok(b[0]) and nonempty(b)):
            return False
    elif k == "partial_eval":
        if not _base_ok(case["self"][0]) or not _base_ok(case["rng"][0]):
            return False
        if not nonempty(case["self"]) or not nonempty(case["rng"]):
            return False
        if case["self"][0] is None or case["var"] not in expr_vars(case["self"][0]):
            return False
    return True


def shrink(case, fails, budget=300):
    """greedy: accept any candidate on which `fails(candidate)` is still true."""
    improved = True
    while improved and budget > 0:
        improved = False
        for cand in candidates(case):
            budget -= 1
            if budget <= 0:
                break
            try:
                ok = fails(cand)
            except Exception:  # noqa
                ok = False
            if ok:
                case = cand
                improved = True
                break
    return case
