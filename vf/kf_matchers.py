"""One predicate per known finding: (sig, case) -> bool.  A predicate names a
*mechanism* (monitor kind, operation, structural features diagnosed from the
IR); it never looks at case hashes or random values."""


def never(sig, case):
    """placeholder for fixed entries: a fixed finding suppresses nothing"""
    return False


# ---------------------------------------------------------------- C16
def c16_block_gap_find_crash(sig, case):
    """BlockCursor.find / GapCursor.find raise AttributeError: PatternMatch.find assumes a Node context"""
    return sig.get("monitor") == "find" and sig.get("kind") == "crash" and sig.get("scope") in ("block", "gap") and sig.get("exc") == "AttributeError"


def c16_stmt_hole_no_backtracking(sig, case):
    """a statement hole followed by a pattern that already matches the statement the hole should consume"""
    return sig.get("monitor") == "find" and sig.get("kind") == "missing_match" and sig.get("mechanism") == "stmt_hole_lookahead_no_backtracking"


# ---------------------------------------------------------------- scheduling stream (C01, C04, C10, C12)
def _diag(sig):
    return sig.get("diag") or {}


EFFECT_CHECKED_OPS = {
    # operations whose acceptance rests on exo's effect analysis (new_eff.py) or on
    # name-based read/write sets, both of which do not see through WindowStmt aliases
    "reorder_stmts", "fission", "autofission", "fuse", "remove_loop", "add_loop", "lift_scope", "reorder_loops",
    "inline_assign", "merge_writes", "split_write", "fold_into_reduce", "stage_mem", "delete_buffer", "reuse_buffer",
    "lift_alloc", "sink_alloc", "autolift_alloc", "expand_dim", "resize_dim", "divide_dim", "mult_dim", "rearrange_dim",
    "unroll_buffer", "bind_expr", "parallelize_loop", "divide_with_recompute", "lift_reduce_constant", "inline_window",
    "extract_subproc", "specialize", "add_unsafe_guard", "bind_config", "write_config", "delete_config", "call_eqv",
    "eliminate_dead_code", "replace", "inline",
}


def fission_assign_then_reduce(sig, case):
    """fission accepted although the loop-invariant pre-gap block assigns a location the
    post-gap block reduces into (Commutes_Fissioning's a1_no_loop_var relaxation)"""
    d = _diag(sig)
    # (the first half is invariant in the loop being fissioned; with n_lifts > 1 it may well mention
    # the iterators of the inner loops, so `pre_mentions_iter` does not enter the predicate)
    return sig.get("op") in ("fission", "autofission") and sig.get("kind") in ("diff", "poison") and bool(d.get("pre_assigns_what_post_reduces"))


def fission_if_condition_written(sig, case):
    """fission / autofission split `if c: s1; s2` into `if c: s1` `if c: s2` although s1 writes
    something (a config field, a buffer) that c reads"""
    return sig.get("op") in ("fission", "autofission") and sig.get("kind") in ("diff", "poison") and bool(_diag(sig).get("splits_if_whose_cond_is_written"))


def autofission_unchecked(sig, case):
    """autofission (DoFissionLoops) performs no commutativity check: the checked variant
    `fission` refuses the same split"""
    d = _diag(sig)
    return sig.get("op") == "autofission" and bool(d.get("fission_rejects"))


def stage_mem_partial_write_no_load(sig, case):
    """stage_mem: the block writes part of a slice window and never reads it; the load is
    skipped but the store copies the whole window back (uninitialised cells)"""
    d = _diag(sig)
    return (
        sig.get("op") == "stage_mem"
        and d.get("slice_window")
        and d.get("store_emitted")
        and not d.get("load_emitted")
        and sig.get("kind") in ("diff", "poison", "e2e:poison")
    )


def autolift_alloc_dependent_extent(sig, case):
    """autolift_alloc (deprecated DoLiftAlloc) lifts an allocation whose extent mentions the
    iterator of the loop it leaves (lift_alloc checks this)"""
    return sig.get("op") == "autolift_alloc" and sig.get("monitor") == "validate" and sig.get("kind") == "use_out_of_scope" and _diag(sig).get("oos_binder") == "iter"


def replace_size_or_assert_unchecked(sig, case):
    """replace / unification passes an inferred value <= 0 for a size parameter or violates a
    callee assertion (LoopIR_unification.py TODO 'Asserts' / 'Size')"""
    return sig.get("op") == "replace" and sig.get("monitor") == "safety" and sig.get("kind") in ("event:call_size", "event:call_pred")


def cfg_read_through_call_arg_unseen(sig, case):
    """a configuration field passed as a (by-reference) call argument is not counted as a read
    of that field by the effect analysis (stmts_effs skips ReadConfig arguments), so a write
    to the field can be deleted or moved across the call"""
    return bool(_diag(sig).get("cfg_read_as_call_arg")) and sig.get("op") in EFFECT_CHECKED_OPS and sig.get("monitor") in ("equiv",)


# ---------------------------------------------------------------- C05
def c05_unify_ignores_asserts(sig, case):
    """Unification does not check the callee's assertions (TODO 'Asserts' in LoopIR_unification.py)"""
    return sig.get("monitor") == "replace" and sig.get("kind") in ("event:call_pred", "event:call_size")


# ---------------------------------------------------------------- C03
def c03_window_stmt_unchecked(sig, case):
    """CheckBounds does not cover window statements: neither the formation of
    `w = x[lo:hi, pt]` (interval / point outside the extent) nor reads, writes and
    reduces made through the alias w are bounds-checked"""
    d = _diag(sig)
    return sig.get("monitor") == "ir-sanitizer" and sig.get("kind") == "oob" and (d.get("through_window_stmt") or d.get("window_stmt_rhs"))


def c03_read_inside_extern_arg(sig, case):
    """a read that is an argument of an extern call (relu(y[k+1])) is not bounds-checked"""
    d = _diag(sig)
    return sig.get("monitor") == "ir-sanitizer" and sig.get("kind") == "oob" and d.get("inside_extern_arg") and not d.get("through_window_stmt")


# ---------------------------------------------------------------- C06
def c06_add_loop_guard(sig, case):
    """add_loop(guard=True) builds `for: if: s` with a single wrap: forward(s) lands on the
    new `if`, cursors below s dangle (a correct fix breaks gemmini_schedules.py, which
    relies on it)"""
    if sig.get("op") != "add_loop" or sig.get("monitor") != "forward":
        return False
    st = (case.get("steps") or [{}])[-1]
    guard = bool((sig.get("flags") or {}).get("guard"))  # W2: boolean arguments recorded by the hook
    try:
        guard = guard or bool(st["args"][3]["v"])
    except Exception:
        pass
    return guard and sig.get("kind", "").split(":")[0] in ("wrong_stmt", "expr_raises", "wrong_expr", "raises", "gap_raises", "block_raises", "stmt_to_nonstmt", "block_lost_member", "gap_wrong_anchor")


# ---------------------------------------------------------------- C15
def c15_set_window_stale_uses(sig, case):
    """set_window retypes only the argument declaration; call sites keep treating the buffer
    as dense, so a window struct is passed where a dense tensor is required"""
    def via_set_window():
        if sig.get("introduced_by") == "set_window":
            return True
        # a callee variant produced with set_window and swapped in with call_eqv
        pre = case.get("prelude") or []
        return sig.get("introduced_by") == "call_eqv" and any(st.get("op") == "set_window" for p in pre for st in p.get("steps", []))

    return (sig.get("monitor") == "annot-judge" and sig.get("kind") == "window_to_dense" and via_set_window()) or (
        sig.get("monitor") == "gcc" and sig.get("feature") == "window_to_dense_accepted"
    )


def c15_window_struct_constness(sig, case):
    """a window-typed name is passed through unchanged to a callee whose window struct has another constness"""
    return sig.get("monitor") == "gcc" and sig.get("feature") == "window_struct_constness"


def c15_reserved_names(sig, case):
    """the backend reserves only 'ctxt': C keywords, libc names used by the backend (malloc, free)
    and the backend's own helper names are emitted as identifiers"""
    return sig.get("monitor") == "gcc" and sig.get("feature") in ("c_keyword_name", "libc_name", "backend_helper_name")


def c15_vector_memory_argument(sig, case):
    """an argument annotated with a non-addressable vector memory (AVX2/AVX512) is emitted as a scalar pointer"""
    return sig.get("monitor") == "gcc" and sig.get("feature") == "vector_memory_argument"


def sink_alloc_else_branch(sig, case):
    """sink_alloc into an if with an else-branch gives the else-branch a renamed allocation
    but leaves its uses on the old symbol (pinned by tests/golden/test_schedules/
    test_sink_alloc_when_if_has_else.txt)"""
    return sig.get("op") == "sink_alloc" and sig.get("monitor") == "validate" and sig.get("kind") == "use_out_of_scope" and _diag(sig).get("oos_binder") == "alloc"


def sink_alloc_loop_carried(sig, case):
    """sink_alloc into a for loop whose body reads the buffer: no analysis checks that every
    iteration reads only what it wrote itself (TODO in DoSinkAlloc), so values carried from
    one iteration to the next become fresh uninitialised memory"""
    d = _diag(sig)
    return (
        sig.get("op") == "sink_alloc"
        and sig.get("monitor") in ("safety", "equiv")
        and (sig.get("kind") in ("poison", "diff") or str(sig.get("kind", "")).startswith("event:"))
        and d.get("sink_scope") == "for"
        and d.get("scope_reads_buffer") is True
    )


def iter_not_substituted_in_alloc_extent(sig, case):
    """loop rewrites that substitute the iterator through cursors (divide_loop, ...) do not
    reach the extent expressions inside an Alloc's type: an allocation whose extent mentions
    the iterator keeps the old, now undeclared, symbol"""
    d = _diag(sig)
    if (
        sig.get("monitor") == "validate"
        and sig.get("kind") == "use_out_of_scope"
        and d.get("oos_binder") == "iter"
        and d.get("iter_in_alloc_extent")
        and sig.get("op") in ("divide_loop", "divide_with_recompute", "mult_loops", "shift_loop", "cut_loop", "join_loops", "unroll_loop")
    ):
        return True
    # shift_loop keeps the iterator's symbol and substitutes `i + (lo' - lo)` for it: the extent in the
    # allocation's type is the one place the substitution does not reach, so the buffer keeps the
    # size computed from the unshifted iterator (too small / non-positive)
    return (
        sig.get("op") == "shift_loop"
        and sig.get("monitor") == "safety"
        and str(sig.get("kind", "")).startswith(("event:oob", "event:alloc_size"))
        and bool(d.get("iter_in_alloc_extent"))
    )


def autolift_alloc_out_of_if(sig, case):
    """autolift_alloc (deprecated DoLiftAlloc) lifts an allocation out of an `if` by inserting it in
    front of the if and leaving the original in place: the name is declared twice"""
    return sig.get("op") == "autolift_alloc" and sig.get("monitor") == "validate" and sig.get("kind") == "rebound_while_live"


def c17_negated_zero_literal(sig, case):
    """`-0` (USub of the index literal 0, created when unroll_loop / partial evaluation
    substitutes 0 for an iterator under a negation) is printed as `-0`; the front end folds a
    negated literal, so the text re-parses to `0` and prints differently (same value)"""
    return sig.get("monitor") == "roundtrip" and sig.get("kind") == "prints_differently" and _diag(sig).get("only_negated_integer_zero") is True


# ---------------------------------------------------------------- C14
_C14 = {
    "avx2_mask_storeu_ps": ("mismatch",),
    "mm512_mask_fmadd_ps": ("mismatch",),
    "mm512_mask_set1_ps": ("mismatch",),
    "mm512_maskz_loadu_ps": ("mismatch",),
    "mm256_prefix_load_ps": ("mismatch",),
    "mm256_fmadd_ps_broadcast": ("gcc_reject",),
    "prefetch": ("gcc_reject",),
    "mm512_mask_add_ps": ("sanitizer",),
}


def _c14(instr):
    def m(sig, case):
        return sig.get("monitor") == "instr-vs-body" and sig.get("instr") == instr and sig.get("kind") in _C14[instr]

    m.__doc__ = f"x86 instruction {instr}: the C expansion does not follow the Exo body"
    return m


c14_avx2_mask_storeu_ps = _c14("avx2_mask_storeu_ps")
c14_mm512_mask_fmadd_ps = _c14("mm512_mask_fmadd_ps")
c14_mm512_mask_set1_ps = _c14("mm512_mask_set1_ps")
c14_mm512_maskz_loadu_ps = _c14("mm512_maskz_loadu_ps")
c14_mm256_prefix_load_ps = _c14("mm256_prefix_load_ps")
c14_mm256_fmadd_ps_broadcast = _c14("mm256_fmadd_ps_broadcast")
c14_prefetch = _c14("prefetch")
c14_mm512_mask_add_ps = _c14("mm512_mask_add_ps")


def c06_lift_scope_else_branch(sig, case):
    """lift_scope of an if out of the then-branch of an if that has an else-branch: the else-branch C
    is copied under both branches of the lifted if; a cursor to a statement of C is forwarded
    onto the position of the old outer if (where the lifted if now stands) instead of to a copy
    of C or to 'invalid'"""
    # (std.lift_if is a sequence of lift_scope steps; the stream judges forwarding per step of the script)
    if sig.get("op") not in ("lift_scope", "std.lift_if") or sig.get("monitor") != "forward" or sig.get("kind") not in ("wrong_stmt", "block_lost_member", "gap_wrong_anchor"):
        return False
    d = (case or {}).get("detail") or {}
    path = [list(x) for x in (d.get("path") or [])]
    fwd = d.get("fwd_path")
    if not path or fwd is None or path[-1][0] != "orelse":
        return False
    fwd = [list(x) for x in fwd]
    # the cursor sits directly in an else-branch and was forwarded to an if that (transitively) owns that
    # branch: a proper prefix of its own path
    return len(fwd) < len(path) and path[: len(fwd)] == fwd


def c06_block_over_fissioned_loop(sig, case):
    """fission: a block cursor that contains the loop being split is forwarded to a block that ends
    with the first of the two loops; statements that went into the second loop (identity-shared
    with the old tree) are no longer members of the forwarded block"""
    if sig.get("monitor") != "forward" or sig.get("kind") != "block_lost_member":
        return False
    steps = (case or {}).get("steps") or []
    frm, to = (case or {}).get("from"), (case or {}).get("to")
    if frm is None or to is None:
        return sig.get("op") in ("fission", "autofission")
    span = [s.get("op") for s in steps[frm:to]]
    return any(o in ("fission", "autofission", "std.fission_into_singles", "std.hoist_from_loop") for o in span)
