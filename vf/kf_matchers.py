"""One predicate per known finding: (sig, case) -> bool.  A predicate names a
*mechanism* (monitor kind, operation, structural features diagnosed from the
IR); it never looks at case hashes or random values."""
