"""One predicate per known finding: (sig, case) -> bool.  A predicate names a
*mechanism* (monitor kind, operation, structural features diagnosed from the
IR); it never looks at case hashes or random values."""


def never(sig, case):
    """placeholder for fixed entries: a fixed finding suppresses nothing"""
    return False


# ---------------------------------------------------------------- C16
def c16_block_gap_find_crash(sig, case):
    """BlockCursor.find / GapCursor.find raise AttributeError: PatternMatch.find assumes a Node context"""
    return sig.get("monitor") == "find" and sig.get("kind") == "crash" and sig.get("scope") in ("block", "gap") and sig.get("exc") == "AttributeError"


def c16_stmt_hole_no_backtracking(sig, case):
    """a statement hole followed by a pattern that already matches the statement the hole should consume"""
    return sig.get("monitor") == "find" and sig.get("kind") == "missing_match" and sig.get("mechanism") == "stmt_hole_lookahead_no_backtracking"
