"""One predicate per known finding: (sig, case) -> bool.  A predicate names a
*mechanism* (monitor kind, operation, structural features diagnosed from the
IR); it never looks at case hashes or random values."""


def never(sig, case):
    """placeholder for fixed entries: a fixed finding suppresses nothing"""
    return False


# ---------------------------------------------------------------- C16
def c16_block_gap_find_crash(sig, case):
    """BlockCursor.find / GapCursor.find raise AttributeError: PatternMatch.find assumes a Node context"""
    return sig.get("monitor") == "find" and sig.get("kind") == "crash" and sig.get("scope") in ("block", "gap") and sig.get("exc") == "AttributeError"


def c16_stmt_hole_no_backtracking(sig, case):
    """a statement hole followed by a pattern that already matches the statement the hole should consume"""
    return sig.get("monitor") == "find" and sig.get("kind") == "missing_match" and sig.get("mechanism") == "stmt_hole_lookahead_no_backtracking"


# ---------------------------------------------------------------- scheduling stream (C01, C04, C10, C12)
def _diag(sig):
    return sig.get("diag") or {}


def window_alias_effects(sig, case):
    """exo's effect analysis attributes accesses made through a WindowStmt alias to the
    alias name and treats a WindowStmt as no binder; any effect-based safety check is
    then blind when one buffer is live under two names (with a write)"""
    return bool(_diag(sig).get("live_window_alias")) and sig.get("monitor") in ("equiv", "safety", "validate", "simplify-trace", "validate-subproc")


def fission_assign_then_reduce(sig, case):
    """fission accepted although the loop-invariant pre-gap block assigns a location the
    post-gap block reduces into (Commutes_Fissioning's a1_no_loop_var relaxation)"""
    d = _diag(sig)
    return sig.get("op") == "fission" and sig.get("kind") in ("diff", "poison") and d.get("pre_assigns_what_post_reduces") and not d.get("pre_mentions_iter")


def autofission_unchecked(sig, case):
    """autofission (DoFissionLoops) performs no commutativity check: the checked variant
    `fission` refuses the same split"""
    d = _diag(sig)
    return sig.get("op") == "autofission" and bool(d.get("fission_rejects"))


def stage_mem_partial_write_no_load(sig, case):
    """stage_mem: the block writes part of a slice window and never reads it; the load is
    skipped but the store copies the whole window back (uninitialised cells)"""
    d = _diag(sig)
    return sig.get("op") == "stage_mem" and d.get("block_writes_never_reads") and d.get("slice_window") and sig.get("kind") in ("diff", "poison", "e2e:poison")


# ---------------------------------------------------------------- C05
def c05_unify_ignores_asserts(sig, case):
    """Unification does not check the callee's assertions (TODO 'Asserts' in LoopIR_unification.py)"""
    return sig.get("monitor") == "replace" and sig.get("variant") == "strict" and sig.get("kind") == "event:call_pred"
