"""Reference matcher for property C16 (find / pattern language).

Independent of exo's pattern parser and matcher: it works on a small JSON-able
pattern AST ("PatAST") that the generator builds *together with* the pattern
string, and on the LoopIR of the procedure.

PatAST
  statements  {"k":"assign"|"reduce","name":s,"idx":[e..],"rhs":e}
              {"k":"pass"}
              {"k":"if","cond":e,"body":[s..],"orelse":[s..]}      orelse [] = not written
              {"k":"for","iter":s,"lo":e,"hi":e,"body":[s..]}      lo,hi both holes = `for i in _:`
              {"k":"alloc","name":s,"ty":s|None,"sizes":[e..]}     `x : _`, `x : f32`, `x : f32[..]`
              {"k":"call","f":s,"args":[e..]|"hole"}               "hole" = `f(_)`
              {"k":"wconfig","config":s,"field":s,"rhs":e}
              {"k":"shole"}
  expressions {"k":"read","name":s,"idx":[e..]}
              {"k":"const","val":v}            (never negative: -3.0 is usub(const 3.0))
              {"k":"usub","arg":e}
              {"k":"binop","op":s,"l":e,"r":e}
              {"k":"extern","f":s,"args":[e..]}
              {"k":"rconfig","config":s,"field":s}
              {"k":"stride","name":s,"dim":int|None}
              {"k":"ehole"}
  a name "_" is a name hole.

Two evaluation modes give a three-valued answer without any negation:
  must (may=False): only what the documented language certainly promises
       - same constructor, same names/operators/constants, same arity;
       - `_` stands for exactly one expression / exactly one statement,
         a body that is a lone `_` stands for any non-empty block,
         `x[_]` for any rank >= 1, `f(_)` for any argument list;
       - a body pattern must cover the whole body; a pattern without `else`
         says nothing about the else branch.
  may  (may=True): every reading of the documentation that is at all plausible
       - statement holes stand for >= 0 statements (with back-tracking),
         a body pattern need only match a prefix, truncated index lists,
         `3` vs `3.0`, Read patterns against windows, fields the pattern AST of
         exo does not keep (call arguments, config rhs, alloc type) ...
  sure match    <=> must-mode matches
  sure no-match <=> may-mode does not match
  anything else is "unsure" and never decides a verdict.
"""

from exo.core.LoopIR import LoopIR

HOLE = "_"


# --------------------------------------------------------------------------- #
# names


def _nm(pat_name, ir_name):
    return pat_name == HOLE or pat_name == str(ir_name)


def _num_eq(pv, ev, may):
    """constant equality: same python type and value is sure; 3 vs 3.0 / True vs 1 unsure"""
    if isinstance(pv, bool) or isinstance(ev, bool):
        if type(pv) is type(ev):
            return pv == ev
        return may and pv == ev
    if type(pv) is type(ev):
        return pv == ev
    try:
        return may and pv == ev
    except Exception:
        return False


# --------------------------------------------------------------------------- #
# expressions


def _idx_match(pidx, eidx, may):
    if len(pidx) == len(eidx):
        return all(m_expr(p, e, may) for p, e in zip(pidx, eidx))
    if len(pidx) == 1 and pidx[0]["k"] == "ehole" and len(eidx) >= 1:
        return True  # x[_] : any rank >= 1
    # any other rank mismatch is undocumented
    return may and all(m_expr(p, e, True) for p, e in zip(pidx, eidx))


def m_expr(pat, e, may):
    k = pat["k"]
    if k == "ehole":
        return True
    if isinstance(e, LoopIR.WindowExpr):
        # windows cannot be written in patterns; a Read pattern against a
        # window of the same buffer is undocumented
        if k == "read" and _nm(pat["name"], e.name):
            return may
        return False
    if k == "const":
        return isinstance(e, LoopIR.Const) and _num_eq(pat["val"], e.val, may)
    if k == "usub":
        if isinstance(e, LoopIR.USub):
            return m_expr(pat["arg"], e.arg, may)
        if isinstance(e, LoopIR.Const) and not isinstance(e.val, bool):
            a = pat["arg"]
            if a["k"] == "const" and not isinstance(a["val"], bool):
                return _num_eq(-a["val"], e.val, may)
            if a["k"] == "ehole":
                try:
                    return may and e.val < 0
                except Exception:
                    return False
        return False
    if k == "read":
        return (
            isinstance(e, LoopIR.Read)
            and _nm(pat["name"], e.name)
            and _idx_match(pat["idx"], e.idx, may)
        )
    if k == "binop":
        return (
            isinstance(e, LoopIR.BinOp)
            and pat["op"] == str(e.op)
            and m_expr(pat["l"], e.lhs, may)
            and m_expr(pat["r"], e.rhs, may)
        )
    if k == "extern":
        if not isinstance(e, LoopIR.Extern) or not _nm(pat["f"], e.f.name()):
            return False
        return _idx_match(pat["args"], e.args, may)
    if k == "rconfig":
        return (
            isinstance(e, LoopIR.ReadConfig)
            and pat["config"] == e.config.name()
            and pat["field"] == e.field
        )
    if k == "stride":
        return (
            isinstance(e, LoopIR.StrideExpr)
            and _nm(pat["name"], e.name)
            and (pat["dim"] is None or pat["dim"] == e.dim)
        )
    raise ValueError(f"bad expression pattern {k}")


# --------------------------------------------------------------------------- #
# statements


def _basetype_name(t):
    try:
        return str(t.basetype())
    except Exception:
        return None


def m_stmt(pat, s, may):
    k = pat["k"]
    assert k != "shole"
    if k in ("assign", "reduce"):
        if isinstance(s, LoopIR.WindowStmt):
            if k != "assign" or not _nm(pat["name"], s.name) or pat["idx"]:
                return False
            if pat["rhs"]["k"] == "ehole":
                return True  # `w = _`
            return may and m_expr(pat["rhs"], s.rhs, True)
        cls = LoopIR.Assign if k == "assign" else LoopIR.Reduce
        return (
            isinstance(s, cls)
            and _nm(pat["name"], s.name)
            and _idx_match(pat["idx"], s.idx, may)
            and m_expr(pat["rhs"], s.rhs, may)
        )
    if k == "pass":
        return isinstance(s, LoopIR.Pass)
    if k == "if":
        if not isinstance(s, LoopIR.If):
            return False
        if not m_expr(pat["cond"], s.cond, may):
            return False
        if not body_match(pat["body"], s.body, may):
            return False
        if not pat["orelse"]:
            return True  # `if c: body` says nothing about else
        return body_match(pat["orelse"], s.orelse, may)
    if k == "for":
        return (
            isinstance(s, LoopIR.For)
            and _nm(pat["iter"], s.iter)
            and m_expr(pat["lo"], s.lo, may)
            and m_expr(pat["hi"], s.hi, may)
            and body_match(pat["body"], s.body, may)
        )
    if k == "alloc":
        if not isinstance(s, LoopIR.Alloc) or not _nm(pat["name"], s.name):
            return False
        ok = True
        ty = pat.get("ty")
        if ty is not None and ty != _basetype_name(s.type):
            ok = may  # exo's pattern AST keeps no element type
        sizes = pat.get("sizes") or []
        if sizes:
            if isinstance(s.type, LoopIR.Tensor):
                ok = ok and _idx_match(sizes, s.type.hi, may)
            else:
                ok = ok and may
        return bool(ok)
    if k == "call":
        if not isinstance(s, LoopIR.Call) or not _nm(pat["f"], s.f.name):
            return False
        if pat["args"] == "hole":
            return True
        if len(pat["args"]) == len(s.args) and all(
            m_expr(p, a, may) for p, a in zip(pat["args"], s.args)
        ):
            return True
        return may  # whether written arguments are compared is undocumented
    if k == "wconfig":
        if not (
            isinstance(s, LoopIR.WriteConfig)
            and pat["config"] == s.config.name()
            and pat["field"] == s.field
        ):
            return False
        # "Cfg.a = 5" denotes a write of 5: the right-hand side is part of the structure
        # (documented for assignments: "a = 3.0" or "a = _")
        return m_expr(pat["rhs"], s.rhs, may)
    raise ValueError(f"bad statement pattern {k}")


def seq_ends(pats, stmts, start, stop, may, lone_hole_body=False):
    """Set of end indices e (start <= e <= stop) such that pats matches
    stmts[start:e]."""
    n = len(pats)
    memo = {}

    def rec(i, j):
        key = (i, j)
        if key in memo:
            return memo[key]
        if i == n:
            r = {j}
        else:
            p = pats[i]
            r = set()
            if p["k"] == "shole":
                if may:
                    for j2 in range(j, stop + 1):
                        r |= rec(i + 1, j2)
                elif lone_hole_body and n == 1:
                    if j < stop:
                        r = {stop}
                elif j < stop:
                    r = rec(i + 1, j + 1)
            elif j < stop and m_stmt(p, stmts[j], may):
                r = rec(i + 1, j + 1)
        memo[key] = r
        return r

    return rec(0, start)


def body_match(pats, stmts, may):
    ends = seq_ends(pats, stmts, 0, len(stmts), may, lone_hole_body=True)
    if may:
        return bool(ends)  # a prefix is enough under the liberal reading
    return len(stmts) in ends


# --------------------------------------------------------------------------- #
# enumeration of candidate positions in program order


def _walk_expr(e, path, doc, out):
    out.append(("E", path, e, doc))
    if isinstance(e, LoopIR.Read):
        for i, x in enumerate(e.idx):
            _walk_expr(x, path + (("idx", i),), doc, out)
    elif isinstance(e, LoopIR.WindowExpr):
        for i, w in enumerate(e.idx):
            wp = path + (("idx", i),)
            if isinstance(w, LoopIR.Interval):
                _walk_expr(w.lo, wp + (("lo", None),), doc, out)
                _walk_expr(w.hi, wp + (("hi", None),), doc, out)
            else:
                _walk_expr(w.pt, wp + (("pt", None),), doc, out)
    elif isinstance(e, LoopIR.USub):
        _walk_expr(e.arg, path + (("arg", None),), doc, out)
    elif isinstance(e, LoopIR.BinOp):
        _walk_expr(e.lhs, path + (("lhs", None),), doc, out)
        _walk_expr(e.rhs, path + (("rhs", None),), doc, out)
    elif isinstance(e, LoopIR.Extern):
        for i, x in enumerate(e.args):
            _walk_expr(x, path + (("args", i),), doc, out)
    elif isinstance(e, (LoopIR.Const, LoopIR.StrideExpr, LoopIR.ReadConfig)):
        pass
    else:
        raise ValueError(f"unknown expression {type(e)}")


def _walk_stmt_inside(s, sp, out):
    if isinstance(s, (LoopIR.Assign, LoopIR.Reduce)):
        for i, x in enumerate(s.idx):
            _walk_expr(x, sp + (("idx", i),), True, out)
        _walk_expr(s.rhs, sp + (("rhs", None),), True, out)
    elif isinstance(s, (LoopIR.WriteConfig, LoopIR.WindowStmt)):
        _walk_expr(s.rhs, sp + (("rhs", None),), True, out)
    elif isinstance(s, LoopIR.If):
        _walk_expr(s.cond, sp + (("cond", None),), True, out)
        _walk_block(s.body, sp, "body", 0, len(s.body), out)
        _walk_block(s.orelse, sp, "orelse", 0, len(s.orelse), out)
    elif isinstance(s, LoopIR.For):
        _walk_expr(s.lo, sp + (("lo", None),), True, out)
        _walk_expr(s.hi, sp + (("hi", None),), True, out)
        _walk_block(s.body, sp, "body", 0, len(s.body), out)
    elif isinstance(s, LoopIR.Call):
        for i, x in enumerate(s.args):
            _walk_expr(x, sp + (("args", i),), True, out)
    elif isinstance(s, LoopIR.Alloc):
        # the sizes of an allocation are not part of the statement grammar the
        # cursor documentation gives: undocumented position
        if isinstance(s.type, LoopIR.Tensor):
            for i, x in enumerate(s.type.hi):
                _walk_expr(x, sp + (("type", None), ("hi", i)), False, out)
    elif isinstance(s, (LoopIR.Pass, LoopIR.Free)):
        pass
    else:
        raise ValueError(f"unknown statement {type(s)}")


def _walk_block(stmts, apath, attr, lo, hi, out):
    for k in range(lo, hi):
        out.append(("B", apath, attr, k, hi, stmts))
        _walk_stmt_inside(stmts[k], apath + ((attr, k),), out)


def resolve(ir, path):
    n = ir
    for attr, idx in path:
        n = getattr(n, attr)
        if idx is not None:
            n = n[idx]
    return n


def positions(ir, scope_path=None, block_scope=None, expr_scope=None):
    """All candidate positions of procedure `ir` in program order.  With
    scope_path (path of a statement) only the sub-tree of that statement,
    the statement itself included (as a one-statement block); with
    block_scope = (anchor_path, attr, lo, hi) only that run of statements; with
    expr_scope (path of an expression) only that expression's sub-tree."""
    out = []
    if expr_scope is not None:
        # the sub-tree of one expression, the expression itself included
        path = tuple((a, i) for a, i in expr_scope)
        _walk_expr(resolve(ir, path), path, True, out)
    elif block_scope is not None:
        apath, attr, lo, hi = block_scope
        apath = tuple((a, i) for a, i in apath)
        stmts = getattr(resolve(ir, apath), attr)
        _walk_block(stmts, apath, attr, lo, hi, out)
    elif scope_path is None:
        _walk_block(ir.body, (), "body", 0, len(ir.body), out)
    else:
        scope_path = tuple((a, i) for a, i in scope_path)
        apath = scope_path[:-1]
        attr, k = scope_path[-1]
        stmts = getattr(resolve(ir, apath), attr)
        _walk_block(stmts, apath, attr, k, k + 1, out)
    return out


# --------------------------------------------------------------------------- #
# the reference answer


def is_stmt_pattern(past):
    return isinstance(past, list)


def ref_find(ir, past, scope_path=None, block_scope=None, expr_scope=None):
    """Reference answer for pattern `past` (a list = statement sequence, a dict
    = expression).  Returns a list of candidates in program order:
      statement pattern : {"key":("B",apath,attr,k), "must":bool, "may_ends":set, "doc":True}
      expression pattern: {"key":("E",path), "must":bool, "may":bool, "doc":bool}
    """
    res = []
    pos = positions(ir, scope_path, block_scope, expr_scope)
    if is_stmt_pattern(past):
        for p in pos:
            if p[0] != "B":
                continue
            _, apath, attr, k, hi, stmts = p
            must = bool(seq_ends(past, stmts, k, hi, False))
            may_ends = seq_ends(past, stmts, k, hi, True)
            # an empty match is no match
            may_ends = {e for e in may_ends if e > k}
            res.append(
                {
                    "key": ("B", apath, attr, k),
                    "must": must,
                    "may_ends": may_ends,
                    "doc": True,
                }
            )
    else:
        for p in pos:
            if p[0] != "E":
                continue
            _, path, e, doc = p
            res.append(
                {
                    "key": ("E", path),
                    "must": m_expr(past, e, False),
                    "may": m_expr(past, e, True),
                    "doc": doc,
                }
            )
    return res
