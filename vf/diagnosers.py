"""Mechanism-level diagnosis of a violating step (attached to the signature as
sig["diag"]).  Diagnosers look only at the IR before/after and the step; they
return small JSON-able dicts without random values."""

from exo.core.LoopIR import LoopIR, T

from . import irutil


def _accesses(stmts):
    """(reads, writes) symbol sets of a statement list (through windows by name)"""
    R, W = set(), set()
    for _, s in irutil._iter_block(list(stmts), (), "body"):
        if isinstance(s, (LoopIR.Assign, LoopIR.Reduce)):
            W.add(s.name)
            if isinstance(s, LoopIR.Reduce):
                R.add(s.name)
        elif isinstance(s, LoopIR.Call):
            for fa, a in zip(s.f.args, s.args):
                if fa.type.is_numeric() and isinstance(a, (LoopIR.Read, LoopIR.WindowExpr)):
                    W.add(a.name)
                    R.add(a.name)
        elif isinstance(s, LoopIR.WindowStmt):
            R.add(s.rhs.name)
        for _, _, e in irutil.stmt_exprs(s):
            for _, sub in irutil.sub_exprs(e):
                if isinstance(sub, (LoopIR.Read, LoopIR.WindowExpr)) and sub.type.is_numeric():
                    R.add(sub.name)
    return R, W


def window_aliases(ir):
    """{window sym: base sym} for every WindowStmt of the procedure (transitively resolved)"""
    al = {}
    for _, s in irutil.all_stmts(ir):
        if isinstance(s, LoopIR.WindowStmt):
            b = s.rhs.name
            while b in al:
                b = al[b]
            al[s.name] = b
    return al


def live_window_alias(ir):
    """True when some buffer is accessed under two different names (a window
    statement alias and its base, or two windows of one base) with a write"""
    al = window_aliases(ir)
    if not al:
        return False
    R, W = _accesses(ir.body)
    groups = {}
    for nm in R | W:
        base = al.get(nm, nm)
        groups.setdefault(base, set()).add(nm)
    for base, names in groups.items():
        if len(names) >= 2 and any(n in W for n in names):
            return True
    return False


def generic(op, old_ir, new_ir, call):
    d = {}
    if live_window_alias(old_ir):
        d["live_window_alias"] = True
    return d
