"""Mechanism-level diagnosis of a violating step (attached to the signature as
sig["diag"]).  Diagnosers look only at the IR before/after and the step; they
return small JSON-able dicts without random values."""

from exo.core.LoopIR import LoopIR, T

from . import irutil


def _accesses(stmts):
    """(reads, writes) symbol sets of a statement list (through windows by name)"""
    R, W = set(), set()
    for _, s in irutil._iter_block(list(stmts), (), "body"):
        if isinstance(s, (LoopIR.Assign, LoopIR.Reduce)):
            W.add(s.name)
            if isinstance(s, LoopIR.Reduce):
                R.add(s.name)
        elif isinstance(s, LoopIR.Call):
            for fa, a in zip(s.f.args, s.args):
                if fa.type.is_numeric() and isinstance(a, (LoopIR.Read, LoopIR.WindowExpr)):
                    W.add(a.name)
                    R.add(a.name)
        elif isinstance(s, LoopIR.WindowStmt):
            R.add(s.rhs.name)
        for _, _, e in irutil.stmt_exprs(s):
            for _, sub in irutil.sub_exprs(e):
                if isinstance(sub, (LoopIR.Read, LoopIR.WindowExpr)) and sub.type.is_numeric():
                    R.add(sub.name)
    return R, W


def window_aliases(ir):
    """{window sym: base sym} for every WindowStmt of the procedure (transitively resolved)"""
    al = {}
    for _, s in irutil.all_stmts(ir):
        if isinstance(s, LoopIR.WindowStmt):
            b = s.rhs.name
            while b in al:
                b = al[b]
            al[s.name] = b
    return al


def live_window_alias(ir):
    """True when some buffer is accessed under two different names (a window
    statement alias and its base, or two windows of one base) with a write"""
    al = window_aliases(ir)
    if not al:
        return False
    R, W = _accesses(ir.body)
    groups = {}
    for nm in R | W:
        base = al.get(nm, nm)
        groups.setdefault(base, set()).add(nm)
    for base, names in groups.items():
        if len(names) >= 2 and any(n in W for n in names):
            return True
    return False


def generic(op, old_ir, new_ir, call):
    d = {}
    if live_window_alias(old_ir):
        d["live_window_alias"] = True
    return d


# ----------------------------------------------------------------------------
def has_diamond(ir):
    """some statement object occurs at two places of the tree (shared after
    specialize / unroll / fission duplication)"""
    seen = set()
    for _, s in irutil.all_stmts(ir):
        if isinstance(s, (LoopIR.Pass,)):
            continue
        if id(s) in seen:
            return True
        seen.add(id(s))
    return False


_generic0 = generic


def cfg_numeric_arg_fields(ir):
    """configuration fields passed (by reference) as a *numeric* call argument -- the case
    stmts_effs deliberately skips; control-typed fields (index/size/bool/stride) passed as
    arguments are ordinary reads and are not part of that mechanism"""
    out = set()
    seen = set()

    def walk(p):
        if id(p) in seen:
            return
        seen.add(id(p))
        for _, s in irutil.all_stmts(p):
            if isinstance(s, LoopIR.Call):
                for fa, a in zip(s.f.args, s.args):
                    if fa.type.is_numeric() and isinstance(a, LoopIR.ReadConfig):
                        out.add(f"{a.config.name()}.{a.field}")
                walk(s.f)  # the call may sit inside a callee (extract_subproc, user sub-procedures)

    walk(ir)
    return sorted(out)


def cfg_read_as_call_arg(ir):
    return bool(cfg_numeric_arg_fields(ir))


def cfg_fields_written(ir):
    out = set()
    for _, s in irutil.all_stmts(ir):
        if isinstance(s, LoopIR.WriteConfig):
            out.add(f"{s.config.name()}.{s.field}")
    return out


def cfg_op_field(op, call):
    """the configuration field a config primitive writes / deletes / binds"""
    try:
        if op == "delete_config":
            n = call.kwargs.get("stmt_cursor")._impl._node
            return f"{n.config.name()}.{n.field}"
        if op in ("write_config", "bind_config"):
            return f"{call.kwargs.get('config').name()}.{call.kwargs.get('field')}"
    except Exception:
        return None
    return None


def generic(op, old_ir, new_ir, call):  # noqa: F811
    d = _generic0(op, old_ir, new_ir, call) or {}
    if has_diamond(old_ir):
        d["shared_stmt_objects"] = True
    nf = cfg_numeric_arg_fields(old_ir) or cfg_numeric_arg_fields(new_ir)
    if nf:
        # the mechanism "a numeric config argument is not a read" can only explain a difference
        # when the operation concerns a write of one of *those* fields
        if op in ("delete_config", "write_config", "bind_config"):
            f = cfg_op_field(op, call) if call is not None else None
            if f in nf:
                d["cfg_read_as_call_arg"] = True
        elif set(nf) & (cfg_fields_written(old_ir) | cfg_fields_written(new_ir)):
            d["cfg_read_as_call_arg"] = True
    if iter_in_alloc_extent(old_ir):
        d["iter_in_alloc_extent"] = True
    return d


def iter_in_alloc_extent(ir):
    """some allocation's extent mentions a loop iterator"""
    iters = {s.iter for _, s in irutil.all_stmts(ir) if isinstance(s, LoopIR.For)}
    for _, s in irutil.all_stmts(ir):
        if isinstance(s, LoopIR.Alloc) and isinstance(s.type, T.Tensor):
            for h in s.type.hi:
                for _, sub in irutil.sub_exprs(h):
                    if isinstance(sub, LoopIR.Read) and sub.name in iters:
                        return True
    return False


def _enclosing_scopes(gap_cursor):
    """For / If statements enclosing the gap, innermost first"""
    impl = gap_cursor._impl
    path = impl.anchor()._path
    root = impl._root
    par = path[:-1]
    out = []
    for j in range(len(par), 0, -1):
        n = irutil.node_at(root, par[:j])
        if isinstance(n, (LoopIR.For, LoopIR.If)):
            out.append(n)
    return out


def _block_of_gap(gap_cursor):
    """(statements before the gap, statements after it, enclosing loops innermost first)"""
    from exo.core import internal_cursors as IC

    impl = gap_cursor._impl
    anchor = impl.anchor()
    path = anchor._path
    root = impl._root
    par = path[:-1]
    attr, i = path[-1]
    parent = irutil.node_at(root, par) if par else root
    blk = getattr(parent, attr)
    k = i if impl.type() == IC.GapType.Before else i + 1
    loops = []
    for j in range(len(par), 0, -1):
        n = irutil.node_at(root, par[:j])
        if isinstance(n, LoopIR.For):
            loops.append(n)
    return blk[:k], blk[k:], loops


def _assign_targets(stmts, cls):
    out = set()
    for _, s in irutil._iter_block(list(stmts), (), "body"):
        if isinstance(s, cls):
            out.add(s.name)
        elif isinstance(s, LoopIR.Call):
            # buffers handed to a callee that assigns / reduces into the parameter
            wr = set()
            for _, cs in irutil.all_stmts(s.f):
                if isinstance(cs, cls):
                    wr.add(cs.name)
                elif isinstance(cs, LoopIR.Call):
                    wr |= {fa.name for fa in s.f.args}  # nested calls: be conservative
            for fa, a in zip(s.f.args, s.args):
                if fa.type.is_numeric() and fa.name in wr and isinstance(a, (LoopIR.Read, LoopIR.WindowExpr)):
                    out.add(a.name)
    return out


def _free_syms(stmts):
    out = set()
    for _, s in irutil._iter_block(list(stmts), (), "body"):
        for _, _, e in irutil.stmt_exprs(s):
            for _, sub in irutil.sub_exprs(e):
                if isinstance(sub, LoopIR.Read):
                    out.add(sub.name)
    return out


def d_fission(old_ir, new_ir, call):
    gap = call.kwargs.get("gap_cursor")
    n_lifts = call.kwargs.get("n_lifts", 1)
    pre, post, loops = _block_of_gap(gap)
    # names are resolved to the buffer they are windows of: the relaxation "a half that assigns
    # may be split from a half that reduces" is about locations, whatever they are called
    al = window_aliases(old_ir)
    a1 = {al.get(n, n) for n in _assign_targets(pre, LoopIR.Assign)}
    red2 = {al.get(n, n) for n in _assign_targets(post, LoopIR.Reduce)}
    iters = {l.iter for l in loops[:n_lifts]}
    # an if that is split: does the first half write what its condition reads?
    cond_written = False
    wcfg = set()
    wbuf = _assign_targets(pre, (LoopIR.Assign, LoopIR.Reduce))
    for _, st in irutil._iter_block(list(pre), (), "body"):
        if isinstance(st, LoopIR.WriteConfig):
            wcfg.add((st.config.name(), st.field))
    for sc in _enclosing_scopes(gap)[:n_lifts]:
        if isinstance(sc, LoopIR.If):
            for _, sub in irutil.sub_exprs(sc.cond):
                if isinstance(sub, LoopIR.ReadConfig) and (sub.config.name(), sub.field) in wcfg:
                    cond_written = True
                if isinstance(sub, LoopIR.Read) and sub.name in wbuf:
                    cond_written = True
    return {
        "pre_assigns_what_post_reduces": bool(a1 & red2),
        "pre_mentions_iter": bool(iters & _free_syms(pre)),
        "splits_if_whose_cond_is_written": cond_written,
    }


def d_autofission(old_ir, new_ir, call):
    """would the checked variant (fission) refuse the same split?"""
    from . import hooks
    from exo.API_scheduling import fission

    d = {}
    hooks.REC.enabled = False
    try:
        try:
            fission(call.proc_in, call.kwargs.get("gap_cursor"), call.kwargs.get("n_lifts", 1))
            d["fission_rejects"] = False
        except Exception as e:
            d["fission_rejects"] = type(e).__name__
    finally:
        hooks.REC.enabled = True
    try:
        d.update(d_fission(old_ir, new_ir, call))
    except Exception:
        pass
    return d


def d_stage_mem(old_ir, new_ir, call):
    blk = call.kwargs.get("block_cursor")
    buf_name, w_exprs = call.kwargs.get("win_expr")
    stmts = [c._impl._node for c in blk]
    reads = set()
    writes = set()
    for _, s in irutil._iter_block(stmts, (), "body"):
        if isinstance(s, (LoopIR.Assign, LoopIR.Reduce)) and str(s.name) == buf_name:
            writes.add("w")
            if isinstance(s, LoopIR.Reduce):
                reads.add("r")
        for _, _, e in irutil.stmt_exprs(s):
            for _, sub in irutil.sub_exprs(e):
                if isinstance(sub, (LoopIR.Read, LoopIR.WindowExpr)) and str(sub.name) == buf_name:
                    reads.add("r")
    slice_window = any(isinstance(w, tuple) for w in w_exprs)
    # shape of the rewrite: was a load nest / a store nest emitted for the staging buffer?
    new_name = call.kwargs.get("new_buf_name")
    load = store = False

    def copy_nest(s):
        """(dst, src) of a copy nest `for i0: for i1: [if guard:] dst[..] (+)= src[..]` whose staging-side
        indices are exactly the loop iterators (what DoStageMem emits); None for anything else, in
        particular for a statement of the staged block that merely mentions both buffers"""
        iters = []
        while isinstance(s, LoopIR.For) and len(s.body) == 1:
            iters.append(s.iter)
            s = s.body[0]
        while isinstance(s, LoopIR.If) and len(s.body) == 1 and not s.orelse:
            s = s.body[0]
        if not isinstance(s, (LoopIR.Assign, LoopIR.Reduce)):
            return None

        def is_iters(idx):
            return len(idx) == len(iters) and all(isinstance(e, LoopIR.Read) and not e.idx and e.name is i for e, i in zip(idx, iters))

        if str(s.name) == new_name and is_iters(s.idx):
            if isinstance(s.rhs, LoopIR.Read) and str(s.rhs.name) == buf_name:
                return "load"
            if isinstance(s.rhs, LoopIR.Const):
                return "load"  # accum=True: zero-initialisation
        if str(s.name) == buf_name and isinstance(s.rhs, LoopIR.Read) and str(s.rhs.name) == new_name and is_iters(s.rhs.idx):
            return "store"
        return None

    for _, s in irutil.all_stmts(new_ir):
        k = copy_nest(s) if (slice_window and isinstance(s, LoopIR.For)) or (not slice_window and isinstance(s, (LoopIR.Assign, LoopIR.Reduce, LoopIR.If))) else None
        if k == "load":
            load = True
        elif k == "store":
            store = True
    return {
        "block_writes_never_reads": bool(writes) and not reads,
        "slice_window": slice_window,
        "accum": bool(call.kwargs.get("accum")),
        "load_emitted": load,
        "store_emitted": store,
    }


def d_sink_alloc(old_ir, new_ir, call):
    """shape of the scope an allocation is sunk into: a loop whose body reads the buffer may
    carry values from one iteration to the next (LoopIR_scheduling.DoSinkAlloc has a TODO
    for exactly this analysis)"""
    ac = call.kwargs.get("alloc_cursor")
    alloc = ac._impl._node
    scope = ac.next()._impl._node
    kind = "for" if isinstance(scope, LoopIR.For) else "if"
    reads = False
    for _, st in irutil._iter_block(list(scope.body) + list(getattr(scope, "orelse", []) or []), (), "body"):
        if isinstance(st, LoopIR.Reduce) and st.name == alloc.name:
            reads = True
        for _, _, e in irutil.stmt_exprs(st):
            for _, sub in irutil.sub_exprs(e):
                if isinstance(sub, (LoopIR.Read, LoopIR.WindowExpr)) and sub.name == alloc.name:
                    reads = True
    return {"sink_scope": kind, "scope_reads_buffer": reads}


def binder_kind(ir, sym_repr):
    """what declares the symbol whose repr() is sym_repr: 'arg' | 'alloc' | 'winstmt' | 'iter' | None"""
    for a in ir.args:
        if repr(a.name) == sym_repr:
            return "arg"
    for _, s in irutil.all_stmts(ir):
        if isinstance(s, LoopIR.Alloc) and repr(s.name) == sym_repr:
            return "alloc"
        if isinstance(s, LoopIR.WindowStmt) and repr(s.name) == sym_repr:
            return "winstmt"
        if isinstance(s, LoopIR.For) and repr(s.iter) == sym_repr:
            return "iter"
    return None
