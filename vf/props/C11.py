"""C11  Procedure-equivalence tracking is a sound congruence  (history + executable model).

Every call that crosses the boundary of `exo.core.proc_eqv` (decl_new_proc,
derive_proc, assert_eqv_proc and the queries check_eqv_proc /
get_strictest_eqv_proc / get_repr_proc) is recorded by a transparent wrapper; the
recorded steps feed the reference model `vf.refeqv.RefEqv` (the labelled
multigraph of steps) and every query answer of the real module is compared with
the model's answer on the same history.

Return conventions of the real module (read from the code, checked by probing):
  check_eqv_proc(a, b, K=frozenset())  -> bool   True iff a, b are in one class of
        _UF_Unv and of every tracked per-field relation Unv-{f}, f not in K
  get_strictest_eqv_proc(a, b)         -> (is_eqv: bool, keys: set)   keys = the
        fields f whose relation Unv-{f} separates a and b; keys == set() when
        is_eqv is False
  get_repr_proc(q)                     -> the representative of q in _UF_Strict
  Procedure.is_eq(q)                   -> bool (meant: equivalent modulo nothing)
Expected, in model terms:  check == model.eqv(a,b,K);  strictest == (connected,
model.strictest or {});  repr r must satisfy model.eqv(q, r, {});  is_eq ==
model.eqv(a,b,{}).

Mismatch kinds
  unsound    the real module reports an equivalence the model does not have
             (True for unconnected procs, or a modulo-set that misses a field)
  imprecise  the real module denies / weakens an equivalence the closure has
             (the property says "exactly", so this is reported too, separately)

Workloads
  synthetic/isolated  a history runs against a *fresh instance* of proc_eqv.py
        (its source exec'd into a new namespace = the state of a fresh process)
        so that fields really are first mentioned late in a pristine module
  synthetic/shared    histories run against the imported module whose state
        grows for the whole process; one global model per process; fresh procs
        per history, fields partly reused, occasional links to old histories
  exhaustive (thorough)  every history over <=4 procs x 2 fields x <=6 events
  api          real exo procedures scheduled with real operators; the wrappers
        sit on exo.core.proc_eqv and on every module that imported its names
"""

import importlib.util
import json
import os
import subprocess
import sys
import tempfile
import traceback
from collections import Counter
from pathlib import Path

from vf import common
from vf.refeqv import RefEqv

PROP = "C11"
LEVEL = "exploration"
RULE = (
    "case = one history (list of decl/derive/assert_eqv/query/drop events, or one "
    "scheduling script for the api workload); distinct = hash of the event list "
    "with procs and fields renumbered by first appearance; non-trivial = at least "
    "two steps, one of them with a non-empty modulo set (api: at least one accepted "
    "operator that recorded a step)"
)
ASSUMPTIONS = [
    "the reference model (vf/refeqv.py) is the per-field closure of the recorded steps; "
    "its fast search is cross-checked against a definition-shaped naive search on a sample",
    "a fresh exec of proc_eqv.py's source behaves like the module in a fresh process "
    "(the module's state is its three module-level globals)",
    "every reference to the proc_eqv functions held by a loaded exo module is found by "
    "scanning sys.modules (exo.API, exo.rewrite.LoopIR_scheduling, exo.rewrite.new_eff)",
    "equivalence modulo K is read per field (a and b joined, for each f not in K, by a "
    "path avoiding f), as the module's header comment and the property's 'tracked per "
    "configuration field' say; the stricter one-path reading is only counted",
]

FN = (
    "decl_new_proc",
    "derive_proc",
    "assert_eqv_proc",
    "check_eqv_proc",
    "get_strictest_eqv_proc",
    "get_repr_proc",
)

# fixed hazard shapes, run by shard 0 of every tier (both sweep modes)
FIXED = [
    # a field first mentioned after unions already happened
    [["decl", 0], ["derive", 0, 1, []], ["derive", 1, 2, ["f0"]]],
    [["decl", 0], ["decl", 1], ["assert", 0, 1, ["f0"]], ["derive", 1, 2, ["f1"]]],
    [["decl", 0], ["decl", 1], ["derive", 0, 2, []], ["assert", 1, 2, ["f0", "f1"]]],
    [["decl", 0], ["derive", 0, 1, ["f0"]], ["derive", 1, 2, ["f0", "f1"]], ["derive", 2, 3, ["f2"]]],
    # different origin
    [["decl", 0], ["decl", 1], ["check", 1, 0, []], ["strict", 0, 1]],
    [["decl", 0], ["derive", 0, 1, ["f0"]], ["decl", 2], ["derive", 2, 3, ["f0"]]],
    # two parallel steps that disturb different fields: equivalent modulo nothing, per field
    [["decl", 0], ["derive", 0, 1, ["f0"]], ["assert", 0, 1, ["f1"]], ["check", 0, 1, []]],
    # unions of non-roots, in both argument orders
    [["decl", 0], ["derive", 0, 1, []], ["decl", 2], ["assert", 2, 1, []]],
    [["decl", 0], ["decl", 1], ["assert", 1, 0, []], ["decl", 2], ["assert", 2, 0, []]],
    [["decl", 0], ["derive", 0, 1, ["f0"]], ["assert", 1, 0, []], ["decl", 2], ["assert", 2, 0, []]],
    # re-declaration, self steps, a dropped intermediate proc
    [["decl", 0], ["derive", 0, 1, ["f0"]], ["decl", 1], ["derive", 1, 1, ["f1"]], ["assert", 0, 0, []]],
    [["decl", 0], ["derive", 0, 1, []], ["derive", 1, 2, ["f0"]], ["drop", 1], ["strict", 0, 2], ["repr", 2]],
]

# exhaustive sub-space (thorough tier)
EXH_PROCS = 4
EXH_FIELDS = ("f0", "f1")
EXH_LEN = 6


# --------------------------------------------------------------------------- #
#   the monitor: wrappers + model + judge


class Monitor:
    def __init__(self, orig, naive_every=0):
        self.orig = dict(orig)
        self.model = RefEqv()
        self._ids = {}  # id(obj) -> (obj, nid): strong references live here
        self._next = 0
        self._fld = {}  # key -> field name
        self.depth = 0
        self.driver = 0
        self.counts = Counter()
        self.mism = []
        self.log = []
        self.nq = 0
        self.naive_every = naive_every
        self.errors = []
        self.w = {n: self._wrap(n) for n in self.orig}

    # -- identities --------------------------------------------------------
    def nid(self, obj):
        e = self._ids.get(id(obj))
        if e is not None and e[0] is obj:
            return e[1]
        n = self._next
        self._next += 1
        self._ids[id(obj)] = (obj, n)
        return n

    def register(self, obj, n):
        self._ids[id(obj)] = (obj, n)

    def forget(self, obj):
        e = self._ids.get(id(obj))
        if e is not None and e[0] is obj:
            del self._ids[id(obj)]

    def register_field(self, key, name):
        self._fld[key] = name

    def fname(self, key):
        n = self._fld.get(key)
        if n is None:
            n = self._fld[key] = repr(key)
        return n

    def fnames(self, keys):
        return frozenset(self.fname(k) for k in keys)

    # -- wrappers ----------------------------------------------------------
    def _wrap(self, name):
        orig = self.orig[name]
        rec = getattr(self, "_on_" + name)
        mon = self

        def wrapper(*a, **k):
            outer = mon.depth == 0
            mon.depth += 1
            try:
                r = orig(*a, **k)
            finally:
                mon.depth -= 1
            if outer:
                try:
                    mon.counts[("drv:" if mon.driver else "exo:") + name] += 1
                    rec(r, *a, **k)
                except Exception:  # never raise into the observed code
                    if len(mon.errors) < 3:
                        mon.errors.append(traceback.format_exc())
                    mon.counts["monitor_error"] += 1
            return r

        wrapper.__name__ = name
        wrapper._c11_orig = orig
        return wrapper

    def _on_decl_new_proc(self, r, proc):
        n = self.nid(proc)
        self.model.decl(n)
        self.log.append(["decl", n])

    def _on_derive_proc(self, r, orig_proc, new_proc, config_set=frozenset()):
        a, b = self.nid(orig_proc), self.nid(new_proc)
        K = self.fnames(config_set)
        self.model.decl(b)
        self.model.step(a, b, K)
        self.log.append(["derive", a, b, sorted(K)])

    def _on_assert_eqv_proc(self, r, proc1, proc2, config_set=frozenset()):
        a, b = self.nid(proc1), self.nid(proc2)
        K = self.fnames(config_set)
        self.model.step(a, b, K)
        self.log.append(["assert", a, b, sorted(K)])

    def _on_check_eqv_proc(self, r, proc1, proc2, config_set=frozenset()):
        self.judge_check("check_eqv_proc", r, self.nid(proc1), self.nid(proc2), self.fnames(config_set))

    def _on_get_strictest_eqv_proc(self, r, proc1, proc2):
        self.judge_strict(r, self.nid(proc1), self.nid(proc2))

    def _on_get_repr_proc(self, r, q):
        a, b = self.nid(q), self.nid(r)
        self.nq += 1
        if not (self.model.known(a) and self.model.known(b)):
            self.counts["q_unknown_proc"] += 1
            return
        if not self.model.eqv(a, b, frozenset()):
            self._mismatch("unsound", "get_repr_proc", a, b, [], "repr=%d" % b, self.model.strictest(a, b))

    # -- judge ---------------------------------------------------------------
    def _strict(self, a, b):
        S = self.model.strictest(a, b)
        if self.naive_every and self.nq % self.naive_every == 0:
            self.counts["model_selfcheck"] += 1
            if self.model.strictest_naive(a, b) != S:
                self.counts["model_selfcheck_failed"] += 1
        return S

    def _mismatch(self, kind, query, a, b, K, real, S):
        self.mism.append(
            {
                "kind": kind,
                "query": query,
                "a": a,
                "b": b,
                "K": sorted(K),
                "real": real,
                "model": None if S is None else sorted(S),
                "at": len(self.log),
            }
        )

    def judge_check(self, query, r, a, b, K):
        self.nq += 1
        if not (self.model.known(a) and self.model.known(b)):
            self.counts["q_unknown_proc"] += 1
            return
        S = self._strict(a, b)
        exp = S is not None and S <= K
        if not isinstance(r, bool):
            self._mismatch("bad_return", query, a, b, K, repr(r), S)
        elif r and not exp:
            self._mismatch("unsound", query, a, b, K, True, S)
        elif exp and not r:
            self._mismatch("imprecise", query, a, b, K, False, S)
        else:
            self.counts["q_true" if r else "q_false"] += 1
            if r and a != b and not self.model.path_eqv(a, b, K):
                self.counts["q_true_perfield_only"] += 1

    def judge_strict(self, r, a, b):
        self.nq += 1
        if not (self.model.known(a) and self.model.known(b)):
            self.counts["q_unknown_proc"] += 1
            return
        S = self._strict(a, b)
        q = "get_strictest_eqv_proc"
        try:
            is_eqv, keys = r
            keys = self.fnames(keys)
            ok = isinstance(is_eqv, bool)
        except Exception:
            ok = False
        if not ok:
            self._mismatch("bad_return", q, a, b, [], repr(r), S)
            return
        real = [is_eqv, sorted(keys)]
        if S is None:
            if is_eqv:
                self._mismatch("unsound", q, a, b, [], real, S)
            elif keys:
                self._mismatch("bad_return", q, a, b, [], real, S)
            else:
                self.counts["q_false"] += 1
                self.counts["q_different_origin_denied"] += 1
        elif not is_eqv:
            self._mismatch("imprecise", q, a, b, [], real, S)
        elif not S <= keys:
            self._mismatch("unsound", q, a, b, [], real, S)
        elif keys - S:
            self._mismatch("imprecise", q, a, b, [], real, S)
        else:
            self.counts["q_true"] += 1
            if S:
                self.counts["q_true_nonempty_modulo"] += 1


def fresh_instance():
    """The functions of a brand-new copy of proc_eqv (fresh module state)."""
    import exo.core.proc_eqv as pe

    code = fresh_instance.__dict__.get("code")
    if code is None:
        code = compile(Path(pe.__file__).read_text(), pe.__file__, "exec")
        fresh_instance.code = code
    ns = {"__name__": "exo.core.proc_eqv", "__package__": "exo.core", "__file__": pe.__file__}
    exec(code, ns)
    return {n: ns[n] for n in FN}


_INSTALLED = None


def install():
    """Wrap the imported module (and every exo module that copied its names)."""
    global _INSTALLED
    import exo.API  # noqa: F401
    import exo.API_scheduling  # noqa: F401
    import exo.stdlib.scheduling  # noqa: F401
    import exo.rewrite.LoopIR_scheduling  # noqa: F401
    import exo.rewrite.new_eff  # noqa: F401
    import exo.core.proc_eqv as pe

    if _INSTALLED is None:
        mon = Monitor({n: getattr(pe, n) for n in FN}, naive_every=0)
        mon.patched = []
        _INSTALLED = mon
    mon = _INSTALLED
    for modname, mod in list(sys.modules.items()):
        if mod is None or not (modname == "exo" or modname.startswith("exo.")):
            continue
        for n in FN:
            if getattr(mod, n, None) is mon.orig[n]:
                setattr(mod, n, mon.w[n])
                mon.patched.append(modname + "." + n)
    return mon


# --------------------------------------------------------------------------- #
#   synthetic histories


def _tiny_proc(name):
    from exo.core.LoopIR import LoopIR
    from exo.core.prelude import SrcInfo

    si = SrcInfo("<c11>", 1)
    return LoopIR.proc(name, [], [], [LoopIR.Pass(si)], None, si)


def _field_sym(name):
    from exo.core.LoopIR import UAST
    from exo.core.configs import Config

    cfg = Config("K_" + name, [("v", UAST.F32())], False)
    return cfg, cfg._INTERNAL_sym("v")


class Synth:
    """Executes events (integer proc ids, field names) against wrapped functions."""

    def __init__(self, mon, fns=None):
        self.mon = mon
        self.f = fns or mon.w
        self.procs = {}
        self.dropped = set()
        self.syms = {}
        self._cfgs = []
        self.touched = []
        self.nev = 0
        self.nsweepq = 0

    def begin(self):
        self.touched = []

    def _touch(self, *ids):
        for i in ids:
            if i not in self.touched:
                self.touched.append(i)

    def _proc(self, n):
        p = _tiny_proc("p%d" % n)
        self.procs[n] = p
        self.mon.register(p, n)
        return p

    def sym(self, name):
        s = self.syms.get(name)
        if s is None:
            cfg, s = _field_sym(name)
            self._cfgs.append(cfg)
            self.syms[name] = s
            self.mon.register_field(s, name)
        return s

    def _K(self, names):
        return frozenset(self.sym(n) for n in names)

    def apply(self, ev):
        """Returns False when the event's precondition does not hold (skipped)."""
        k = ev[0]
        P = self.procs
        if k == "decl":
            n = ev[1]
            if n in self.dropped:
                return False
            p = P.get(n) or self._proc(n)
            self.f["decl_new_proc"](p)
            self._touch(n)
        elif k == "derive":
            a, b, K = ev[1], ev[2], ev[3]
            if a not in P or b in self.dropped:
                return False
            pb = P.get(b) or self._proc(b)
            self.f["derive_proc"](P[a], pb, self._K(K))
            self._touch(a, b)
        elif k == "assert":
            a, b, K = ev[1], ev[2], (ev[3] if len(ev) > 3 else [])
            if a not in P or b not in P:
                return False
            if K:
                self.f["assert_eqv_proc"](P[a], P[b], self._K(K))
            else:
                self.f["assert_eqv_proc"](P[a], P[b])
            self._touch(a, b)
        elif k == "check":
            a, b, K = ev[1], ev[2], ev[3]
            if a not in P or b not in P:
                return False
            self.f["check_eqv_proc"](P[a], P[b], self._K(K))
        elif k == "strict":
            a, b = ev[1], ev[2]
            if a not in P or b not in P:
                return False
            self.f["get_strictest_eqv_proc"](P[a], P[b])
        elif k == "repr":
            if ev[1] not in P:
                return False
            self.f["get_repr_proc"](P[ev[1]])
        elif k == "drop":
            n = ev[1]
            if n not in P:
                return False
            obj = P.pop(n)
            self.mon.forget(obj)
            self.dropped.add(n)
            if n in self.touched:
                self.touched.remove(n)
            del obj
        else:
            raise ValueError("unknown event %r" % (ev,))
        self.nev += 1
        return True

    def sweep(self, nodes, tick, focus=()):
        """Query pairs among `nodes` (all pairs when few, else the pairs of the procs
        in `focus` plus a strided sample); deterministic in (nodes, tick)."""
        nodes = [n for n in dict.fromkeys(nodes) if n in self.procs][-60:]
        pairs = [(a, b) for i, a in enumerate(nodes) for b in nodes[i:]]
        if len(nodes) > 7:
            foc = set(focus)
            stride = max(1, len(pairs) // 12)
            pairs = [
                pr
                for j, pr in enumerate(pairs)
                if pr[0] in foc or pr[1] in foc or (j + tick) % stride == 0
            ]
        f = self.f
        for a, b in pairs:
            if (a + b + tick) & 1:
                a, b = b, a
            pa, pb = self.procs[a], self.procs[b]
            r = f["get_strictest_eqv_proc"](pa, pb)
            f["check_eqv_proc"](pb, pa)
            self.nsweepq += 2
            try:
                keys = sorted(r[1], key=self.mon.fname) if r[0] else []
            except Exception:
                keys = []
            if keys:
                f["check_eqv_proc"](pa, pb, frozenset(keys))
                drop = keys[tick % len(keys)]
                f["check_eqv_proc"](pa, pb, frozenset(k for k in keys if k is not drop))
                self.nsweepq += 2


def run_history(synth, events, sweep, extra_nodes=()):
    """Apply the events; sweep = 'each' | 'end' | 'none'.  Returns new mismatches."""
    mon = synth.mon
    m0 = len(mon.mism)
    synth.begin()
    mon.driver += 1  # these calls are the driver's, not exo's
    try:
        for i, ev in enumerate(events):
            ok = synth.apply(ev)
            if sweep == "each" and ok and ev[0] in ("decl", "derive", "assert", "drop"):
                foc = [x for x in ev[1:3] if isinstance(x, int)]
                synth.sweep(list(synth.touched) + list(extra_nodes), i, foc)
        if sweep in ("each", "end"):
            synth.sweep(list(synth.touched) + list(extra_nodes), len(events), ())
    finally:
        mon.driver -= 1
    return mon.mism[m0:]


def run_fresh(events, sweep, naive_every=0):
    mon = Monitor(fresh_instance(), naive_every=naive_every)
    mon._next = 10**9  # ids of objects the driver did not create itself
    synth = Synth(mon)
    mm = run_history(synth, events, sweep)
    return mm, mon, synth


def gen_history(rng, base, fields, old=(), cross=False):
    """A random history over procs base.. (at most 12), the given <=4 fields and
    <=30 events.  Fields get a random release time so that many are first
    mentioned after unions already happened."""
    n_max = rng.choice([2, 3, 4, 4, 5, 6, 8, 12])
    n_ev = rng.randint(3, 30)
    release = {f: (rng.randrange(n_ev) if rng.random() < 0.6 else 0) for f in fields}
    live = []
    made = 0
    ev = []

    def randK(t):
        avail = [f for f in fields if release[f] <= t]
        if not avail or rng.random() < 0.35:
            return []
        return sorted(f for f in avail if rng.random() < 0.5) or [rng.choice(avail)]

    for t in range(n_ev):
        opts = []
        if made < n_max:
            opts += [("decl", 2.0)]
            if live:
                opts += [("derive", 6.0)]
        if len(live) >= 2:
            opts += [("assert", 3.0), ("assertK", 0.5), ("derive_old", 0.5), ("check", 1.0), ("strict", 0.7)]
        if live:
            opts += [("redecl", 0.4), ("repr", 0.3), ("self", 0.2)]
        if len(live) >= 3:
            opts += [("drop", 0.3)]
        if cross and old and live:
            opts += [("x_assert", 0.25), ("x_derive", 0.25), ("x_query", 0.5)]
        if not opts:
            opts = [("decl", 1.0)]
        tot = sum(w for _, w in opts)
        x = rng.random() * tot
        for kind, w in opts:
            x -= w
            if x <= 0:
                break
        if kind == "decl":
            ev.append(["decl", base + made])
            live.append(base + made)
            made += 1
        elif kind == "derive":
            ev.append(["derive", rng.choice(live), base + made, randK(t)])
            live.append(base + made)
            made += 1
        elif kind == "assert":
            a, b = rng.sample(live, 2)
            ev.append(["assert", a, b, []])
        elif kind == "assertK":
            a, b = rng.sample(live, 2)
            ev.append(["assert", a, b, randK(t)])
        elif kind == "derive_old":
            a, b = rng.sample(live, 2)
            ev.append(["derive", a, b, randK(t)])
        elif kind == "check":
            a, b = rng.sample(live, 2)
            ev.append(["check", a, b, sorted(f for f in fields if rng.random() < 0.4)])
        elif kind == "strict":
            a, b = rng.sample(live, 2)
            ev.append(["strict", a, b])
        elif kind == "redecl":
            ev.append(["decl", rng.choice(live)])
        elif kind == "repr":
            ev.append(["repr", rng.choice(live)])
        elif kind == "self":
            a = rng.choice(live)
            ev.append(["assert", a, a, []] if rng.random() < 0.5 else ["derive", a, a, randK(t)])
        elif kind == "drop":
            a = rng.choice(live)
            live.remove(a)
            ev.append(["drop", a])
        elif kind == "x_assert":
            ev.append(["assert", rng.choice(live), rng.choice(old), []])
        elif kind == "x_derive":
            if made < n_max:
                ev.append(["derive", rng.choice(old), base + made, randK(t)])
                live.append(base + made)
                made += 1
        elif kind == "x_query":
            ev.append(["strict", rng.choice(live), rng.choice(old)])
    return ev, made


def canon(events):
    """Renumber procs and fields by first appearance (the shape of a history)."""
    pm, fm = {}, {}

    def p(x):
        return pm.setdefault(x, len(pm))

    def fs(K):
        for f in K:
            fm.setdefault(f, "f%d" % len(fm))
        return sorted(fm[f] for f in K)

    out = []
    for ev in events:
        k = ev[0]
        if k in ("decl", "repr", "drop"):
            out.append([k, p(ev[1])])
        elif k == "strict":
            out.append([k, p(ev[1]), p(ev[2])])
        else:
            out.append([k, p(ev[1]), p(ev[2]), fs(ev[3] if len(ev) > 3 else [])])
    return out


def is_nontrivial(events):
    steps = [e for e in events if e[0] in ("derive", "assert")]
    return len(steps) >= 2 and any(e[3] for e in steps if len(e) > 3)


def feature_of(m, events):
    """Mechanism label of a mismatch on a (minimised) history; no random values."""
    if m.get("model") is None:
        return "different_origin"
    if m["a"] == m["b"]:
        return "self_pair"
    steps = [e for e in events if e[0] in ("derive", "assert")]
    first = {}
    for i, e in enumerate(steps):
        for f in e[3] if len(e) > 3 else []:
            first.setdefault(f, i)
    if any(i > 0 for i in first.values()):
        return "field_first_seen_after_union"
    if first:
        return "modulo_step"
    return "plain"


def ddmin(items, test):
    """Shrink `items` while test(items) stays true (complement removal, then 1-minimal)."""
    if test([]):
        return []
    n = 2
    items = list(items)
    while len(items) >= 2:
        chunk = max(1, len(items) // n)
        removed = False
        i = 0
        while i < len(items):
            cand = items[:i] + items[i + chunk :]
            if cand != items and test(cand):
                items = cand
                n = max(n - 1, 2)
                removed = True
            else:
                i += chunk
        if not removed:
            if chunk == 1:
                break
            n = min(len(items), n * 2)
    return items


def _same(target):
    return lambda mm: [m for m in mm if (m["kind"], m["query"]) == target]


def minimise_synth(events, target, sweep):
    """Returns (events, sweep, mismatch) reproducing `target` in fresh state, or None."""
    same = _same(target)

    def fails(ev, mode):
        return same(run_fresh(ev, mode)[0])

    mode = m = None
    for s in (sweep, "each", "end"):
        hit = fails(events, s)
        if hit:
            mode, m = s, hit[0]
            break
    if mode is None:
        return None
    # first choice: replace the sweeps by the one failing query (robust under shrinking)
    if m["query"] == "check_eqv_proc":
        q = ["check", m["a"], m["b"], m["K"]]
    elif m["query"] == "get_strictest_eqv_proc":
        q = ["strict", m["a"], m["b"]]
    else:
        q = ["repr", m["a"]]
    if fails(events + [q], "none"):
        ev = ddmin(events, lambda c: bool(fails(c + [q], "none"))) + [q]
        for cand in (canon(ev), ev):
            hit = fails(cand, "none")
            if hit:
                return cand, "none", hit[0]
    # otherwise shrink under the sweep mode that reproduced it
    ev = ddmin(events, lambda c: bool(fails(c, mode)))
    for cand in (canon(ev), ev, events):
        hit = fails(cand, mode)
        if hit:
            return cand, mode, hit[0]
    return None


def detail_synth(events, sweep, m):
    lines = ["history (fresh proc_eqv state, procs are integers, fields are names):"]
    for e in events:
        lines.append("  " + json.dumps(e))
    lines.append("sweep mode: %s" % sweep)
    lines.append(
        "query %s(p%s, p%s%s): real=%s  model strictest=%s  => %s"
        % (
            m["query"],
            m["a"],
            m["b"],
            (", K=%s" % m["K"]) if m["query"] == "check_eqv_proc" else "",
            m["real"],
            m["model"],
            m["kind"],
        )
    )
    return "\n".join(lines)


def enum_histories():
    """All histories of the exhaustive sub-space, as (events) of length 1..EXH_LEN.
    Alphabet: decl of the next proc; derive of the next proc from any existing one
    with any subset of the two fields; assert_eqv of any ordered pair."""
    subsets = [[], [EXH_FIELDS[0]], [EXH_FIELDS[1]], list(EXH_FIELDS)]

    def rec(prefix, n):
        if prefix:
            yield prefix
        if len(prefix) == EXH_LEN:
            return
        if n < EXH_PROCS:
            yield from rec(prefix + [["decl", n]], n + 1)
            for a in range(n):
                for K in subsets:
                    yield from rec(prefix + [["derive", a, n, K]], n + 1)
        for a in range(n):
            for b in range(n):
                if a != b:
                    yield from rec(prefix + [["assert", a, b, []]], n)

    yield from rec([], 0)


def exh_counts():
    from functools import lru_cache

    @lru_cache(None)
    def cnt(n, L):
        if L == 0:
            return 1
        t = 0
        if n < EXH_PROCS:
            t += (1 + 4 * n) * cnt(n + 1, L - 1)
        t += n * (n - 1) * cnt(n, L - 1)
        return t

    return {L: cnt(0, L) for L in range(1, EXH_LEN + 1)}


# --------------------------------------------------------------------------- #
#   api workload

API_SRC = '''from __future__ import annotations
from exo import proc, config, DRAM
from exo.stdlib.scheduling import *


@config
class CFG:
    a: index
    b: size
    s: f32


@config
class CFG2:
    t: f32


@proc
def sub(N: size, x: R[N]):
    for i in seq(0, N):
        x[i] = x[i] + 1.0


@proc
def sub_twin(N: size, x: R[N]):
    for i in seq(0, N):
        x[i] = x[i] + 1.0


@proc
def foo(N: size, x: R[N], scale: f32):
    sub(N, x)
    for i in seq(0, N):
        for j in seq(0, 4):
            x[i] = x[i] * scale


@proc
def mat(N: size, M: size, A: R[N, M]):
    for i in seq(0, N):
        for j in seq(0, M):
            A[i, j] = 0.0
'''

ORDINARY = ("divide", "reorder", "simplify", "rename")
CONFIG_OPS = ("bind", "write", "delete")
SIGCHANGE = ("partial_eval", "transpose", "add_assertion")
_WRITES = [("CFG", "a", "3"), ("CFG2", "t", "scale"), ("CFG", "b", "4")]
_DELETES = ["CFG.a = _", "CFG2.t = _", "CFG.b = _"]
_modcount = [0]


def load_api_module(scratch):
    _modcount[0] += 1
    name = "c11m_%d_%d" % (os.getpid(), _modcount[0])
    path = Path(scratch) / (name + ".py")
    path.write_text(API_SRC)
    spec = importlib.util.spec_from_file_location(name, str(path))
    mod = importlib.util.module_from_spec(spec)
    sys.modules[name] = mod
    spec.loader.exec_module(mod)
    return mod


class ApiRun:
    """Executes one scheduling script on freshly imported procedures."""

    def __init__(self, mon, scratch):
        import exo.core.proc_eqv as pe

        self.pe = pe
        self.mon = mon
        self.scratch = scratch
        self.mod = load_api_module(scratch)
        install()  # rescan: the new module must not hold unwrapped names
        m = self.mod
        self.pool = {0: m.foo, 1: m.sub, 2: m.sub_twin, 3: m.mat}
        self.cfgs = {"CFG": m.CFG, "CFG2": m.CFG2}
        self.ops = Counter()
        self.sigpairs = []  # (src nid, dst nid) separated by a signature change
        self.accepted_steps = 0

    def nid(self, P):
        return self.mon.nid(P._loopir_proc)

    def _call_cursor(self, p):
        import exo.API_cursors as AC

        for c in p.body():
            if isinstance(c, AC.CallCursor):
                return c
        return None

    def op(self, o):
        """o = [kind, dst, src, ...]; result goes to slot dst."""
        import exo.stdlib.scheduling as S
        from exo.API import Procedure
        from exo.rewrite.new_eff import SchedulingError

        kind, dst = o[0], o[1]
        P = self.pool
        if kind == "reimport":
            m = load_api_module(self.scratch)
            install()
            P[dst], P[dst + 1] = m.foo, m.sub
            self.ops["reimport"] += 1
            return True
        if kind == "q":
            if o[1] in P and o[2] in P:
                self.query_pair(P[o[1]], P[o[2]])
            return True
        src = o[2]
        if src not in P or (kind in ("assert_eq", "call_eqv") and o[3] not in P):
            return False
        p = P[src]
        l0 = len(self.mon.log)
        try:
            if kind == "divide":
                loop = None
                for nm in ("i", "io", "j", "ii"):
                    try:
                        loop = p.find_loop(nm)
                        break
                    except Exception:
                        continue
                r = S.divide_loop(p, loop, 2, [loop.name() + "o", loop.name() + "i"], tail="cut")
            elif kind == "reorder":
                r = S.reorder_loops(p, "i j")
            elif kind == "simplify":
                r = S.simplify(p)
            elif kind == "rename":
                r = S.rename(p, "r%d" % dst)
            elif kind == "bind":
                r = S.bind_config(p, "scale", self.cfgs["CFG"], "s")
            elif kind == "write":
                c, f, rhs = _WRITES[o[3]]
                gap = p.body()[0].before() if o[3] != 1 else p.body()[-1].after()
                r = S.write_config(p, gap, self.cfgs[c], f, rhs)
            elif kind == "delete":
                r = None
                for j in range(len(_DELETES)):  # the first pattern (from o[3] on) that is present
                    try:
                        r = S.delete_config(p, _DELETES[(o[3] + j) % len(_DELETES)])
                        break
                    except SchedulingError as e:
                        if "failed to find matches" not in str(e):
                            raise
                if r is None:
                    raise ValueError("no config write to delete")
            elif kind == "assert_eq":
                p.unsafe_assert_eq(P[o[3]])
                self.ops["assert_eq"] += 1
                self.accepted_steps += 1
                return True
            elif kind == "partial_eval":
                r = p.partial_eval(N=8)
            elif kind == "transpose":
                r = p.transpose(p.args()[2])
            elif kind == "add_assertion":
                r = p.add_assertion("N > 1")
            elif kind == "reproc":
                r = Procedure(p.INTERNAL_proc())
            elif kind == "call_eqv":
                cur = self._call_cursor(p)
                if cur is None:
                    self.ops["rejected:call_eqv"] += 1
                    return False
                callee = self.mon.nid(cur._impl._node.f)
                new = self.nid(P[o[3]])
                conn = self.mon.model.connected(callee, new)
                try:
                    r = S.call_eqv(p, cur, P[o[3]])
                except SchedulingError as e:
                    if "not equivalent" in str(e):
                        self.ops["call_eqv_refused"] += 1
                        if conn:
                            self.mon._mismatch("imprecise", "call_eqv", callee, new, [], "refused", self.mon.model.strictest(callee, new))
                        return False
                    raise
                self.ops["call_eqv_accepted"] += 1
                if not conn:
                    self.mon._mismatch("unsound", "call_eqv", callee, new, [], "accepted", None)
            else:
                raise ValueError(kind)
        except Exception:
            self.ops["rejected:" + kind] += 1
            return False
        P[dst] = r
        self.ops[kind] += 1
        if kind in SIGCHANGE:
            if r is not p:
                na, nb = self.nid(p), self.nid(r)
                self.sigpairs.append((na, nb))
                # a signature-changing operation must not record a derivation step
                steps = [e for e in self.mon.log[l0:] if e[0] in ("derive", "assert")]
                self.mon.nq += 1
                if steps:
                    self.mon._mismatch("unsound", "step_recorded_by_" + kind, na, nb, [], json.dumps(steps[0]), None)
        elif kind != "reproc":
            self.accepted_steps += 1
        return True

    def query_pair(self, A, B):
        mon, pe = self.mon, self.pe
        a, b = A._loopir_proc, B._loopir_proc
        mon.driver += 1
        try:
            r = pe.get_strictest_eqv_proc(a, b)
            pe.check_eqv_proc(b, a)
            keys = sorted(r[1], key=mon.fname) if r[0] else []
            if keys:
                pe.check_eqv_proc(a, b, frozenset(keys))
                pe.check_eqv_proc(a, b, frozenset(keys[1:]))
        finally:
            mon.driver -= 1
        ie = A.is_eq(B)  # exo's own use of check_eqv_proc
        na, nb = mon.nid(a), mon.nid(b)
        S = mon.model.strictest(na, nb)
        exp = S is not None and not S
        mon.nq += 1
        if ie and not exp:
            mon._mismatch("unsound", "Procedure.is_eq", na, nb, [], ie, S)
        elif exp and not ie:
            mon._mismatch("imprecise", "Procedure.is_eq", na, nb, [], ie, S)

    def sweep(self):
        ks = sorted(self.pool)
        for i, x in enumerate(ks):
            for y in ks[i:]:
                self.query_pair(self.pool[x], self.pool[y])


def gen_script(rng, nops):
    """Random scheduling script; slot numbers are fixed so that ops can be dropped."""
    script = []
    slots = [0, 1, 2, 3]
    fam = {0: "foo", 1: "sub", 2: "sub", 3: "mat"}
    cfgw = []  # slots whose procedure (probably) contains a config write
    nxt = 4
    for _ in range(nops):
        x = rng.random()
        src = rng.choice(slots)
        if x < 0.30:
            o = [rng.choice(ORDINARY), nxt, src]
        elif x < 0.55:
            k = rng.choice(CONFIG_OPS)
            if k == "bind":
                src = rng.choice([s for s in slots if fam[s] == "foo"])
                o = ["bind", nxt, src]
            else:
                if k == "delete" and cfgw and rng.random() < 0.9:
                    src = rng.choice(cfgw)
                o = [k, nxt, src, rng.randrange(3)]
        elif x < 0.63:
            o = ["assert_eq", nxt, src, rng.choice(slots)]
        elif x < 0.75:
            k = rng.choice(SIGCHANGE)
            if k == "transpose":
                src = rng.choice([s for s in slots if fam[s] == "mat"])
            o = [k, nxt, src]
        elif x < 0.90:
            src = rng.choice([s for s in slots if fam[s] == "foo"])
            o = ["call_eqv", nxt, src, rng.choice([s for s in slots if fam[s] != "mat"])]
        elif x < 0.95:
            o = ["reproc", nxt, src]
        else:
            o = ["reimport", nxt]
        script.append(o)
        if o[0] == "reimport":
            slots += [nxt, nxt + 1]
            fam[nxt], fam[nxt + 1] = "foo", "sub"
            nxt += 2
        elif o[0] != "assert_eq":
            slots.append(nxt)
            fam[nxt] = fam[src]
            if o[0] in ("write", "bind") or (src in cfgw and o[0] != "delete"):
                cfgw.append(nxt)
            script.append(["q", src, nxt])
            nxt += 1
        for _ in range(2):
            script.append(["q", rng.choice(slots), rng.choice(slots)])
    return script


def run_script(mon, scratch, script):
    m0 = len(mon.mism)
    l0 = len(mon.log)
    run = ApiRun(mon, scratch)
    for o in script:
        run.op(o)
    run.sweep()
    mm = mon.mism[m0:]
    # label mismatches that straddle a signature-changing operation
    sig_nodes = {d for _, d in run.sigpairs}
    for m in mm:
        m["sigchange"] = m["a"] in sig_nodes or m["b"] in sig_nodes
    return mm, run, mon.log[l0:]


def api_feature(m):
    if m.get("sigchange") and m.get("model") is None:
        return "signature_change"
    if m.get("model") is None:
        return "different_origin"
    if m["a"] == m["b"]:
        return "self_pair"
    return "modulo_step" if m["model"] else "plain"


def detail_api(script, m, hist):
    lines = ["script (op, dst slot, src slot, ...) on freshly imported foo=0 sub=1 sub_twin=2 mat=3:"]
    lines += ["  " + json.dumps(o) for o in script if o[0] != "q"]
    lines.append("recorded history at the proc_eqv boundary (node ids of this process):")
    lines += ["  " + json.dumps(e) for e in hist[:60]]
    lines.append(
        "query %s(n%s, n%s, K=%s): real=%s  model strictest=%s  => %s"
        % (m["query"], m["a"], m["b"], m["K"], m["real"], m["model"], m["kind"])
    )
    return "\n".join(lines)


# --------------------------------------------------------------------------- #
#   driver contract


def plan(tier, seed):
    if tier == "thorough":
        return {
            "nshards": 32,
            "params": {
                "soft_s": 600,
                "n_iso": 6000,
                "n_shared": 500,
                "n_api": 120,
                "exhaustive": True,
                "field_cap": 32,
            },
            "hard_timeout_s": 1500,
        }
    return {
        "nshards": 16,
        "params": {
            "soft_s": 240,
            "n_iso": 320,
            "n_shared": 120,
            "n_api": 24,
            "exhaustive": False,
            "field_cap": 24,
        },
        "hard_timeout_s": 2400,
    }


class _Found(Exception):
    pass


def _verify_fresh_process(case, target):
    """Replay a candidate witness in a fresh interpreter."""
    try:
        with tempfile.NamedTemporaryFile("w", suffix=".json", delete=False) as f:
            json.dump({"case": case}, f)
        r = subprocess.run(
            [sys.executable, "-m", "vf.replay", PROP, f.name],
            cwd=str(common.VERIF),
            capture_output=True,
            text=True,
            timeout=300,
        )
        os.unlink(f.name)
        for line in reversed(r.stdout.splitlines()):
            if line.startswith("REPLAY-RESULT "):
                return bool(json.loads(line[len("REPLAY-RESULT ") :]).get("reproduced"))
    except Exception:
        pass
    return False


def shard(ctx, stop_on=None):
    """stop_on = (kind, query): replay mode, raise _Found at the first such mismatch."""
    P = ctx.params
    rng = ctx.rng
    emitted = set()
    shard_case = {
        "workload": "shard",
        "shard": ctx.shard,
        "nshards": ctx.nshards,
        "seed": ctx.seed,
        "tier": ctx.tier,
        "params": {k: v for k, v in P.items() if k != "soft_s"},
    }

    def report(mm, kind_of_run, events=None, sweep=None, script=None, hist=None, fallback_events=None):
        for m in mm:
            target = (m["kind"], m["query"])
            if stop_on is not None:
                if tuple(stop_on) == target:
                    raise _Found(json.dumps(m, default=str))
                continue
            ctx.stat("mismatch_%s_%s" % target)
            if target in emitted:
                continue
            emitted.add(target)
            case = sig = None
            if kind_of_run == "synthetic":
                res = minimise_synth(events, target, sweep)
                if res is None and fallback_events is not None:
                    res = minimise_synth(fallback_events, target, "end")
                if res is not None:
                    ev, mode, m2 = res
                    case = {"workload": "synthetic", "sweep": mode, "events": ev, "target": list(target)}
                    sig = {"monitor": "eqv-model", "kind": m2["kind"], "query": m2["query"], "feature": feature_of(m2, ev)}
            else:
                same = _same(target)
                test = lambda sc: bool(same(run_script(mon_shared, ctx.scratch, sc)[0]))  # noqa: E731
                saved, saved_nq = Counter(mon_shared.counts), mon_shared.nq  # re-runs are not coverage
                if test(script):
                    sc = ddmin(script, test)
                    mm2 = same(run_script(mon_shared, ctx.scratch, sc)[0])
                    if mm2:
                        m2 = mm2[0]
                        case = {"workload": "api", "script": sc, "target": list(target)}
                        sig = {"monitor": "eqv-model", "kind": m2["kind"], "query": m2["query"], "feature": api_feature(m2)}
                mon_shared.counts, mon_shared.nq = saved, saved_nq
            if case is None or not _verify_fresh_process(case, target):
                ctx.stat("witness_needs_whole_shard")
                case = dict(shard_case, target=list(target))
                sig = {"monitor": "eqv-model", "kind": m["kind"], "query": m["query"], "feature": "state_dependent"}
            ctx.violation(sig, case)

    def flush_mon(mon, prefix):
        for k, n in mon.counts.items():
            ctx.stat(prefix + k.replace(":", "_"), n)
        mon.counts.clear()
        ctx.stat("queries_compared", mon.nq)
        mon.nq = 0
        if mon.errors:
            ctx.inconclusive("monitor_error")
            sys.stderr.write(mon.errors[0])
            mon.errors.clear()

    def account(events, kind_of_run, sweep, mon, synth):
        ctx.stat("evaluations")
        ctx.stat("histories_" + kind_of_run)
        ctx.stat("events", len(events))
        ctx.stat("steps", sum(1 for e in events if e[0] in ("derive", "assert")))
        c = canon(events)
        ctx.distinct(common.jhash(c), is_nontrivial(c))
        if any(e[0] == "derive" and e[3] for e in c):
            first = feature_of({"model": [], "a": 0, "b": 1}, c)
            ctx.stat("hist_" + first)

    # ---- (0) exhaustive sub-space ------------------------------------------
    if P.get("exhaustive"):
        idx = 0
        for ev in enum_histories():
            idx += 1
            if idx % ctx.nshards != ctx.shard:
                continue
            modes = ["end"] + (["each"] if len(ev) == EXH_LEN else [])
            for mode in modes:
                mm, mon, synth = run_fresh(ev, mode, naive_every=97)
                ctx.stat("exh_runs")
                ctx.stat("exh_runs_" + mode)
                ctx.stat("exh_queries", mon.nq)
                ctx.stat("queries_compared", mon.nq)
                ctx.stat("model_selfcheck", mon.counts["model_selfcheck"])
                ctx.stat("model_selfcheck_failed", mon.counts["model_selfcheck_failed"])
                if mon.errors:
                    ctx.inconclusive("monitor_error")
                if mm:
                    report(mm, "synthetic", events=ev, sweep=mode)
            ctx.stat("exh_histories")
        ctx.stat("exh_enumerated_by_shard", idx)

    # ---- fixed hazard shapes ------------------------------------------------
    if ctx.shard == 0:
        for ev in FIXED:
            for mode in ("each", "end"):
                mm, mon, synth = run_fresh(ev, mode, naive_every=1)
                account(ev, "fixed", mode, mon, synth)
                ctx.stat("model_selfcheck", mon.counts.pop("model_selfcheck", 0))
                ctx.stat("model_selfcheck_failed", mon.counts.pop("model_selfcheck_failed", 0))
                flush_mon(mon, "iso_")
                if mm:
                    report(mm, "synthetic", events=ev, sweep=mode)

    # ---- (1) synthetic, isolated fresh instance per history -----------------
    n_iso = int(P.get("n_iso", 0))
    for h in range(n_iso):
        if ctx.out_of_time():
            ctx.stat("stopped_early_iso")
            break
        nf = rng.randint(1, 4)
        fields = ["f%d" % i for i in range(nf)]
        ev, made = gen_history(rng, 0, fields)
        sweep = "each" if rng.random() < 0.8 else "end"
        mm, mon, synth = run_fresh(ev, sweep, naive_every=53)
        account(ev, "isolated", sweep, mon, synth)
        ctx.stat("model_selfcheck", mon.counts.pop("model_selfcheck", 0))
        ctx.stat("model_selfcheck_failed", mon.counts.pop("model_selfcheck_failed", 0))
        mon_nq = mon.nq
        flush_mon(mon, "iso_")
        if h < 1:
            ctx.sample(
                {
                    "workload": "synthetic/isolated",
                    "sweep": sweep,
                    "events": canon(ev),
                    "compared": "%d query answers of a fresh proc_eqv instance vs the model, 0 mismatches" % (mon_nq,)
                    if not mm
                    else "mismatch",
                }
            )
        if mm:
            report(mm, "synthetic", events=ev, sweep=sweep)

    # ---- (2)+(3) shared real module: synthetic histories interleaved with api scripts
    mon_shared = install()
    synth = Synth(mon_shared)
    n_shared = int(P.get("n_shared", 0))
    n_api = int(P.get("n_api", 0))
    field_cap = int(P.get("field_cap", 24))
    per_round = max(1, n_shared // max(1, n_api))
    shared_log = []
    next_id = 1_000_000  # synthetic ids; api nodes get small ids from the monitor
    old_pool = []
    nfields = 0
    done_shared = done_api = 0
    while done_shared < n_shared or done_api < n_api:
        if ctx.out_of_time():
            ctx.stat("stopped_early_shared")
            break
        for _ in range(per_round):
            if done_shared >= n_shared:
                break
            nf = rng.randint(1, 4)
            fields = []
            for _i in range(nf):
                if nfields < field_cap and (nfields == 0 or rng.random() < 0.45):
                    fields.append("g%d" % nfields)
                    nfields += 1
                    ctx.stat("shared_fresh_fields")
                else:
                    f = "g%d" % rng.randrange(nfields)
                    if f not in fields:
                        fields.append(f)
            old = rng.sample(old_pool, min(2, len(old_pool)))
            old = [o for o in old if o in synth.procs]
            ev, made = gen_history(rng, next_id, fields, old=old, cross=bool(old) and rng.random() < 0.4)
            sweep = "each" if rng.random() < 0.7 else "end"
            mm = run_history(synth, ev, sweep, extra_nodes=old)
            shared_log += ev
            account(ev, "shared", sweep, mon_shared, synth)
            live_new = [n for n in range(next_id, next_id + made) if n in synth.procs]
            if live_new:
                old_pool.append(rng.choice(live_new))
            next_id += made
            done_shared += 1
            if done_shared <= 1:
                ctx.sample({"workload": "synthetic/shared", "sweep": sweep, "fields": fields, "events": canon(ev)})
            if mm:
                report(mm, "synthetic", events=ev, sweep=sweep, fallback_events=list(shared_log))
        if done_api < n_api:
            script = gen_script(rng, rng.randint(4, 14))
            mm, run, hist = run_script(mon_shared, ctx.scratch, script)
            done_api += 1
            ctx.stat("evaluations")
            ctx.stat("histories_api")
            ctx.stat("api_ops_accepted", sum(n for k, n in run.ops.items() if not k.startswith("rejected")))
            for k, n in run.ops.items():
                ctx.stat("api_op_" + k.replace(":", "_"), n)
            ctx.stat("events", len(hist))
            ctx.stat("api_sigchange_pairs", len(run.sigpairs))
            ctx.stat("api_steps_nonempty_modulo", sum(1 for e in hist if e[0] == "derive" and e[3]))
            shape = [o for o in script if o[0] != "q"]
            ctx.distinct(common.jhash(["api", shape]), run.accepted_steps > 0)
            if done_api <= 1:
                ctx.sample({"workload": "api", "script": shape, "recorded_history": hist[:40]})
            if mm:
                report(mm, "api", script=script, hist=hist)
    ctx.stat("model_selfcheck", mon_shared.counts.pop("model_selfcheck", 0))
    ctx.stat("model_selfcheck_failed", mon_shared.counts.pop("model_selfcheck_failed", 0))
    ctx.stat("patched_names", len(set(mon_shared.patched)))
    flush_mon(mon_shared, "wrap_")


def finish(agg, tier):
    s = agg.stats
    inc = []
    hist = s.get("histories_isolated", 0) + s.get("histories_shared", 0)
    need_hist = 3000 if tier == "quick" else 20000
    need_q = 300_000 if tier == "quick" else 5_000_000
    if hist < need_hist:
        inc.append("only %d synthetic histories (< %d)" % (hist, need_hist))
    if s.get("queries_compared", 0) < need_q:
        inc.append("only %d queries compared (< %d)" % (s.get("queries_compared", 0), need_q))
    for name, low in (
        ("wrap_exo_derive_proc", 100),
        ("wrap_exo_decl_new_proc", 100),
        ("wrap_exo_assert_eqv_proc", 10),
        ("wrap_exo_check_eqv_proc", 100),
        ("wrap_exo_get_strictest_eqv_proc", 20),
    ):
        if s.get(name, 0) < low:
            inc.append("wrapper %s evaluated by exo only %d times (< %d)" % (name, s.get(name, 0), low))
    if s.get("api_sigchange_pairs", 0) < 10:
        inc.append("fewer than 10 signature-changing operations observed")
    if s.get("model_selfcheck_failed", 0):
        inc.append("reference model disagrees with its naive form %d times" % s["model_selfcheck_failed"])
    if s.get("model_selfcheck", 0) < 100:
        inc.append("reference model self-check ran fewer than 100 times")
    cov = {
        "histories": {
            "isolated": s.get("histories_isolated", 0),
            "shared": s.get("histories_shared", 0),
            "api_scripts": s.get("histories_api", 0),
            "exhaustive": s.get("exh_histories", 0),
            "fixed_hazard_shapes": s.get("histories_fixed", 0),
        },
        "events": s.get("events", 0),
        "queries_compared": s.get("queries_compared", 0),
        "wrapper_evaluations_by_exo": {k[len("wrap_exo_") :]: v for k, v in s.items() if k.startswith("wrap_exo_")},
        "wrapper_evaluations_by_driver": {k[len("wrap_drv_") :]: v for k, v in s.items() if k.startswith("wrap_drv_")},
        "imprecise_is_violation": True,
    }
    if tier == "thorough":
        cnt = exh_counts()
        total = sum(cnt.values())
        ok = s.get("exh_histories", 0) == total and s.get("exh_runs_each", 0) == cnt[EXH_LEN]
        cov["exhaustive_subspace"] = bool(ok)
        cov["exhaustive_subspace_size"] = {
            "histories": total,
            "by_length": cnt,
            "runs": s.get("exh_runs", 0),
            "what": "every history over <=%d procs, %d fields, <=%d events (alphabet: decl next proc; "
            "derive next proc from any proc with any subset of the fields; assert_eqv of any ordered "
            "pair), each in a fresh proc_eqv instance, all pairs queried at the end; histories of "
            "length %d also with all pairs queried after every event" % (EXH_PROCS, len(EXH_FIELDS), EXH_LEN, EXH_LEN),
        }
        if not ok:
            inc.append("exhaustive sub-space incomplete: %d of %d histories" % (s.get("exh_histories", 0), total))
    return {"evaluations": int(s.get("evaluations", 0) + s.get("exh_histories", 0)), "coverage": cov, "inconclusive": inc}


def replay(case):
    wl = case.get("workload")
    target = tuple(case.get("target") or ())
    if wl == "synthetic":
        mm, mon, synth = run_fresh(case["events"], case.get("sweep", "end"))
        hit = [m for m in mm if not target or (m["kind"], m["query"]) == target]
        if not hit:
            return {"reproduced": False, "sig": None, "detail": "no mismatch; %d queries compared" % mon.nq}
        m = hit[0]
        sig = {"monitor": "eqv-model", "kind": m["kind"], "query": m["query"], "feature": feature_of(m, case["events"])}
        return {"reproduced": True, "sig": sig, "detail": detail_synth(case["events"], case.get("sweep", "end"), m)}
    if wl == "api":
        mon = install()
        scratch = tempfile.mkdtemp(prefix="vf_C11_replay_")
        try:
            mm, run, hist = run_script(mon, scratch, case["script"])
        finally:
            import shutil

            shutil.rmtree(scratch, ignore_errors=True)
        hit = [m for m in mm if not target or (m["kind"], m["query"]) == target]
        if not hit:
            return {"reproduced": False, "sig": None, "detail": "no mismatch; %d queries compared" % mon.nq}
        m = hit[0]
        sig = {"monitor": "eqv-model", "kind": m["kind"], "query": m["query"], "feature": api_feature(m)}
        return {"reproduced": True, "sig": sig, "detail": detail_api(case["script"], m, hist)}
    if wl == "shard":
        from vf.workers import ShardCtx

        params = dict(case["params"])
        params["soft_s"] = 1e9
        ctx = ShardCtx(PROP, case["shard"], case["nshards"], case["seed"], case["tier"], None, params)
        try:
            shard(ctx, stop_on=target)
        except _Found as e:
            sig = {"monitor": "eqv-model", "kind": target[0], "query": target[1], "feature": "state_dependent"}
            return {"reproduced": True, "sig": sig, "detail": "whole-shard replay: " + str(e)}
        finally:
            import shutil

            shutil.rmtree(ctx.scratch, ignore_errors=True)
        return {"reproduced": False, "sig": None, "detail": "whole-shard replay found no such mismatch"}
    return {"reproduced": False, "sig": None, "detail": "unknown workload %r" % (wl,)}
