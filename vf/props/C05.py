"""C05 replace only substitutes true instances of the callee (DESIGN.md section 3/C05)."""

import random
import signal

from exo.core.LoopIR import LoopIR, T

from .. import irutil, equiv
from ..common import jhash, CaseTimeout
from ..gen_prog import load_program, HEADER
from ..gen_sched import Session, apply_step, D_node, D_block
from ..gen_input import InputSpec
from ..stream import sstr, mk_case
from ..stream_driver import CollectCtx

PROP = "C05"
LEVEL = "exploration"
RULE = (
    "kernel/callee pairs: a kernel is obtained by inlining a call to a generated sub-procedure (window, size, index and "
    "scalar parameters, optional guards) at generated call sites (offset windows, column windows with non-unit stride, "
    "partially overlapping operands, symbolic and constant sizes) and then replace() is attempted on the inlined block "
    "with (a) the same callee (round trip), (b) a stricter variant carrying extra assertions (stride, size, index "
    "range), (c) near-miss callees (other operator, shifted index, transposed access, swapped operands) and (d) x86 "
    "load/store/arithmetic instructions against loops of their shape; whenever unification succeeds the result is "
    "judged in the reference interpreter against the kernel (equal final state; no callee assertion, size, shape or "
    "aliasing event at the new call; accesses stay inside the passed windows) and inline(replace(p)) is compared with "
    "p; distinct by (alpha fingerprint of kernel, callee variant)"
)
ASSUMPTIONS = ["callee semantics = its Exo body (instructions too)", "inputs include non-unit strides for window arguments of the kernel"]

PREC = "f32"


def gen_pair(rng):
    """module text with callee variants and a root that calls `f`; returns (text, meta)"""
    two_d = rng.random() < 0.5
    op = rng.choice(["+", "*"])
    reduce = rng.random() < 0.3
    has_scalar = rng.random() < 0.4
    has_idx = rng.random() < 0.3
    shift = rng.choice([0, 0, 1])
    sig = ["n: size", f"dst: [{PREC}][n]", f"src: [{PREC}][n{' + 1' if shift else ''}]"]
    if has_scalar:
        sig.append(f"s: {PREC}")
    if has_idx:
        sig.append("k: index")
    rhs = f"src[i{' + 1' if shift else ''}]"
    if has_scalar:
        rhs = f"{rhs} {op} s"
    else:
        rhs = f"{rhs} {op} 2.0"
    body = []
    ind = "        "
    if has_idx:
        body.append("    for i in seq(0, n):")
        body.append("        if i >= k:")
        body.append(f"            dst[i] {'+=' if reduce else '='} {rhs}")
    else:
        body.append("    for i in seq(0, n):")
        body.append(f"        dst[i] {'+=' if reduce else '='} {rhs}")

    def proc(name, asserts=(), body_override=None):
        lines = ["@proc", f"def {name}({', '.join(sig)}):"]
        if has_idx:
            lines.append("    assert k >= 0")
        for a in asserts:
            lines.append(f"    assert {a}")
        lines += body_override or body
        return "\n".join(lines) + "\n\n"

    strict_kind = rng.choice(["stride", "size", "size_mod", "idx"] if has_idx else ["stride", "size", "size_mod"])
    strict_asserts = {
        "stride": ["stride(src, 0) == 1", "stride(dst, 0) == 1"],
        "size": ["n >= 4"],
        "size_mod": ["n % 2 == 0"],
        "idx": ["k <= 1"],
    }[strict_kind]
    # near misses
    other_op = "*" if op == "+" else "+"
    nm_kind = rng.choice(["op", "shift", "const", "reduce"])
    nm_body = list(body)
    if nm_kind == "op":
        nm_body = [l.replace(f" {op} ", f" {other_op} ") for l in body]
    elif nm_kind == "shift":
        nm_body = [l.replace("src[i + 1]", "src[i]") if shift else l.replace("src[i]", "src[i + 0]").replace("dst[i]", "dst[i]") for l in body]
        if not shift:
            nm_body = [l.replace("src[i + 0]", "src[n - 1 - i]") for l in nm_body]
    elif nm_kind == "const":
        nm_body = [l.replace("2.0", "3.0") for l in body] if not has_scalar else [l.replace(" s", " s * 1.0 + 0.0 * s") for l in body]
    else:
        nm_body = [l.replace(" += ", " = ") if reduce else l.replace("] = ", "] += ") for l in body]
    text = [HEADER, proc("f"), proc("f_strict", strict_asserts), proc("g_other", body_override=nm_body)]
    # root with a call site
    E = rng.choice(["n", "n", "4", "6", "m"])
    rsig = ["n: size", "m: size"]
    asserts = []
    if E == "m":
        pass
    if two_d:
        win_kind = rng.choice(["row", "col", "col"])
        rsig += [f"A: [{PREC}][n + 2, m + 2]" if rng.random() < 0.5 else f"A: {PREC}[n + 2, m + 2]", f"B: {PREC}[n + 3, m + 3]"]
        if win_kind == "row":
            Ew = rng.choice(["m", "m + 1", "3"])
            dstw = f"A[{rng.choice(['0', '1', 'n'])}, {0 if rng.random()<0.5 else 1}:{Ew} + {0}]".replace(" + 0]", "]")
            lo = rng.choice([0, 1])
            dstw = f"A[{rng.choice(['0', '1'])}, {lo}:{lo} + {Ew}]"
            lo2 = rng.choice([0, 2])
            srcw = f"B[{rng.choice(['0', '2'])}, {lo2}:{lo2} + {Ew}{' + 1' if shift else ''}]"
            size = Ew
        else:
            Ew = rng.choice(["n", "n + 1", "2"])
            lo = rng.choice([0, 1])
            dstw = f"A[{lo}:{lo} + {Ew}, {rng.choice(['0', '1'])}]"
            lo2 = rng.choice([0, 1])
            srcw = f"B[{lo2}:{lo2} + {Ew}{' + 1' if shift else ''}, {rng.choice(['0', '2'])}]"
            size = Ew
    else:
        rsig += [f"A: [{PREC}][n + 4]" if rng.random() < 0.4 else f"A: {PREC}[n + 4]", f"B: {PREC}[n + 6]"]
        Ew = rng.choice(["n", "n + 2", "4", "3"])
        lo = rng.choice([0, 1, 2])
        dstw = f"A[{lo}:{lo} + {Ew}]"
        lo2 = rng.choice([0, 1])
        srcw = f"B[{lo2}:{lo2} + {Ew}{' + 1' if shift else ''}]"
        size = Ew
        if rng.random() < 0.2:
            # overlapping operands from one buffer (front end may reject: fine)
            srcw = f"A[{lo + 1}:{lo + 1} + {Ew}{' + 1' if shift else ''}]" if False else srcw
    args = [size, dstw, srcw]
    if has_scalar:
        rsig.append(f"sc: {PREC}")
        args.append("sc")
    if has_idx:
        args.append(rng.choice(["0", "1", "2"]))
    pre = rng.choice(["", f"    A[{', '.join(['0'] * (2 if two_d else 1))}] = 1.0\n"])
    wrap = rng.random() < 0.4
    lines = ["@proc", f"def root({', '.join(rsig)}):", pre.rstrip("\n")] if pre else ["@proc", f"def root({', '.join(rsig)}):"]
    post = rng.choice(["", "", f"B[{', '.join(['0'] * (2 if two_d else 1))}] = 3.0"])
    if wrap:
        lines.append("    for t in seq(0, 2):")
        if not two_d and rng.random() < 0.6 and lo + 2 <= 4:
            # window offsets that depend on the enclosing iterator, the constant written on the
            # right of the product as often as on the left
            prod = rng.choice(["t * 2", "2 * t", "t * 1", "t"])
            args[1] = args[1].replace(f"[{lo}:{lo} + ", f"[{prod}:{prod} + ", 1)
        lines.append(f"        f({', '.join(args)})")
        if post:
            lines.append("        " + post)
    else:
        lines.append(f"    f({', '.join(args)})")
        if post:
            lines.append("    " + post)
    text.append("\n".join(l for l in lines if l) + "\n")
    return "".join(text), {"two_d": two_d, "strict": strict_kind, "near_miss": nm_kind, "wrap": wrap}


CMPS = ["<", "<=", ">=", "==", ">"]


def gen_guard_pair(rng):
    """callee whose body is guarded by comparisons / bool parameters; the root contains a
    hand-instantiated copy of the body (so that the kernel can be a near miss of the callee:
    another comparison operator, another bool condition, operands swapped)"""
    n = rng.choice([4, 6, 8])
    kind = rng.choice(["cmp", "cmp", "bool1", "bool2"])
    lines = [HEADER]
    if kind == "cmp":
        op = rng.choice(CMPS)
        lines.append(f"""@proc
def f(n: size, k: index, dst: [f32][n]):
    assert k >= 0
    for i in seq(0, n):
        if i {op} k:
            dst[i] = 1.0

""")
        kv = rng.choice([0, 1, 3])
        # kernel: same guard (instance) or another operator (near miss)
        miss = rng.random() < 0.6
        op2 = rng.choice([o for o in CMPS if o != op]) if miss else op
        lines.append(f"""@proc
def root(a: f32[{n}], m: size):
    for i in seq(0, {n}):
        if i {op2} {kv}:
            a[i] = 1.0
""")
        meta = {"family": "guard-cmp", "op": op, "kernel_op": op2, "near_miss": miss}
    elif kind == "bool1":
        lines.append(f"""@proc
def f(n: size, b: bool, dst: [f32][n]):
    for i in seq(0, n):
        if b:
            dst[i] = 2.0

""")
        cond = rng.choice(["m < 4", "m > 2", "i < m", "i + 1 < m", "m == 3"])
        lines.append(f"""@proc
def root(a: f32[{n}], m: size):
    for i in seq(0, {n}):
        if {cond}:
            a[i] = 2.0
""")
        meta = {"family": "guard-bool", "cond": cond, "near_miss": "i" in cond.split()[0]}
    else:
        lines.append(f"""@proc
def f(b: bool, d1: [f32][4], d2: [f32][4]):
    if b:
        d1[0] = 1.0
    d2[0] = 1.0
    if b:
        d2[0] = 0.0

""")
        c1 = rng.choice(["m < 4", "m > 2"])
        miss = rng.random() < 0.6
        c2 = rng.choice(["m > 4", "m < 2", "m <= 4", "m == 4"]) if miss else c1
        lines.append(f"""@proc
def root(a: f32[4], c: f32[4], m: size):
    if {c1}:
        a[0] = 1.0
    c[0] = 1.0
    if {c2}:
        c[0] = 0.0
""")
        meta = {"family": "guard-bool2", "c1": c1, "c2": c2, "near_miss": miss}
    return "".join(lines), meta


def one_guard(ctx, rng, ninputs):
    text, meta = gen_guard_pair(rng)
    try:
        mod = load_program(text, ctx.scratch)
    except CaseTimeout:
        raise
    except Exception:
        ctx.stat("programs.rejected")
        return
    ctx.stat("programs.accepted")
    sess = Session(mod, "root", text)
    kernel = sess.cur
    nb = len(kernel._loopir_proc.body)
    st = {"op": "replace", "args": [{"k": "block", "path": [], "attr": "body", "lo": 0, "hi": nb}, {"k": "proc", "name": "f"}, {"k": "lit", "v": True}], "kw": {}}
    r = apply_step(sess, st)
    variant = "guard-miss" if meta.get("near_miss") else "guard-same"
    ctx.stat("replace.attempted." + variant)
    if r.status != "accepted":
        ctx.stat("replace.rejected." + variant)
        return
    ctx.stat("replace.accepted." + variant)
    judge(ctx, sess, kernel, r.proc, variant, meta, ninputs)


def gen_dense_pair(rng):
    """callee with *dense* tensor formals of fixed extents (rank 1-2) and a root whose block is a
    hand-instantiated copy of its body on buffers of the same rank whose extents equal the formal's
    (instance) or exceed them in one dimension (the block works on a corner: not an instance, the
    callee would address the buffer with its own row pitch)"""
    rank = rng.choice([1, 2, 2])
    R, C = rng.choice([2, 3, 4]), rng.choice([3, 4])
    grow = rng.choice([None, None, "last", "first"]) if rank == 2 else rng.choice([None, "last"])
    R2 = R + (rng.choice([1, 2]) if grow == "first" else 0)
    C2 = C + (rng.choice([1, 4]) if grow == "last" else 0)
    two = rng.random() < 0.5  # second dense operand
    rhs_k = rng.choice(["1.0", "x", "x2"]) if two else rng.choice(["1.0", "1.0", "x"])
    op = rng.choice(["=", "+="])
    if rank == 2:
        fs = f"x: f32[{R}, {C}]" + (f", y: f32[{R}, {C}]" if two else "")
        rs = f"a: f32[{R2}, {C2}]" + (f", b: f32[{R}, {C}]" if two else "")
        def body(x, y):
            r = {"1.0": "1.0", "x": f"{x}[i, j] * 2.0", "x2": f"{y}[i, j]"}[rhs_k]
            return f"    for i in seq(0, {R}):\n        for j in seq(0, {C}):\n            {x}[i, j] {op} {r}\n"
    else:
        fs = f"x: f32[{C}]" + (f", y: f32[{C}]" if two else "")
        rs = f"a: f32[{C2}]" + (f", b: f32[{C}]" if two else "")
        def body(x, y):
            r = {"1.0": "1.0", "x": f"{x}[j] * 2.0", "x2": f"{y}[j]"}[rhs_k]
            return f"    for j in seq(0, {C}):\n        {x}[j] {op} {r}\n"
    text = HEADER + f"@proc\ndef f({fs}):\n{body('x', 'y')}\n\n@proc\ndef root({rs}, m: size):\n{body('a', 'b')}"
    return text, {"family": "dense", "rank": rank, "grow": grow, "near_miss": grow is not None}


def one_dense(ctx, rng, ninputs):
    text, meta = gen_dense_pair(rng)
    try:
        mod = load_program(text, ctx.scratch)
    except CaseTimeout:
        raise
    except Exception:
        ctx.stat("programs.rejected")
        return
    ctx.stat("programs.accepted")
    sess = Session(mod, "root", text)
    kernel = sess.cur
    nb = len(kernel._loopir_proc.body)
    st = {"op": "replace", "args": [{"k": "block", "path": [], "attr": "body", "lo": 0, "hi": nb}, {"k": "proc", "name": "f"}, {"k": "lit", "v": True}], "kw": {}}
    r = apply_step(sess, st)
    variant = "dense-miss" if meta.get("near_miss") else "dense-same"
    ctx.stat("replace.attempted." + variant)
    if r.status != "accepted":
        ctx.stat("replace.rejected." + variant)
        return
    ctx.stat("replace.accepted." + variant)
    judge(ctx, sess, kernel, r.proc, variant, meta, ninputs)


def find_call(ir):
    for p, s in irutil.all_stmts(ir):
        if isinstance(s, LoopIR.Call):
            return p, s
    return None, None


def judge(ctx, sess, kernel, result, variant, meta, ninputs):
    """kernel: Procedure before replace; result: Procedure after"""
    k_ir, r_ir = kernel._loopir_proc, result._loopir_proc
    ctx.stat("evaluations")
    ctx.stat("replace.judged." + variant)
    probs = irutil.validate(r_ir)
    if probs and not irutil.validate(k_ir):
        sig = {"prop": "C05", "monitor": "replace", "kind": "ill_scoped_result:" + probs[0]["kind"], "variant": variant}
        ctx.violation(sig, mk_case(sess, sess.steps, "replace", None, {"problems": probs, "variant": variant, "meta": meta, "kernel": sstr(kernel, 2500), "after": sstr(result, 2500)}))
        return
    j = equiv.judge(k_ir, r_ir, ctx.rng, ninputs)
    ctx.stat("inputs.judged", j["judged"])
    h = jhash([irutil.fingerprint(k_ir, alpha=True), variant])
    if j["verdict"] == "vacuous":
        ctx.stat("replace.vacuous")
        return
    ctx.distinct(h)
    if j["verdict"] != "same":
        wit = j["witness"] or {}
        ev = (wit.get("event") or {}) if isinstance(wit, dict) else {}
        kind = "result_differs" if j["verdict"] == "diff" else ("event:" + (ev.get("kind") or str(wit.get("aborted")))) if j["verdict"] == "new_event" else j["verdict"]
        sig = {"prop": "C05", "monitor": "replace", "kind": kind, "variant": variant, "strict": meta.get("strict") if variant == "strict" else None, "near_miss": meta.get("near_miss") if variant == "other" else None}
        ctx.violation(sig, mk_case(sess, sess.steps, "replace", j["spec"], {"witness": wit, "variant": variant, "meta": meta, "kernel": sstr(kernel, 2500), "after": sstr(result, 2500)}))
        return
    # inline(replace(p)) == p
    cp, cs = find_call(r_ir)
    if cp is not None:
        tmp = Session.__new__(Session)
        tmp.__dict__.update(sess.__dict__)
        tmp.procs = [result]
        tmp.steps = []
        r2 = apply_step(tmp, {"op": "inline", "args": [D_node(cp)], "kw": {}}, commit=False)
        if r2.status == "accepted":
            j2 = equiv.judge(k_ir, r2.proc._loopir_proc, ctx.rng, max(2, ninputs // 2))
            ctx.stat("replace.inline_roundtrip")
            if j2["verdict"] in ("diff", "new_event", "poison"):
                sig = {"prop": "C05", "monitor": "replace", "kind": "inline_of_replace_differs:" + j2["verdict"], "variant": variant}
                ctx.violation(sig, mk_case(sess, sess.steps, "replace", j2["spec"], {"witness": j2["witness"], "variant": variant, "meta": meta, "kernel": sstr(kernel, 2500), "after": sstr(r2.proc, 2500)}))
                return
    if ctx._nsamples < 2:
        ctx.sample({"variant": variant, "kernel": sstr(kernel, 900), "after_replace": sstr(result, 900), "inputs": j["judged"]}, limit=2)


def one(ctx, rng, ninputs):
    text, meta = gen_pair(rng)
    try:
        mod = load_program(text, ctx.scratch)
    except CaseTimeout:
        raise
    except Exception:
        ctx.stat("programs.rejected")
        return
    ctx.stat("programs.accepted")
    sess = Session(mod, "root", text)
    cp, cs = find_call(sess.cur._loopir_proc)
    if cp is None:
        return
    r = apply_step(sess, {"op": "inline", "args": [D_node(cp)], "kw": {}})
    if r.status != "accepted":
        ctx.stat("inline.rejected")
        return
    # inline() leaves `w = buf[...]` window statements in front of the body; inline
    # them (most of the time) so that the kernel accesses the buffers directly
    keep_windows = rng.random() < 0.25
    if not keep_windows:
        for _ in range(4):
            ws = [(p, s) for p, s in irutil.all_stmts(sess.cur._loopir_proc) if isinstance(s, LoopIR.WindowStmt)]
            if not ws:
                break
            rr = apply_step(sess, {"op": "inline_window", "args": [D_node(ws[0][0])], "kw": {}})
            if rr.status != "accepted":
                break
    if rng.random() < 0.5:
        apply_step(sess, {"op": "simplify", "args": [], "kw": {}})
    kernel = sess.cur
    ir = kernel._loopir_proc
    # the inlined body: first loop (or guarded statement) in the block where the call was
    par = cp[:-1]
    attr, i0 = cp[-1]
    parent = irutil.node_at(ir, par) if par else ir
    blk = getattr(parent, attr)
    tgt = None
    for k in range(i0, len(blk)):
        if isinstance(blk[k], (LoopIR.For, LoopIR.If)):
            tgt = k
            break
    if tgt is None:
        ctx.stat("kernel.no_loop")
        return
    cp = par + ((attr, tgt),)
    if isinstance(blk[tgt], LoopIR.For) and rng.random() < 0.3:
        # the kernel loop no longer starts where the callee's does: replace has to see the difference
        how = rng.choice(["shift", "cut"])
        if how == "shift":
            apply_step(sess, {"op": "shift_loop", "args": [D_node(cp), {"k": "lit", "v": rng.choice([1, 2, 3])}], "kw": {}})
        else:
            rr = apply_step(sess, {"op": "cut_loop", "args": [D_node(cp), {"k": "lit", "v": rng.choice(["1", "2"])}], "kw": {}})
            if rr.status == "accepted" and rng.random() < 0.7:
                cp = par + ((attr, tgt + 1),)  # the tail
        kernel = sess.cur
        ir = kernel._loopir_proc
        parent = irutil.node_at(ir, par) if par else ir
        blk = getattr(parent, attr)
        ctx.stat("kernel.shifted_or_cut")
    base_steps = list(sess.steps)
    for variant, callee in (("same", "f"), ("strict", "f_strict"), ("other", "g_other")):
        sess.procs = sess.procs[: len(base_steps) + 1]
        sess.steps = list(base_steps)
        # the block handed to replace may be longer than the callee's body: the statements after the
        # matched ones are not part of the instance and must survive
        nblk = 2 if (tgt + 1 < len(blk) and rng.random() < 0.35) else 1
        st = {"op": "replace", "args": [D_block(cp, nblk), {"k": "proc", "name": callee}, {"k": "lit", "v": True}], "kw": {}}
        r = apply_step(sess, st)
        ctx.stat("replace.attempted." + variant)
        if r.status != "accepted":
            ctx.stat("replace.rejected." + variant)
            ctx.stat(f"replace.rejected.{variant}.{type(r.exc).__name__}")
            continue
        ctx.stat("replace.accepted." + variant)
        judge(ctx, sess, kernel, r.proc, variant, meta, ninputs)


def plan(tier, seed):
    quick = tier == "quick"
    return {"nshards": 16, "params": {"soft_s": 1500 if quick else 5400, "nprograms": 40 if quick else 160, "ninputs": 6 if quick else 10}, "hard_timeout_s": 2700 if quick else 9000}


def shard(ctx):
    try:
        import z3

        z3.set_param("timeout", 20000)
    except Exception:
        pass

    def on_alarm(signum, frame):
        raise CaseTimeout()

    signal.signal(signal.SIGALRM, on_alarm)
    nprog = 0
    cap = int(ctx.params.get("nprograms", 10**9))
    while nprog < cap and not ctx.out_of_time():
        nprog += 1
        rng = random.Random((ctx.seed * 1000003 + ctx.shard * 7919 + nprog * 104729) & 0xFFFFFFFF)
        ctx.rng = rng
        signal.setitimer(signal.ITIMER_REAL, 40)
        try:
            roll = rng.random()
            if roll < 0.15:
                one_dense(ctx, rng, ctx.params["ninputs"])
            elif roll < 0.45:
                one_guard(ctx, rng, ctx.params["ninputs"])
            else:
                one(ctx, rng, ctx.params["ninputs"])
        except CaseTimeout:
            ctx.inconclusive("case_watchdog")
        finally:
            signal.setitimer(signal.ITIMER_REAL, 0)
        if nprog % 5 == 0:
            ctx.flush_stats()


def finish(agg, tier):
    st = agg.stats
    inc = []
    acc = sum(v for k, v in st.items() if k.startswith("replace.accepted."))
    if acc < (80 if tier == "quick" else 800):
        inc.append(f"only {acc} successful unifications")
    if st.get("replace.attempted.other", 0) < 50:
        inc.append("fewer than 50 near-miss attempts")
    return {"evaluations": st.get("evaluations", 0), "coverage": {k.replace(".", "_"): v for k, v in st.items() if k.startswith(("replace.", "inline."))}, "inconclusive": inc}


def replay(case):
    ctx = CollectCtx()
    try:
        mod = load_program(case["text"], ctx.scratch, tag="replay")
        sess = Session(mod, case["root"], case["text"])
        for st in case["steps"][:-1]:
            r = apply_step(sess, st)
            if r.status != "accepted":
                return {"reproduced": False, "detail": f"step {st['op']} rejected now"}
        kernel = sess.cur
        r = apply_step(sess, case["steps"][-1])
        if r.status != "accepted":
            return {"reproduced": False, "detail": f"replace rejected now: {r.exc!r}"[:400]}
        judge(ctx, sess, kernel, r.proc, case.get("variant", "?"), case.get("meta", {}), 12)
        if ctx.violations:
            s, c = ctx.violations[0]
            return {"reproduced": True, "sig": s, "detail": f"{c.get('witness')}\n--- kernel ---\n{c.get('kernel')}\n--- after ---\n{c.get('after')}"}
        return {"reproduced": False, "detail": "no monitor fired"}
    finally:
        ctx.close()
