"""C07 Scheduling is pure: existing procedures never change (DESIGN.md section 3/C07)."""

from ..stream import StreamProfile, run_stream
from ..monitors import PurityMonitor
from ..gen_prog import Knobs
from ..stream_driver import replay_through, per_op_coverage

PROP = "C07"
LEVEL = "fault_enumeration"
RULE = (
    "every call of the scheduling stream (accepted AND rejected) is followed by re-fingerprinting (own structural "
    "serializer, independent of the printer) every procedure registered so far (session chain, module procedures, "
    "their callees), re-resolving previously taken cursors and re-printing sampled old procedures; sampled calls are "
    "re-run on the same input procedure (must answer the same: poisoned caches) and re-run with an exception injected "
    "by a sys.monitoring LINE hook at sampled lines of exo/rewrite/*, core/internal_cursors.py and API_scheduling.py, "
    "followed by the same purity checks and a clean re-run; distinct by (alpha fingerprint of p, op+kwargs, outcome)"
)
ASSUMPTIONS = [
    "mutation is visible through the attrs fields of LoopIR nodes (lists are the only mutable parts)",
    "fault points are python statement starts inside the rewrite modules",
]


def knobs(rng):
    return Knobs(
        p_config=rng.choice([0, 0.2]),
        p_window=rng.choice([0.0, 0.15]),
        p_call=rng.choice([0.0, 0.3]),
        p_alloc=rng.choice([0.35, 0.6]),
        max_stmts=rng.choice([8, 12]),
    )


_W = {}


def weights():
    from ..gen_sched import all_op_names

    if not _W:
        heavy = {"autolift_alloc", "unroll_buffer", "mult_dim", "rearrange_dim", "divide_dim", "expand_dim", "resize_dim", "stage_mem", "lift_alloc", "sink_alloc", "reuse_buffer", "delete_buffer", "inline_window", "bind_expr", "inline", "replace", "extract_subproc", "std.unroll_buffers", "std.auto_stage_mem", "divide_loop", "cut_loop", "unroll_loop", "reorder_stmts", "lift_scope", "fuse"}
        for n in all_op_names():
            _W[n] = 3.0 if n in heavy else 1.0
    return _W


def plan(tier, seed):
    quick = tier == "quick"
    return {
        "nshards": 16,
        "params": {"soft_s": 1500 if quick else 5400, "nprograms": 14 if quick else 56, "script_len": 10 if quick else 14, "fault_every": 12 if quick else 4, "fault_points": 3 if quick else 12},
        "hard_timeout_s": 2700 if quick else 9000,
    }



def w2(tier):
    """W2: the repository's own tests as a workload, observed through the hooks (vf/pytest_plugin.py)"""
    tests = ['tests/test_schedules.py', 'tests/test_config.py']
    if tier != "quick":
        tests += ['tests/test_halide_ops.py', 'tests/test_x86.py', 'tests/test_neon.py', 'tests/test_cursors.py', 'tests/asplos25', 'tests/test_rvv.py']
    return {"tests": tests, "monitors": ["C07"], "timeout": 900 if tier == "quick" else 2400}

def shard(ctx):
    from ..templates import any_template

    prof = StreamProfile(knobs_fn=knobs, script_len=ctx.params["script_len"], templates=any_template, op_weights=weights())
    prof.template_prob = 0.5
    from ..templates import ALL as _ALL

    prof.rotation = list(_ALL)
    run_stream(ctx, prof, [PurityMonitor(ctx, fault_every=ctx.params["fault_every"], fault_points=ctx.params["fault_points"])])


def finish(agg, tier):
    cov, inc = per_op_coverage(agg, 15 if tier == "quick" else 40)
    for k in ("purity.fingerprints", "purity.cursor_checks", "purity.str_checks", "purity.after_accepted", "purity.after_rejected", "purity.reruns", "purity.late_reruns", "purity.c_compiles", "purity.c_rechecks", "purity.forward_queries", "fault.injections", "fault.surfaced", "fault.swallowed", "fault.count_runs"):
        cov[k.replace(".", "_")] = agg.stats.get(k, 0)
    if agg.stats.get("fault.injections", 0) < 100:
        inc.append("fewer than 100 injected faults")
    if agg.stats.get("purity.after_rejected", 0) < 60:
        inc.append("fewer than 60 rejected calls observed")
    return {"evaluations": agg.stats.get("evaluations", 0), "coverage": cov, "inconclusive": inc}


def replay(case):
    return replay_through(case, lambda ctx, c: [PurityMonitor(ctx, fault_every=0, rerun_every=1)])
