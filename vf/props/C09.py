"""C09 Parallel loops that compile are race-free (DESIGN.md section 3/C09)."""

import random
import signal

from exo.core.LoopIR import LoopIR

from .. import irutil
from ..common import CaseTimeout, jhash
from ..gen_prog import gen_program, load_program, Knobs
from ..gen_sched import Session, apply_step, random_step, is_unsafe_step, D_node
from ..gen_input import gen_input, InputSpec
from ..refinterp import Interp
from ..stream import sstr

PROP = "C09"
LEVEL = "exploration"
RULE = (
    "generated programs with par loops at every depth (written as par(..) or set with parallelize_loop on random "
    "loops, also after other scheduling steps, inside if, inside callees); for every procedure that "
    "compile_procs_to_strings accepts, the reference interpreter records per dynamic par-loop instance the "
    "read/write/reduce location sets of each iteration and reports two different iterations touching one location "
    "with at least one write or reduce; exact (no scheduling luck needed); distinct by alpha fingerprint of the "
    "compiled procedure, non-trivial when >=1 par-loop instance with >=2 iterations was observed"
)
ASSUMPTIONS = [
    "per-iteration access sets of the sequential execution decide races (storage allocated inside an iteration is private)",
    "reduce/reduce to one location counts as a conflict, as the property states",
]


def knobs(rng):
    return Knobs(
        p_par=rng.choice([0.3, 0.6]),
        p_call=rng.choice([0.0, 0.3]),
        p_window=rng.choice([0.0, 0.15]),
        p_alloc=rng.choice([0.2, 0.5]),
        p_if=rng.choice([0.2, 0.4]),
        p_config=rng.choice([0, 0, 0.2]),
        max_stmts=rng.choice([6, 10]),
        max_depth=3,
    )


def par_loops(ir, depth=0, out=None, in_callee=False, seen=None):
    out = out if out is not None else []
    seen = seen if seen is not None else set()
    for path, s in irutil.all_stmts(ir):
        if isinstance(s, LoopIR.For) and isinstance(s.loop_mode, LoopIR.Par):
            out.append({"depth": len(path) - 1, "in_callee": in_callee})
        if isinstance(s, LoopIR.Call) and id(s.f) not in seen:
            seen.add(id(s.f))
            par_loops(s.f, 0, out, True, seen)
    return out


def judge(ctx, sess, proc, rng, ninputs, emit=True):
    """returns sig or None"""
    ir = proc._loopir_proc
    if ir.instr is not None:
        # the body of an instruction is never emitted (its macro is): nothing is compiled
        ctx.stat("par.skipped_instr_proc")
        return None
    pls = par_loops(ir)
    if not pls:
        return None
    from exo.API import compile_procs_to_strings

    try:
        compile_procs_to_strings([proc], "t.h")
    except CaseTimeout:
        raise
    except Exception as e:
        ctx.stat("par.compile_rejected")
        ctx.stat("par.compile_rejected." + type(e).__name__)
        return None
    ctx.stat("par.compile_accepted")
    ctx.stat("evaluations")
    observed = 0
    for t in range(ninputs * 3):
        if observed >= ninputs:
            break
        spec = gen_input(ir, rng, size_cap=6)
        if spec is None:
            continue
        vals, cfg = spec.materialise()
        res = Interp(par=True, budget=200000).run(ir, vals, cfg)
        if res.aborted == "budget":
            continue
        if res.events and not res.par_conflicts:
            ctx.stat("par.input_not_clean")
            continue
        if res.par_iters >= 2:
            observed += 1
            ctx.stat("par.instances", res.par_instances)
            ctx.stat("par.iterations", res.par_iters)
        if res.par_conflicts:
            c = res.par_conflicts[0]
            node = c.pop("node")
            depth = None
            in_callee = True
            for path, s in irutil.all_stmts(ir):
                if s is node:
                    depth = len(path) - 1
                    in_callee = False
            sig = {
                "prop": "C09",
                "monitor": "m-par",
                "kind": "/".join(sorted([c["a"][0], c["b"][0]])),
                "nested": (depth or 0) > 0,
                "in_callee": in_callee,
                "cfg_loc": c["loc"][0] == "cfg",
            }
            case = {
                "text": sess.text,
                "root": sess.root_name,
                "steps": list(sess.steps),
                "input": spec.to_json(),
                "conflict": c,
                "proc": sstr(proc, 3000),
            }
            if emit:
                ctx.violation(sig, case)
            return sig
    if observed and ctx.params.get("openmp_every") and ctx.stat_count("par.compile_accepted") % int(ctx.params["openmp_every"]) == 0:
        # corroboration by execution: the OpenMP build (8 threads, several runs) must leave every
        # buffer as the sequential semantics prescribes; a difference is a witness of a race (or of a
        # miscompiled parallel loop), agreement proves nothing and is only counted
        from ..ccheck import check_c

        for rep in range(3):
            try:
                r = check_c(proc, rng, ctx.scratch / f"omp{ctx.stat_count('par.compile_accepted')}_{rep}", ninputs=3, openmp=True, sanitize=False, only_exact=True, run_env={"OMP_NUM_THREADS": "8", "OMP_DYNAMIC": "false"})
            except CaseTimeout:
                raise
            except Exception:
                ctx.stat("par.omp_harness_error")
                break
            ctx.stat("par.omp_runs")
            ctx.stat("par.omp_status." + str(r.status))
            if r.status == "mismatch":
                sig = {"prop": "C09", "monitor": "openmp-run", "kind": "differs_from_sequential_semantics"}
                ctx.violation(sig, {"text": sess.text, "root": sess.root_name, "steps": list(sess.steps), "input": (r.specs[r.bad_input].to_json() if r.specs and r.bad_input is not None else None), "diffs": r.diffs, "proc": sstr(proc, 3000)})
                return sig
            if r.status != "ok":
                break
    if observed:
        ctx.distinct(jhash([irutil.fingerprint(ir, alpha=True)]), nontrivial=True)
        if ctx._nsamples < 2:
            ctx.sample({"proc": sstr(proc, 1500), "par_loops": pls, "inputs_observed": observed}, limit=2)
    else:
        ctx.stat("par.no_multi_iteration_input")
    return None


def plan(tier, seed):
    quick = tier == "quick"
    return {"nshards": 16, "params": {"soft_s": 1500 if quick else 5400, "nprograms": 40 if quick else 160, "ninputs": 4 if quick else 8, "openmp_every": 4 if quick else 3}, "hard_timeout_s": 2700 if quick else 9000}


def shard(ctx):
    try:
        import z3

        z3.set_param("timeout", 20000)
    except Exception:
        pass

    def on_alarm(signum, frame):
        raise CaseTimeout()

    signal.signal(signal.SIGALRM, on_alarm)
    nprog = 0
    cap = int(ctx.params.get("nprograms", 10**9))
    while nprog < cap and not ctx.out_of_time():
        nprog += 1
        rng = random.Random((ctx.seed * 1000003 + ctx.shard * 7919 + nprog * 104729) & 0xFFFFFFFF)
        ctx.rng = rng
        signal.setitimer(signal.ITIMER_REAL, 60)
        try:
            one(ctx, rng)
        except CaseTimeout:
            ctx.inconclusive("case_watchdog")
        except RecursionError:
            ctx.inconclusive("case_recursion")
        finally:
            signal.setitimer(signal.ITIMER_REAL, 0)
        if nprog % 5 == 0:
            ctx.flush_stats()


def t_par_alias(rng):
    """par loops whose iterations meet through two names of one buffer: a window statement made
    before the loop (or in an enclosing sequential loop) against the buffer itself, two overlapping
    windows, a window of a window; with disjoint controls that must stay accepted"""
    from ..gen_prog import GenProgram, HEADER

    N = rng.choice([4, 6, 8])
    sh = rng.choice([1, 1, 2])
    kind = rng.choice(["shift_win", "shift_win", "two_wins", "nested", "in_seq", "disjoint", "same_cell", "callee"])
    pre = ""
    if kind == "shift_win":
        decl = f"w = x[{sh}:{N + sh}]"
        body = rng.choice(["w[i] = x[i]", "x[i] = w[i]", "w[i] += x[i]"])
    elif kind == "two_wins":
        decl = f"w = x[{sh}:{N + sh}]\n    v = x[0:{N}]"
        body = rng.choice(["w[i] = v[i]", "v[i] = w[i] * 2.0"])
    elif kind == "nested":
        decl = f"u = x[0:{N + sh}]\n    w = u[{sh}:{N + sh}]"
        body = rng.choice(["w[i] = x[i]", "w[i] = u[i]"])
    elif kind == "in_seq":
        pre = "for t in seq(0, 2):\n        "
        decl = f"w = x[{sh}:{N + sh}]"
        body = "w[i] = x[i]"
    elif kind == "disjoint":
        decl = f"w = x[0:{N // 2}]\n    v = x[{N // 2}:{N}]"
        body = "w[i] = v[i]"
        N = N // 2
    elif kind == "same_cell":
        decl = f"w = x[0:{N}]"
        body = rng.choice(["w[i] = x[i] * 2.0", "x[i] = w[i] + 1.0"])
    else:
        decl = f"w = x[{sh}:{N + sh}]"
        body = "cp1(w[i:i + 1], x[i:i + 1])"
    if pre:
        text = f"""@proc
def root(x: f32[{2 * N + 4}], y: f32[{N}]):
    for t in seq(0, 2):
        {decl}
        for i in par(0, {N}):
            {body}
"""
    else:
        text = f"""@proc
def cp1(dst: [f32][1], src: [f32][1]):
    dst[0] = src[0]


@proc
def root(x: f32[{2 * N + 4}], y: f32[{N}]):
    {decl}
    for i in par(0, {N}):
        {body}
"""
    return GenProgram(HEADER + text, "root", [], [], {"template": "par_alias"})


def t_par_positions(rng):
    """a par loop (racy: neighbour dependence, common cell, reduction into one cell; or race-free)
    at every kind of position the backend's analysis has to walk to: then- and else-branches, nested
    ifs, bodies of sequential loops, the else-branch of a callee"""
    from ..gen_prog import GenProgram, HEADER

    N = rng.choice([4, 6])
    body = rng.choice(["x[i + 1] = x[i] + 1.0", "x[i] = x[i + 1]", "y[0] = x[i]", "y[0] += x[i]", "x[i] = y[i] * 2.0", "x[i] += 1.0"])
    loop = f"for i in par(0, {N}):\n{{ind}}    {body}"
    pos = rng.choice(["else", "else", "then", "else_in_loop", "nested_else", "callee_else", "top"])
    def at(ind):
        return loop.replace("{ind}", " " * ind)
    if pos == "top":
        inner = "    " + at(4)
    elif pos == "then":
        inner = f"    if flag:\n        {at(8)}"
    elif pos == "else":
        inner = f"    if flag:\n        y[1] = 0.0\n    else:\n        {at(8)}"
    elif pos == "else_in_loop":
        inner = f"    for t in seq(0, 2):\n        if n > 2:\n            y[1] = 0.0\n        else:\n            {at(12)}"
    elif pos == "nested_else":
        inner = f"    if flag:\n        y[1] = 0.0\n    else:\n        if n > 2:\n            y[2] = 1.0\n        else:\n            {at(12)}"
    else:
        inner = "    sub(n, x, y, flag)"
    sub = f"""@proc
def sub(n: size, x: f32[{N + 2}], y: f32[{N + 2}], flag: bool):
    if flag:
        y[1] = 0.0
    else:
        {at(8)}

""" if pos == "callee_else" else ""
    text = f"""{sub}@proc
def root(n: size, x: f32[{N + 2}], y: f32[{N + 2}], flag: bool):
{inner}
"""
    return GenProgram(HEADER + text, "root", ["sub"] if sub else [], [], {"template": "par_positions"})


def one(ctx, rng):
    try:
        r_ = rng.random()
        gp = t_par_alias(rng) if r_ < 0.2 else (t_par_positions(rng) if r_ < 0.4 else gen_program(rng, knobs(rng)))
        mod = load_program(gp.text, ctx.scratch)
    except CaseTimeout:
        raise
    except Exception:
        ctx.stat("programs.rejected")
        return
    ctx.stat("programs.accepted")
    sess = Session(mod, gp.root, gp.text)
    n = ctx.params["ninputs"]
    if judge(ctx, sess, sess.cur, rng, n):
        return
    # parallelize_loop on random loops, interleaved with a few other steps
    for k in range(6):
        loops = [(p, s) for p, s in irutil.all_stmts(sess.cur._loopir_proc) if isinstance(s, LoopIR.For) and isinstance(s.loop_mode, LoopIR.Seq)]
        if rng.random() < 0.7 and loops:
            p, s = rng.choice(loops)
            st = {"op": "parallelize_loop", "args": [D_node(p)], "kw": {}}
        else:
            st = random_step(sess, rng)
            if st is None or is_unsafe_step(st) or st["op"] == "make_instr":
                continue
        r = apply_step(sess, st)
        if r.status == "accepted" and st["op"] == "parallelize_loop":
            ctx.stat("par.parallelize_accepted")
            if judge(ctx, sess, sess.cur, rng, n):
                return
        elif st["op"] == "parallelize_loop":
            ctx.stat("par.parallelize_rejected")


def finish(agg, tier):
    st = agg.stats
    inc = []
    if st.get("par.compile_accepted", 0) < (60 if tier == "quick" else 600):
        inc.append(f"only {st.get('par.compile_accepted', 0)} procedures with par loops compiled")
    if len(agg.distinct_nt) < 30:
        inc.append("fewer than 30 procedures with a multi-iteration par loop observed")
    return {
        "evaluations": st.get("evaluations", 0),
        "coverage": {k.replace(".", "_"): v for k, v in st.items() if k.startswith("par.")},
        "inconclusive": inc,
    }


def replay(case):
    import pathlib, tempfile, shutil
    from ..stream_driver import CollectCtx

    ctx = CollectCtx()
    try:
        mod = load_program(case["text"], ctx.scratch, tag="replay")
        sess = Session(mod, case["root"], case["text"])
        for st in case["steps"]:
            r = apply_step(sess, st)
            if r.status != "accepted":
                return {"reproduced": False, "detail": f"step {st['op']} rejected now"}
        proc = sess.cur
        ir = proc._loopir_proc
        from exo.API import compile_procs_to_strings

        try:
            compile_procs_to_strings([proc], "t.h")
        except Exception as e:
            return {"reproduced": False, "detail": f"compile now rejects: {e!r}"[:500]}
        spec = InputSpec.from_json(case["input"])
        vals, cfg = spec.materialise()
        res = Interp(par=True, budget=400000).run(ir, vals, cfg)
        if res.par_conflicts:
            c = dict(res.par_conflicts[0])
            c.pop("node", None)
            return {"reproduced": True, "sig": {"prop": "C09", "monitor": "m-par"}, "detail": f"conflict {c}\n{sstr(proc)}"}
        return {"reproduced": False, "detail": "no conflict observed"}
    finally:
        ctx.close()
