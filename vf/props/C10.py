"""C10 Configuration rewrites report every field they may change (DESIGN.md section 3/C10)."""

import random

from exo.core.LoopIR import LoopIR, T

from .. import irutil, equiv
from ..common import jhash
from ..gen_prog import Knobs
from ..gen_sched import Session, apply_step, random_step, D_node, Synth
from ..gen_input import InputSpec
from ..stream import StreamProfile, run_stream, EquivMonitor, Monitor, mk_case, sstr, transitions
from ..stream_driver import replay_through, per_op_coverage

PROP = "C10"
LEVEL = "exploration"
RULE = (
    "programs that read and write @config fields directly and through callees; bind_config, write_config, "
    "delete_config and ordinary rewrites around config reads/writes are judged like C01 (buffers identical, every "
    "config field outside the set reported by the system identical) on >= 8 random initial configuration states per "
    "application; call_eqv is exercised with (i) callees derived in-session from the original callee by scheduling steps "
    "including config-modifying ones (must stay equivalent modulo the reported fields) and (ii) procedures of other "
    "origin with the same signature: a textual copy, a partial_eval/add_assertion result (acceptance is a violation); "
    "distinct by (alpha fingerprint of p, op, fingerprint of p')"
)
ASSUMPTIONS = ["a config value that is read later and was changed shows up in a buffer or in the final configuration state", "reference interpreter semantics"]

CFG_OPS = {"bind_config", "write_config", "delete_config", "call_eqv"}


class CallEqvMonitor(Monitor):
    """drives call_eqv with derived and with unrelated callees at the start of every program"""

    name = "call_eqv"
    prop = "C10"

    def __init__(self, ctx, equiv_monitor):
        super().__init__(ctx)
        self.eq = equiv_monitor

    def on_program(self, sess):
        ctx = self.ctx
        rng = ctx.rng
        ir = sess.cur._loopir_proc
        calls = [(p, s) for p, s in irutil.all_stmts(ir) if isinstance(s, LoopIR.Call)]
        if not calls:
            return
        local = sess.local_procs()
        path, call = rng.choice(calls)
        base = str(call.f.name)
        if base not in local or local[base]._loopir_proc is not call.f:
            return
        # (i) derived variant
        sub = Session(sess.mod, base, sess.text)
        steps = []
        w = {"write_config": 4.0, "bind_config": 2.0, "divide_loop": 2.0, "reorder_loops": 1.0, "simplify": 1.0, "insert_pass": 1.0, "rename": 1.0, "cut_loop": 1.0, "delete_config": 4.0, "specialize": 1.0, "unroll_loop": 1.0}
        for _ in range(rng.randint(1, 3)):
            st = random_step(sub, rng, w)
            if st is None:
                continue
            r = apply_step(sub, st)
            if r.status == "accepted":
                steps.append(st)
        if steps:
            sess.derive_variant("__eqv_derived", base, steps)
            step = {"op": "call_eqv", "args": [D_node(path), {"k": "proc", "name": "__eqv_derived"}], "kw": {}}
            old = sess.cur
            r = apply_step(sess, step)
            ctx.stat("call_eqv.derived_attempted")
            if r.status == "accepted":
                ctx.stat("call_eqv.derived_accepted")
                if not hasattr(sess, "calls_of"):
                    sess.calls_of = [None]
                sess.calls_of.append(r.calls)
                self.eq.after_step(sess, step, old, r)
            else:
                ctx.stat("call_eqv.derived_rejected")
            # the same pair of callees at the *other* call sites of the procedure, one after the
            # other: whether a swap is allowed depends on what follows each site, not on the pair
            for _ in range(3):
                others = [(p, s) for p, s in irutil.all_stmts(sess.cur._loopir_proc) if isinstance(s, LoopIR.Call) and s.f is call.f]
                if not others:
                    break
                p2, _s2 = rng.choice(others)
                step2 = {"op": "call_eqv", "args": [D_node(p2), {"k": "proc", "name": "__eqv_derived"}], "kw": {}}
                old2 = sess.cur
                r2 = apply_step(sess, step2)
                ctx.stat("call_eqv.derived_attempted")
                if r2.status == "accepted":
                    ctx.stat("call_eqv.derived_accepted")
                    sess.calls_of.append(r2.calls) if hasattr(sess, "calls_of") else None
                    self.eq.after_step(sess, step2, old2, r2)
                else:
                    ctx.stat("call_eqv.derived_rejected")
                    break
        # (ii) other origin: must be rejected
        others = []
        try:
            import re

            m = re.search(r"@proc\ndef " + re.escape(base) + r"\(.*?(?=\n@|\Z)", sess.text, re.S)
            if m:
                others.append(("textual_copy", m.group(0).replace(f"def {base}(", f"def {base}_copy(", 1), f"{base}_copy"))
        except Exception:
            pass
        for kind, src, nm in others:
            try:
                from ..gen_prog import load_program, HEADER

                cfgs = "".join(mm.group(0) + "\n" for mm in re.finditer(r"@config\nclass \w+:\n(?:    \w+: \w+\n)+", sess.text))
                # configs must be the same objects: import them from the generated module instead
                mod2 = load_program(HEADER + f"from {sess.mod.__name__} import *\n" + src + "\n", ctx.scratch, tag="copy") if False else None
            except Exception:
                mod2 = None
        # a signature-preserving but unrelated procedure: add_assertion result of the callee
        try:
            unrelated = local[base].add_assertion("1 > 0") if True else None
        except Exception:
            unrelated = None
        if unrelated is not None:
            sess.extra["__eqv_unrelated"] = unrelated
            cur_calls = [(p, s) for p, s in irutil.all_stmts(sess.cur._loopir_proc) if isinstance(s, LoopIR.Call) and s.f is call.f]
            if cur_calls:
                p2, _ = cur_calls[0]
                step = {"op": "call_eqv", "args": [D_node(p2), {"k": "proc", "name": "__eqv_unrelated"}], "kw": {}}
                r = apply_step(sess, step, commit=False)
                ctx.stat("call_eqv.unrelated_attempted")
                ctx.stat("evaluations")
                if r.status == "accepted":
                    sig = {"prop": "C10", "monitor": "call_eqv", "kind": "accepted_other_origin", "op": "call_eqv", "how": "add_assertion"}
                    ctx.violation(sig, mk_case(sess, sess.steps + [step], "call_eqv", None, {"unrelated": "add_assertion('1 > 0') of the callee", "before": sstr(sess.cur, 2000)}))
                else:
                    ctx.stat("call_eqv.unrelated_rejected")
                    ctx.distinct(jhash(["unrelated", irutil.fingerprint(sess.cur._loopir_proc, alpha=True)]))


class CfgEquiv(EquivMonitor):
    """C01's oracle restricted to applications that touch configuration"""

    name = "equiv"
    prop = "C10"

    def judge_transition(self, sess, steps, step, tr, specs=None):
        op, p_in, p_out, call, inner, unsafe = tr
        touches = op in CFG_OPS or any(f in ("cfgread", "cfgwrite") for f in __import__("vf.stream", fromlist=["ir_features"]).ir_features(p_in._loopir_proc) + __import__("vf.stream", fromlist=["ir_features"]).ir_features(p_out._loopir_proc))
        if not touches:
            return False
        return super().judge_transition(sess, steps, step, tr, specs=specs)

    def emit(self, sess, steps, op, via, kind, p_in, p_out, call, inner, spec, witness, e2e=False):
        # re-label for this property
        n0 = len(self.ctx.violations) if hasattr(self.ctx, "violations") else None
        super().emit(sess, steps, op, via, kind, p_in, p_out, call, inner, spec, witness, e2e)


def weights():
    w = {"bind_config": 6.0, "write_config": 6.0, "delete_config": 5.0, "call_eqv": 2.0}
    for n in ("reorder_stmts", "fission", "divide_loop", "lift_scope", "specialize", "inline", "simplify", "fuse", "cut_loop", "remove_loop", "add_loop", "unroll_loop", "std.hoist_stmt", "autofission", "bind_expr", "extract_subproc", "stage_mem"):
        w[n] = 1.0
    return w


def knobs(rng):
    return Knobs(
        p_config=rng.choice([0.4, 0.6]),
        p_call=rng.choice([0.3, 0.5]),
        p_if=rng.choice([0.3, 0.5]),
        p_window=0.0,
        max_stmts=rng.choice([6, 10]),
        ncallees=rng.choice([1, 2]),
    )


def plan(tier, seed):
    quick = tier == "quick"
    return {"nshards": 16, "params": {"soft_s": 1500 if quick else 5400, "nprograms": 40 if quick else 160, "script_len": 8 if quick else 12, "ninputs": 8 if quick else 16}, "hard_timeout_s": 2700 if quick else 9000}


def shard(ctx):
    eq = CfgEquiv(ctx, ninputs=ctx.params["ninputs"], end_to_end=True)
    from ..templates import config_template

    prof = StreamProfile(knobs_fn=knobs, script_len=ctx.params["script_len"], op_weights=weights(), templates=config_template)
    prof.template_prob = 0.5
    from ..templates import t_config_flow, t_config_loop, t_config_arg, t_config_first_iter, t_config_callees

    prof.rotation = [t_config_flow, t_config_loop, t_config_arg, t_config_first_iter, t_config_callees]
    run_stream(ctx, prof, [eq, CallEqvMonitor(ctx, eq)])


def finish(agg, tier):
    cov, inc = per_op_coverage(agg, 3, min_each=10)
    for k in ("call_eqv.derived_attempted", "call_eqv.derived_accepted", "call_eqv.unrelated_attempted", "call_eqv.unrelated_rejected", "inputs.judged"):
        cov[k.replace(".", "_")] = agg.stats.get(k, 0)
    for op in ("bind_config", "write_config", "delete_config"):
        if agg.stats.get(f"op.judged.{op}", 0) < 10:
            inc.append(f"{op} judged fewer than 10 times")
    if agg.stats.get("call_eqv.derived_accepted", 0) < 5:
        inc.append("call_eqv with a derived callee accepted fewer than 5 times")
    return {"evaluations": agg.stats.get("evaluations", 0), "coverage": cov, "inconclusive": inc}


def replay(case):
    spec = InputSpec.from_json(case["input"]) if case.get("input") else None
    if case.get("monitor") == "call_eqv":
        from ..stream_driver import CollectCtx
        from ..gen_prog import load_program

        ctx = CollectCtx()
        try:
            mod = load_program(case["text"], ctx.scratch, tag="replay")
            sess = Session(mod, case["root"], case["text"])
            sess.apply_prelude(case.get("prelude"))
            for st in case["steps"][:-1]:
                apply_step(sess, st)
            call = None
            base = None
            for p, s in irutil.all_stmts(sess.cur._loopir_proc):
                if isinstance(s, LoopIR.Call):
                    base = str(s.f.name)
            local = sess.local_procs()
            if base in local:
                sess.extra["__eqv_unrelated"] = local[base].add_assertion("1 > 0")
            r = apply_step(sess, case["steps"][-1], commit=False)
            return {"reproduced": r.status == "accepted", "sig": {"prop": "C10", "monitor": "call_eqv", "kind": "accepted_other_origin"}, "detail": f"call_eqv with a procedure of other origin: {r.status} {r.exc!r}"}
        finally:
            ctx.close()
    want = case.get("inner_op")
    return replay_through(case, lambda ctx, c: [CfgEquiv(ctx, ninputs=16, end_to_end=False, forced_spec=spec)], match=(lambda sig: sig.get("op") == want) if want else None)
