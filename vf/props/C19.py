"""C19 Signature- and annotation-changing utilities keep the loop nest (DESIGN.md section 3/C19)."""

from exo.core.LoopIR import LoopIR, T

from .. import irutil, equiv
from ..common import jhash
from ..gen_prog import Knobs
from ..gen_input import gen_input, InputSpec, snapshot
from ..refinterp import Interp, POISON, View, dense_strides
from ..stream import StreamProfile, run_stream, Monitor, mk_case, sstr, ir_features
from ..stream_driver import replay_through, per_op_coverage

PROP = "C19"
LEVEL = "exploration"
RULE = (
    "on generated programs (also after other scheduling steps): partial_eval(p, vals) is run on inputs `rest` and "
    "compared with p on (vals, rest) for all argument subsets/values the generator draws; transpose(p, a) on the "
    "transposed buffer vs p on the buffer; add_assertion on inputs satisfying old and new assertions; rename, "
    "make_instr, set_precision, set_memory, set_window, parallelize_loop compared with p on identical inputs; all in "
    "the reference interpreter (exact rationals, sequential semantics); distinct by (alpha fingerprint of p, op, arguments)"
)
ASSUMPTIONS = ["precision changes are judged on real-number semantics only (exact rationals)", "set_window results judged on dense layouts (valid for both signatures)"]

ANNOT = {"rename", "make_instr", "set_precision", "set_memory", "set_window", "parallelize_loop"}
SIGOPS = {"partial_eval", "transpose", "add_assertion"}


def run(ir, spec, budget=300000):
    vals, cfg = spec.materialise()
    res = Interp(budget=budget).run(ir, vals, cfg)
    return res, vals, cfg


def compare_views(a: View, b: View, perm=None):
    """elementwise comparison of two views (b indexed through perm)"""
    import itertools

    if perm is None:
        perm = list(range(len(a.shape)))
    shape_b = tuple(a.shape[p] for p in perm) if perm else ()
    if tuple(b.shape) != tuple(a.shape[i] for i in perm):
        return {"kind": "shape", "a": list(a.shape), "b": list(b.shape)}
    for idx in itertools.product(*[range(s) for s in a.shape]):
        oa = a.off + sum(i * k for i, k in zip(idx, a.strides))
        jdx = tuple(idx[p] for p in perm)
        ob = b.off + sum(i * k for i, k in zip(jdx, b.strides))
        x, y = a.st.data[oa], b.st.data[ob]
        if x is POISON:
            continue
        if y is POISON or x != y:
            return {"kind": "value", "index": list(idx), "old": str(x), "new": str(y)}
    return None


class C19Monitor(Monitor):
    name = "sigchange"
    prop = "C19"

    def __init__(self, ctx, ninputs=5):
        super().__init__(ctx)
        self.ninputs = ninputs

    def emit(self, sess, step, kind, spec, detail, old, new):
        ctx = self.ctx
        sig = {"prop": "C19", "monitor": "sigchange", "kind": kind, "op": step["op"]}
        ctx.violation(sig, mk_case(sess, sess.steps, "sigchange", spec, {"detail": detail, "before": sstr(old, 2500), "after": sstr(new, 2500)}))
        ctx.stat(f"viol.{step['op']}")

    def after_step(self, sess, step, old, result):
        ctx = self.ctx
        op = step["op"]
        if result.status != "accepted" or op not in ANNOT | SIGOPS:
            return
        old_ir, new_ir = old._loopir_proc, result.proc._loopir_proc
        if old_ir is new_ir:
            return
        ctx.stat("evaluations")
        ctx.stat(f"op.judged.{op}")
        h = jhash([irutil.fingerprint(old_ir, alpha=True), op, step.get("kw"), [a for a in step["args"] if a.get("k") in ("lit", "arg")]])
        judged = 0
        if op in ANNOT or op == "add_assertion":
            # inputs must satisfy the (possibly narrowed) new assertions as well
            src = new_ir if op == "add_assertion" else old_ir
            for t in range(self.ninputs * 3):
                if judged >= self.ninputs:
                    break
                spec = gen_input(src, ctx.rng, extra_procs=[old_ir, new_ir], boundary=(t < 2))
                if spec is None:
                    continue
                c = equiv.compare_on(old_ir, new_ir, spec)
                if c.status in ("skip_old", "budget"):
                    continue
                judged += 1
                if c.status != "same":
                    self.emit(sess, step, c.status, spec, c.detail if not hasattr(c.detail, "as_dict") else c.detail.as_dict(), old, result.proc)
                    ctx.distinct(h)
                    return
        elif op == "partial_eval":
            kw = step.get("kw") or {}
            names_old = [str(a.name) for a in old_ir.args]
            fixed = {n: v for n, v in kw.items() if n in names_old}
            keep = [i for i, n in enumerate(names_old) if n not in fixed]
            if len(keep) != len(new_ir.args):
                self.emit(sess, step, "signature", None, {"expected_args": len(keep), "got": len(new_ir.args)}, old, result.proc)
                return
            for t in range(self.ninputs * 3):
                if judged >= self.ninputs:
                    break
                spec2 = gen_input(new_ir, ctx.rng, extra_procs=[old_ir], boundary=(t < 2))
                if spec2 is None:
                    continue
                args1 = []
                it2 = iter(spec2.args)
                for i, a in enumerate(old_ir.args):
                    nm = str(a.name)
                    if nm in fixed:
                        v = fixed[nm]
                        args1.append({"k": "bool" if isinstance(v, bool) else "int", "v": v, "name": nm})
                    else:
                        args1.append(next(it2))
                spec1 = InputSpec(args1, dict(spec2.config))
                pairs = [(i, j) for j, i in enumerate(keep)]
                try:
                    c = equiv.compare_on(old_ir, new_ir, spec1, new_spec=spec2, arg_map=pairs)
                except Exception as e:
                    ctx.inconclusive("c19_compare_error:" + type(e).__name__)
                    continue
                if c.status in ("skip_old", "budget"):
                    ctx.stat("partial_eval.input_invalid_for_original")
                    continue
                judged += 1
                if c.status != "same":
                    self.emit(sess, step, c.status, spec1, {"fixed": fixed, "witness": c.detail if not hasattr(c.detail, "as_dict") else c.detail.as_dict()}, old, result.proc)
                    ctx.distinct(h)
                    return
        elif op == "transpose":
            aname = step["args"][0]["name"]
            ai = [str(a.name) for a in old_ir.args].index(aname)
            for t in range(self.ninputs * 3):
                if judged >= self.ninputs:
                    break
                spec1 = gen_input(old_ir, ctx.rng, extra_procs=[new_ir], boundary=(t < 2))
                if spec1 is None:
                    continue
                a1 = spec1.args[ai]
                if a1["k"] != "buf" or len(a1["shape"]) != 2:
                    break
                n0, n1 = a1["shape"]
                # dense transposed copy
                v1 = View(None, a1["off"], a1["strides"], a1["shape"])
                data2 = [None] * (n0 * n1)
                for i in range(n0):
                    for j in range(n1):
                        data2[j * n0 + i] = a1["data"][a1["off"] + i * a1["strides"][0] + j * a1["strides"][1]]
                a2 = {"k": "buf", "shape": [n1, n0], "strides": list(dense_strides([n1, n0])), "off": 0, "data": data2, "name": aname}
                spec2 = InputSpec([a2 if k == ai else x for k, x in enumerate(spec1.args)], dict(spec1.config))
                ro, vo, co = run(old_ir, spec1)
                if not ro.clean:
                    continue
                rn, vn, cn = run(new_ir, spec2)
                judged += 1
                if not rn.clean:
                    ev = rn.first_event()
                    self.emit(sess, step, "new_event", spec1, {"event": ev.as_dict() if ev else rn.aborted}, old, result.proc)
                    ctx.distinct(h)
                    return
                bad = None
                for k, (x, y) in enumerate(zip(vo, vn)):
                    if type(x) is not View:
                        continue
                    d = compare_views(x, y, perm=[1, 0] if k == ai else None)
                    if d:
                        bad = {"arg": k, **d}
                        break
                if bad is None:
                    for key, v in co.items():
                        if cn.get(key) != v:
                            bad = {"cfg": list(key)}
                if bad:
                    self.emit(sess, step, "diff", spec1, bad, old, result.proc)
                    ctx.distinct(h)
                    return
        ctx.stat("inputs.judged", judged)
        if judged:
            ctx.distinct(h)
            if ctx._nsamples < 2:
                ctx.sample({"op": op, "args": step.get("kw") or [a.get("v", a.get("name")) for a in step["args"]], "before": sstr(old, 900), "after": sstr(result.proc, 900), "inputs": judged}, limit=2)
        else:
            ctx.stat("c19.vacuous")


def weights():
    w = {}
    for n in ANNOT | SIGOPS:
        w[n] = 6.0
    for n in ("divide_loop", "reorder_loops", "stage_mem", "bind_expr", "fission", "simplify", "cut_loop", "lift_alloc", "expand_dim", "specialize"):
        w[n] = 1.0
    return w


def knobs(rng):
    return Knobs(
        p_config=rng.choice([0, 0.2]),
        p_window=rng.choice([0.0, 0.15]),
        p_call=rng.choice([0.0, 0.3]),
        p_quasi=rng.choice([0.1, 0.3]),
        max_stmts=rng.choice([6, 10]),
        const_sizes=rng.choice([0.2, 0.4]),
        hostile_names=rng.random() < 0.4,
        p_idxarg=rng.choice([0.25, 0.7]),
    )


def plan(tier, seed):
    quick = tier == "quick"
    return {"nshards": 16, "params": {"soft_s": 1500 if quick else 5400, "nprograms": 50 if quick else 200, "script_len": 8 if quick else 12, "ninputs": 4 if quick else 8}, "hard_timeout_s": 2700 if quick else 9000}


def shard(ctx):
    from ..templates import any_template, t_sig_calls

    def templ(rng):
        return t_sig_calls(rng) if rng.random() < 0.6 else any_template(rng)

    prof = StreamProfile(knobs_fn=knobs, script_len=ctx.params["script_len"], op_weights=weights(), templates=templ)
    prof.template_prob = 0.3
    from ..templates import ALL as _ALL

    prof.rotation = [t_sig_calls] + list(_ALL)
    run_stream(ctx, prof, [C19Monitor(ctx, ninputs=ctx.params["ninputs"])])


def finish(agg, tier):
    cov, inc = per_op_coverage(agg, 8, min_each=10)
    cov["inputs_executed"] = agg.stats.get("inputs.judged", 0)
    for op in ("partial_eval", "transpose", "add_assertion"):
        if agg.stats.get(f"op.judged.{op}", 0) < 10:
            inc.append(f"{op} judged fewer than 10 times")
    return {"evaluations": agg.stats.get("evaluations", 0), "coverage": cov, "inconclusive": inc}


def replay(case):
    return replay_through(case, lambda ctx, c: [C19Monitor(ctx, ninputs=10)])
