"""C12 simplify preserves the value of every index expression (DESIGN.md section 3/C12)."""

from exo.core.LoopIR import LoopIR, T

from .. import irutil, equiv
from ..common import jhash
from ..gen_prog import Knobs
from ..gen_input import gen_input, InputSpec, snapshot
from ..refinterp import Interp, POISON, View
from ..stream import StreamProfile, run_stream, Monitor, mk_case, sstr, transitions, diagnose
from ..stream_driver import replay_through, per_op_coverage

PROP = "C12"
LEVEL = "exploration"
RULE = (
    "programs rich in quasi-affine index expressions (/, % by positive literals, negative intermediate values, offsets, "
    "shadowed names) in indices, loop bounds, allocation sizes, window bounds, guards and call arguments, further "
    "enriched by divide/cut/shift/specialize steps, are simplified (simplify directly, and every simplify call made "
    "inside stdlib compositions, hooked at the primitive boundary); oracle: the ordered effect trace on argument "
    "buffers and configuration (writes/reduces with location and value) and the final state of p and simplify(p) are "
    "equal on every valid input, buffer contents being pairwise distinct so that a changed index changes a stored value; "
    "distinct by (alpha fingerprint of p, fingerprint of result), non-trivial when simplify changed the procedure and "
    ">= 1 input executed event-free"
)
ASSUMPTIONS = ["reads are not part of the compared trace (simplify may drop a read)", "effects on temporaries are compared through what reaches arguments/config"]

OPS = {"simplify", "eliminate_dead_code"}


def traced(ir, spec, budget=300000):
    vals, cfg = spec.materialise()
    res = Interp(trace=True, budget=budget).run(ir, vals, cfg)
    tr = [e for e in (res.trace or []) if (e[0] in ("W", "+") and e[1] < 1000) or e[0] == "CW"]
    return res, vals, cfg, tr


class SimplifyMonitor(Monitor):
    name = "simplify-trace"
    prop = "C12"

    def __init__(self, ctx, ninputs=6, forced_spec=None):
        super().__init__(ctx)
        self.ninputs = ninputs
        self.forced_spec = forced_spec
        self.last_step = False

    def after_step(self, sess, step, old, result):
        ctx = self.ctx
        if result.status != "accepted" and not result.calls:
            return
        steps = sess.steps if result.status == "accepted" else sess.steps + [step]
        for tr in transitions(step, old, result):
            op, p_in, p_out, call, inner, unsafe = tr
            if op not in OPS:
                continue
            old_ir, new_ir = p_in._loopir_proc, p_out._loopir_proc
            if old_ir is new_ir or irutil.fingerprint(old_ir) == irutil.fingerprint(new_ir):
                ctx.stat("simplify.no_change")
                continue
            ctx.stat("evaluations")
            ctx.stat(f"op.judged.{op}")
            judged = 0
            for t in range(self.ninputs * 3):
                if judged >= self.ninputs:
                    break
                if self.forced_spec is not None and self.last_step and t == 0:
                    spec = self.forced_spec
                else:
                    spec = gen_input(old_ir, ctx.rng, extra_procs=[new_ir], data_mode="distinct", boundary=(t < 2))
                if spec is None:
                    continue
                ro, vo, co, to_ = traced(old_ir, spec)
                if ro.aborted == "budget":
                    continue
                if not ro.clean:
                    ctx.stat("simplify.input_not_clean")
                    continue
                rn, vn, cn, tn = traced(new_ir, spec, budget=1200000)
                judged += 1
                kind = None
                detail = None
                if not rn.clean:
                    ev = rn.first_event()
                    kind = "new_event:" + (ev.kind if ev else str(rn.aborted))
                    detail = ev.as_dict() if ev else {"aborted": rn.aborted}
                elif to_ != tn:
                    k = 0
                    while k < min(len(to_), len(tn)) and to_[k] == tn[k]:
                        k += 1
                    kind = "effect_trace"
                    detail = {"first_difference_at": k, "old_event": [str(x) for x in (to_[k] if k < len(to_) else ())], "new_event": [str(x) for x in (tn[k] if k < len(tn) else ())], "old_len": len(to_), "new_len": len(tn)}
                else:
                    so, cfo = snapshot(vo, co)
                    sn, cfn = snapshot(vn, cn)
                    if so != sn or cfo != cfn:
                        kind = "final_state"
                        detail = {}
                if kind:
                    sig = {"prop": "C12", "monitor": "simplify-trace", "kind": kind.split(":")[0], "op": op}
                    if ":" in kind:
                        sig["event"] = kind.split(":", 1)[1]
                    if step["op"] != op:
                        sig["via"] = step["op"]
                    d = diagnose(op, old_ir, new_ir, call)
                    d.update(simplify_features(old_ir, new_ir))
                    sig["diag"] = d
                    ctx.violation(sig, mk_case(sess, steps, "simplify-trace", spec, {"detail": detail, "inner": inner, "inner_op": op, "before": sstr(p_in, 3000), "after": sstr(p_out, 3000)}))
                    ctx.stat(f"viol.{op}")
                    break
            ctx.stat("inputs.judged", judged)
            if judged:
                ctx.distinct(jhash([irutil.fingerprint(old_ir, alpha=True), irutil.fingerprint(new_ir, alpha=True)]))
                if ctx._nsamples < 2:
                    ctx.sample({"op": op, "via": step["op"], "before": sstr(p_in, 1200), "after": sstr(p_out, 1200), "inputs": judged}, limit=2)
            else:
                ctx.stat("simplify.vacuous")


def simplify_features(old_ir, new_ir):
    """which quasi-affine operators disappeared (mechanism hint, no random values)"""

    def count(ir):
        c = {"%": 0, "/": 0}
        for _, s in irutil.all_stmts(ir):
            for _, _, e in irutil.stmt_exprs(s):
                for _, sub in irutil.sub_exprs(e):
                    if isinstance(sub, LoopIR.BinOp) and sub.op in c and sub.type.is_indexable():
                        c[sub.op] += 1
        return c

    a, b = count(old_ir), count(new_ir)
    return {"mod_removed": b["%"] < a["%"], "div_removed": b["/"] < a["/"]}


def weights():
    return {
        "simplify": 8.0,
        "divide_loop": 3.0,
        "cut_loop": 2.0,
        "shift_loop": 2.0,
        "specialize": 2.0,
        "divide_dim": 1.5,
        "resize_dim": 1.5,
        "mult_loops": 1.5,
        "unroll_loop": 1.0,
        "expand_dim": 1.0,
        "rewrite_expr": 2.0,
        "eliminate_dead_code": 2.0,
        "std.cleanup": 1.0,
        "stage_mem": 1.0,
        "inline": 1.0,
        "partial_eval": 1.0,
        "std.round_loop": 1.0,
        "bind_expr": 0.5,
        "fission": 0.5,
        "divide_with_recompute": 1.0,
        "std.cut_loop_and_unroll": 1.0,
        "join_loops": 1.0,
        "add_loop": 1.0,
    }


def knobs(rng):
    return Knobs(
        p_quasi=rng.choice([0.5, 0.8]),
        p_window=rng.choice([0.0, 0.2]),
        p_call=rng.choice([0.0, 0.3]),
        p_if=rng.choice([0.3, 0.5]),
        p_alloc=rng.choice([0.3, 0.5]),
        hostile_names=rng.random() < 0.3,
        nonzero_lo=0.35,
        max_stmts=rng.choice([6, 10]),
    )


def plan(tier, seed):
    quick = tier == "quick"
    return {"nshards": 16, "params": {"soft_s": 1500 if quick else 5400, "nprograms": 50 if quick else 200, "script_len": 8 if quick else 12, "ninputs": 5 if quick else 8}, "hard_timeout_s": 2700 if quick else 9000}


def shard(ctx):
    from ..templates import any_template, quasi_template

    def templ(rng):
        # mostly the quasi-affine family written for simplify / range analysis
        return quasi_template(rng) if rng.random() < 0.8 else any_template(rng)

    prof = StreamProfile(knobs_fn=knobs, script_len=ctx.params["script_len"], op_weights=weights(), templates=templ)
    prof.template_prob = 0.55
    from ..templates import t_quasi, t_mod_trip, t_shared_iter

    prof.rotation = [t_quasi, t_mod_trip, t_shared_iter, t_quasi]
    run_stream(ctx, prof, [SimplifyMonitor(ctx, ninputs=ctx.params["ninputs"])])


def finish(agg, tier):
    cov, inc = per_op_coverage(agg, 1, min_each=50)
    cov["inputs_executed"] = agg.stats.get("inputs.judged", 0)
    cov["simplify_no_change"] = agg.stats.get("simplify.no_change", 0)
    if agg.stats.get("op.judged.simplify", 0) < (100 if tier == "quick" else 1000):
        inc.append("simplify judged fewer times than required")
    return {"evaluations": agg.stats.get("evaluations", 0), "coverage": cov, "inconclusive": inc}


def replay(case):
    spec = InputSpec.from_json(case["input"]) if case.get("input") else None
    return replay_through(case, lambda ctx, c: [SimplifyMonitor(ctx, ninputs=10, forced_spec=spec)])
