"""C06 Forwarded cursors denote the same code or are invalid (DESIGN.md section 3/C06)."""

from ..stream import StreamProfile, run_stream
from ..monitors import ForwardMonitor
from ..gen_prog import Knobs
from ..stream_driver import replay_through, per_op_coverage

PROP = "C06"
LEVEL = "exploration"
RULE = (
    "for every accepted operation p->p' of the scheduling stream every statement, gap, expression and block cursor "
    "of p (and of an ancestor 2..6 steps back) is forwarded with Procedure.forward; oracle: the result is an "
    "InvalidCursorError, or resolves in p' (no dangling path/range) and, when the statement object is shared by "
    "identity between the two trees, resolves to that very object (any occurrence if duplicated); gaps keep their side; "
    "blocks keep every identity-shared member; plus: an op handed a stale cursor gives the same result as when handed "
    "p.forward(cursor); distinct by (alpha fingerprint of p, op+kwargs)"
)
ASSUMPTIONS = [
    "rewrites share unchanged sub-trees by object identity, which serves as ground truth for 'the same statement'",
    "over-invalidation is allowed; rebuilt statements get only the no-dangling check",
]


def knobs(rng):
    return Knobs(
        p_config=rng.choice([0, 0, 0.2]),
        p_window=rng.choice([0.0, 0.15]),
        p_call=rng.choice([0.0, 0.25]),
        p_if=rng.choice([0.25, 0.5]),
        max_stmts=rng.choice([8, 12, 14]),
    )


def plan(tier, seed):
    quick = tier == "quick"
    return {
        "nshards": 16,
        "params": {"soft_s": 1500 if quick else 5400, "nprograms": 12 if quick else 48, "script_len": 10 if quick else 14},
        "hard_timeout_s": 2700 if quick else 9000,
    }



def w2(tier):
    """W2: the repository's own tests as a workload, observed through the hooks (vf/pytest_plugin.py)"""
    tests = ['tests/test_schedules.py', 'tests/test_cursors.py']
    if tier != "quick":
        tests += ['tests/test_halide_ops.py', 'tests/test_x86.py', 'tests/test_neon.py', 'tests/test_window.py', 'tests/asplos25', 'tests/test_config.py']
    return {"tests": tests, "monitors": ["C06"], "timeout": 900 if tier == "quick" else 2400}

def shard(ctx):
    from ..templates import any_template, t_else_moves

    def templ(rng):
        return t_else_moves(rng) if rng.random() < 0.3 else any_template(rng)

    prof = StreamProfile(knobs_fn=knobs, script_len=ctx.params["script_len"], templates=templ)
    prof.template_prob = 0.4
    from ..templates import ALL as _ALL

    prof.rotation = list(_ALL)
    run_stream(ctx, prof, [ForwardMonitor(ctx)])


def finish(agg, tier):
    cov, inc = per_op_coverage(agg, 20 if tier == "quick" else 40)
    for k in ("forward.evals", "forward.identity_ok", "forward.invalidated", "forward.rebuilt_resolves", "forward.block_ok", "forward.gap_ok", "forward.chains", "forward.implicit_evals", "forward.implicit_both_ok"):
        cov[k.replace(".", "_")] = agg.stats.get(k, 0)
    if agg.stats.get("forward.identity_ok", 0) < 2000:
        inc.append("identity oracle reached fewer than 2000 times")
    if agg.stats.get("forward.implicit_evals", 0) < 50:
        inc.append("implicit-vs-explicit forwarding compared fewer than 50 times")
    return {"evaluations": agg.stats.get("forward.evals", 0), "coverage": cov, "inconclusive": inc}


def replay(case):
    return replay_through(case, lambda ctx, c: [ForwardMonitor(ctx, implicit_every=0)], match=lambda s: s.get("monitor") == "forward") if case.get("monitor") == "forward" else _replay_implicit(case)


def _replay_implicit(case):
    return replay_through(case, lambda ctx, c: [ForwardMonitor(ctx, implicit_every=1)])
