"""C17 The printed procedure denotes the procedure (DESIGN.md section 3/C17)."""

import re

from exo.core.LoopIR import LoopIR, T

from .. import irutil, equiv
from ..common import jhash, CaseTimeout
from ..gen_prog import Knobs, HEADER, load_program
from ..gen_input import walk_procs, configs_of
from ..stream import StreamProfile, run_stream, Monitor, mk_case, sstr, step_brief
from ..stream_driver import replay_through, per_op_coverage

PROP = "C17"
LEVEL = "exploration"
RULE = (
    "procedures produced by the scheduling stream on programs with hostile spellings (several symbols with one name, "
    "names that look disambiguated such as x_1, names the backend introduces), biased to operations that duplicate "
    "symbols (unroll_loop, inline, cut_loop, divide_loop, stage_mem, unroll_buffer, specialize, extract_subproc); "
    "(1) invariant hooked on PrintEnv.get_name: two different live symbols never get one printed name; (2) round "
    "trip: str(p) is re-parsed in a scratch module with the same configs/callees in scope, must print identically and "
    "be equivalent to p in the reference interpreter; distinct by alpha fingerprint of p"
)
ASSUMPTIONS = [
    "procedures using constructs the surface syntax cannot express (instruction callees, Free, Num literals of odd shape) are counted as not round-trippable",
    "scope of the invariant: PrintEnv's own visible environment at the time a name is handed out",
]

_HOOK = {"installed": False, "events": [], "evals": 0}


def install_printer_hook():
    if _HOOK["installed"]:
        return
    from exo.core import LoopIR_pprint as PP

    orig = PP.PrintEnv.get_name

    def get_name(self, nm):
        r = orig(self, nm)
        _HOOK["evals"] += 1
        try:
            for s, v in self.env.items():
                if v == r and s is not nm and s != nm:
                    if len(_HOOK["events"]) < 20:
                        _HOOK["events"].append({"name": r, "syms": [repr(s), repr(nm)]})
                    break
        except Exception:
            pass
        return r

    PP.PrintEnv.get_name = get_name
    _HOOK["installed"] = True


class no_safety_checks:
    """The round trip tests printer and parser, not the front end's safety analyses:
    bounds and aliasing checks (conservative, and C03/C04's business) are switched off
    while the printed text is parsed again."""

    def __enter__(self):
        import exo.API as A

        self.A = A
        self.saved = (A.CheckBounds, A.Check_Aliasing)
        A.CheckBounds = lambda proc: None
        A.Check_Aliasing = lambda proc: None

    def __exit__(self, *a):
        self.A.CheckBounds, self.A.Check_Aliasing = self.saved
        return False


def module_text_for(proc_ir, configs_src):
    """source of a scratch module in which str(proc) can be parsed again; None when impossible"""
    procs = list(walk_procs(proc_ir).values())
    order = []
    seen = set()

    def visit(p):
        if id(p) in seen:
            return
        seen.add(id(p))
        for c in irutil.callees(p):
            visit(c)
        order.append(p)

    visit(proc_ir)
    parts = [HEADER, configs_src]
    names = set()
    for p in order:
        if p.instr is not None:
            return None
        if str(p.name) in names and p is not proc_ir:
            return None  # two different callees with one name cannot be in one module
        names.add(str(p.name))
        parts.append("@proc\n" + str(p) + "\n\n")
    return "".join(parts)


class PrintMonitor(Monitor):
    name = "printer"
    prop = "C17"

    def __init__(self, ctx, every=1, ninputs=4):
        super().__init__(ctx)
        self.every = every
        self.ninputs = ninputs
        self.n = 0
        install_printer_hook()

    def on_program(self, sess):
        # the @config classes of the generated module, verbatim
        txt = sess.text or ""
        self.cfg_src = "".join(m.group(0) + "\n" for m in re.finditer(r"@config\nclass \w+:\n(?:    \w+: \w+\n)+", txt))

    def after_step(self, sess, step, old, result):
        ctx = self.ctx
        if result.status != "accepted":
            return
        self.n += 1
        if self.n % self.every:
            return
        procs = [result.proc]
        if result.extra:
            procs += [x for x in result.extra if hasattr(x, "_loopir_proc")]
        for P in procs:
            self.judge(sess, step, P)

    def judge(self, sess, step, P):
        ctx = self.ctx
        ir = P._loopir_proc
        ctx.stat("evaluations")
        ctx.stat(f"op.judged.{step['op']}")
        _HOOK["events"].clear()
        e0 = _HOOK["evals"]
        try:
            text = str(P)
        except CaseTimeout:
            raise
        except Exception as e:
            ctx.violation(
                {"prop": "C17", "monitor": "print", "kind": "printer_raises:" + type(e).__name__, "op": step["op"]},
                mk_case(sess, sess.steps, "print", None, {"error": repr(e)[:300]}),
            )
            return
        ctx.stat("print.get_name_evals", _HOOK["evals"] - e0)
        h = jhash([irutil.fingerprint(ir, alpha=True)])
        if _HOOK["events"]:
            ev = _HOOK["events"][0]
            ctx.violation(
                {"prop": "C17", "monitor": "get_name", "kind": "two_symbols_one_name", "op": step["op"]},
                mk_case(sess, sess.steps, "get_name", None, {"event": ev, "printed": text[:3000]}),
            )
            ctx.distinct(h)
            return
        if irutil.validate(ir):
            # an ill-scoped procedure is C04's finding, not a printer matter
            ctx.stat("roundtrip.ill_scoped_ir")
            return
        mt = module_text_for(ir, self.cfg_src)
        if mt is None:
            ctx.stat("roundtrip.not_expressible")
            return
        try:
            with no_safety_checks():
                mod = load_program(mt, ctx.scratch, tag="rt")
            P2 = getattr(mod, str(ir.name))
        except CaseTimeout:
            raise
        except Exception as e:
            # the printed text is not accepted by the front end
            msg = str(e)
            if "does not depend on loop iterations" in msg:
                # the type checker forbids configuration writes under loops in source
                # programs; scheduling may create them: not expressible in the surface syntax
                ctx.stat("roundtrip.not_expressible_config_write_in_loop")
                return
            from ..gen_input import gen_input

            if "unsatisfiable" in msg and gen_input(ir, ctx.rng, tries=60) is None:
                # the procedure has no valid input (e.g. partial_eval with a value that
                # violates an assertion): not a printer matter
                ctx.stat("roundtrip.vacuous_original")
                return
            kind = "reparse_rejected:" + type(e).__name__
            ctx.stat("roundtrip.rejected")
            ctx.violation(
                {"prop": "C17", "monitor": "roundtrip", "kind": kind, "op": step["op"], "why": classify_reject(msg)},
                mk_case(sess, sess.steps, "roundtrip", None, {"error": msg[:1500], "printed": text[:3000]}),
            )
            ctx.distinct(h)
            return
        ctx.stat("roundtrip.parsed")
        ctx.distinct(h)
        text2 = str(P2)
        if text2 != text:
            ctx.violation(
                {"prop": "C17", "monitor": "roundtrip", "kind": "prints_differently", "op": step["op"], "diag": diff_diag(text, text2)},
                mk_case(sess, sess.steps, "roundtrip", None, {"printed": text[:3000], "reprinted": text2[:3000]}),
            )
            return
        j = equiv.judge(ir, P2._loopir_proc, ctx.rng, self.ninputs)
        ctx.stat("roundtrip.executed_inputs", j["judged"])
        if j["verdict"] in ("diff", "new_event", "poison"):
            ctx.violation(
                {"prop": "C17", "monitor": "roundtrip", "kind": "behaves_differently:" + j["verdict"], "op": step["op"]},
                mk_case(sess, sess.steps, "roundtrip", j["spec"], {"witness": j["witness"], "printed": text[:3000]}),
            )
        elif ctx._nsamples < 2:
            ctx.sample({"op": step["op"], "printed": text[:1200], "inputs": j["judged"]}, limit=2)


def classify_reject(msg):
    for key, pat in (
        ("name_collision", r"already|redefin|shadow|duplicate|not defined|undefined|unbound"),
        ("type", r"expected .* type|type"),
        ("bounds", r"out of bounds|bound|assert"),
        ("syntax", r"syntax|parse|invalid"),
    ):
        if re.search(pat, msg, re.I):
            return key
    return "other"


_W = {}


def weights():
    from ..gen_sched import all_op_names

    if not _W:
        heavy = {"unroll_loop", "inline", "cut_loop", "divide_loop", "stage_mem", "unroll_buffer", "specialize", "extract_subproc", "bind_expr", "expand_dim", "fission", "std.unroll_loops", "std.cut_loop_and_unroll", "add_loop", "mult_loops", "inline_window"}
        for n in all_op_names():
            _W[n] = 4.0 if n in heavy else 1.0
    return _W


def knobs(rng):
    return Knobs(
        p_datadiv=rng.choice([0.0, 0.15, 0.3]),
        hostile_names=rng.random() < 0.7,
        p_config=rng.choice([0, 0.2]),
        p_window=rng.choice([0.0, 0.2]),
        p_call=rng.choice([0.0, 0.3, 0.5]),
        p_alloc=rng.choice([0.4, 0.6]),
        p_if=rng.choice([0.25, 0.5]),
        p_boolnest=rng.choice([0.12, 0.4]),
        max_stmts=rng.choice([6, 10]),
    )


def diff_diag(text, text2):
    """mechanism of a printed-form difference"""
    import re

    # the layout (line breaks chosen by the formatter) follows the text: compare without white space
    # ... and a negated negative literal (`--4.0`, from folding inside a negation) the same way as `-0`:
    # the parser folds both, the value is unchanged
    nz = lambda t: re.sub(r"\s+", "", re.sub(r"(?<![\w.)\]])--(?=\d)", "", re.sub(r"(?<![\w.)\]])-0(?![\w.])", "0", t)))
    return {"only_negated_integer_zero": text != text2 and nz(text) == nz(text2)}


def plan(tier, seed):
    quick = tier == "quick"
    return {"nshards": 16, "params": {"soft_s": 1500 if quick else 5400, "nprograms": 20 if quick else 80, "script_len": 8 if quick else 12}, "hard_timeout_s": 2700 if quick else 9000}



def w2(tier):
    """W2: the repository's own tests as a workload, observed through the hooks (vf/pytest_plugin.py)"""
    tests = ['tests/test_schedules.py', 'tests/test_halide_ops.py']
    if tier != "quick":
        tests += ['tests/test_x86.py', 'tests/test_neon.py', 'tests/test_window.py', 'tests/test_cursors.py', 'tests/asplos25', 'tests/test_config.py', 'tests/test_typecheck.py']
    return {"tests": tests, "monitors": ["C17"], "timeout": 900 if tier == "quick" else 2400}

def shard(ctx):
    from ..templates import any_template

    from ..templates import t_name_clash, ALL as _ALL
    from ..ctemplates import t_name_nest

    def templ(rng):
        r = rng.random()
        return t_name_clash(rng) if r < 0.2 else (t_name_nest(rng) if r < 0.35 else any_template(rng))

    prof = StreamProfile(knobs_fn=knobs, script_len=ctx.params["script_len"], op_weights=weights(), templates=templ)
    prof.template_prob = 0.35
    # names spelled like the printer's fallbacks next to same-named locals of inlined callees
    prof.rotation = [t_name_clash, t_name_nest] + list(_ALL)
    run_stream(ctx, prof, [PrintMonitor(ctx)])


def finish(agg, tier):
    cov, inc = per_op_coverage(agg, 10 if tier == "quick" else 30)
    for k in ("print.get_name_evals", "roundtrip.parsed", "roundtrip.not_expressible", "roundtrip.rejected", "roundtrip.executed_inputs"):
        cov[k.replace(".", "_")] = agg.stats.get(k, 0)
    if agg.stats.get("print.get_name_evals", 0) < 1000:
        inc.append("printer hook evaluated fewer than 1000 times")
    if agg.stats.get("roundtrip.parsed", 0) < 50:
        inc.append("fewer than 50 printed procedures re-parsed")
    return {"evaluations": agg.stats.get("evaluations", 0), "coverage": cov, "inconclusive": inc}


def replay(case):
    return replay_through(case, lambda ctx, c: [PrintMonitor(ctx)])
