"""C16  find and cursor navigation are exact.

Runtime monitoring with a reference model: the real `find` / `find_all` /
`find_loop` / `find_alloc_or_arg` / `cursor.find` and the real navigation API are
run on generated procedures; every answer is compared with an independent
oracle (vf/refmatch.py for find; the LoopIR statement lists for navigation).
"""

import json
import re
import shutil
import tempfile
import time
from pathlib import Path

from .. import common

PROP = "C16"
LEVEL = "exploration"
RULE = (
    "programs: random exo modules (nested seq loops, if/else, scalar+tensor allocs at "
    "several depths, assign/reduce with affine indices, repeated names, calls with "
    "window arguments, window statements, config read/write, externs, unary minus, pass) "
    "plus a fixed corpus; patterns: derived from a statement / expression / run of "
    "consecutive statements of the LoopIR, generalised with `_` holes, optionally "
    "mutated in one leaf, optionally with `#n`, plus all name shorthands; a case is one "
    "(procedure, scope, pattern) triple judged against the reference matcher, or one "
    "navigation law at one cursor position; distinct = (program shape, pattern class, "
    "outcome); non-trivial = at least one sure match or a sure no-match with a "
    "mutated pattern"
)
ASSUMPTIONS = [
    "the front end builds the LoopIR of the generated source faithfully (the oracle reads "
    "proc.INTERNAL_proc())",
    "reference matcher semantics: `_` = one expression / one statement, a lone `_` body = "
    "any non-empty block, `x[_]` = any rank >= 1, `f(_)` = any arguments, `if c: b` says "
    "nothing about else; every other liberal reading (multi- or zero-statement holes, "
    "prefix bodies, 3 vs 3.0, Read pattern vs window, fields exo's pattern AST drops) is "
    "'unsure' and never decides",
    "expression positions searched: every expression the cursor grammar lists (rhs, "
    "indices, conditions, loop bounds, call arguments, window bounds); allocation sizes "
    "are an undocumented position and are only counted",
    "cursor equality is the API's == ; node identity is `cursor._impl._node is node`",
]


def plan(tier, seed):
    if tier == "thorough":
        return {
            "nshards": 16,
            "params": {"soft_s": 600, "max_programs": 100000, "min_programs": 25},
            "hard_timeout_s": 1500,
        }
    return {
        "nshards": 16,
        "params": {"soft_s": 35, "max_programs": 400, "min_programs": 4},
        "hard_timeout_s": 1200,
    }


# --------------------------------------------------------------------------- #
# lazily imported exo handles


class _X:
    ready = False


def _exo():
    if _X.ready:
        return _X
    from exo.core.LoopIR import LoopIR
    from exo.core import internal_cursors as IC
    from exo import API_cursors as AC
    from exo.rewrite.LoopIR_scheduling import SchedulingError

    _X.LoopIR = LoopIR
    _X.IC = IC
    _X.AC = AC
    _X.SchedulingError = SchedulingError
    _X.ready = True
    return _X


def _mk_caller(mod):
    """A function whose globals are the program module's: exo looks for Extern
    objects in the *caller's* frame to decide whether `sin(_)` is an expression.
    Generated modules define it themselves (real file: cheap for inspect.stack)."""
    ns = vars(mod)
    if "_c16_call_find" not in ns or "_c16_call_find_all" not in ns:
        exec(
            "def _c16_call_find(obj, pat, many):\n    return obj.find(pat, many=many)\n"
            "def _c16_call_find_all(obj, pat):\n    return obj.find_all(pat)\n",
            ns,
        )
    if "_c16_call_find_uq" not in ns:
        # one source line issues the same pattern *text* with different values of the python
        # variables it unquotes ({uq0}, {uq1} are evaluated in this frame)
        exec("def _c16_call_find_uq(obj, pat, uq0, uq1):\n    return obj.find_all(pat)\n", ns)
    f = ns["_c16_call_find"]
    f.find_all = ns["_c16_call_find_all"]
    f.find_uq = ns["_c16_call_find_uq"]
    return f


_NUM = re.compile(r"(?<![\w.#{])(\d+\.\d+|\d+)(?![\w.}])")


def unquoted_form(pattern):
    """the same pattern with its first (two) numeric literals written as unquotes of python
    variables; returns (text, [values]) or None when the pattern has no literal"""
    vals = []

    def sub(m):
        if len(vals) >= 2:
            return m.group(0)
        t = m.group(1)
        vals.append(float(t) if "." in t else int(t))
        return "{uq%d}" % (len(vals) - 1)

    body, sep, sel = pattern.partition("#")
    text = _NUM.sub(sub, body) + sep + sel
    if not vals:
        return None
    return text, vals


# --------------------------------------------------------------------------- #
# keys of real results


def _tp(path):
    return tuple((a, i) for a, i in path)


def key_of(c):
    X = _exo()
    impl = c._impl
    if isinstance(impl, X.IC.Block):
        return ("B", _tp(impl._anchor._path), impl._attr, impl._range.start, impl._range.stop)
    if isinstance(impl, X.IC.Node):
        path = _tp(impl._path)
        if isinstance(impl._node, X.LoopIR.stmt):
            a, i = path[-1]
            return ("B", path[:-1], a, i, i + 1)
        return ("E", path)
    return ("?", repr(type(impl)))


_CURSOR_OF = {
    "Assign": "AssignCursor",
    "Reduce": "ReduceCursor",
    "WriteConfig": "AssignConfigCursor",
    "Pass": "PassCursor",
    "If": "IfCursor",
    "For": "ForCursor",
    "Alloc": "AllocCursor",
    "Call": "CallCursor",
    "WindowStmt": "WindowStmtCursor",
    "Read": "ReadCursor",
    "ReadConfig": "ReadConfigCursor",
    "Const": "LiteralCursor",
    "USub": "UnaryMinusCursor",
    "BinOp": "BinaryOpCursor",
    "Extern": "ExternFunctionCursor",
    "WindowExpr": "WindowExprCursor",
    "StrideExpr": "StrideExprCursor",
}


def _position_of(ir, key):
    """coarse, value-free description of where a candidate sits"""
    from ..refmatch import resolve

    X = _exo()
    if key[0] == "B":
        apath, attr = key[1], key[2]
        if not apath:
            return "top"
        owner = resolve(ir, apath)
        if attr == "orelse":
            return "orelse"
        return "for_body" if isinstance(owner, X.LoopIR.For) else "if_body"
    path = key[1]
    n = 0
    while n < len(path) and path[n][0] in ("body", "orelse"):
        n += 1
    # coarse on purpose: one mechanism should give few signatures
    if any(a == "orelse" for a, _ in path[:n]):
        return "orelse"
    return str(path[n][0]) if n < len(path) else "?"


def _key_json(key):
    return json.loads(json.dumps(key))


# --------------------------------------------------------------------------- #
# the find monitor


def _scope_cursor(p, scope_path):
    """reach the statement at scope_path with the public navigation API"""
    blk = p.body()
    cur = None
    for attr, i in scope_path:
        if cur is not None:
            blk = cur.body() if attr == "body" else cur.orelse()
        cur = blk[i]
    return cur


def _expr_cursor(p, path):
    """reach the expression at `path` through the public accessors; None when
    the path runs through a window (no accessor chain is documented there)"""
    n = 0
    while n < len(path) and path[n][0] in ("body", "orelse"):
        n += 1
    cur = _scope_cursor(p, path[:n])
    for attr, i in path[n:]:
        kind = type(cur).__name__
        if kind == "WindowExprCursor":
            return None
        if attr == "rhs" and kind == "WindowStmtCursor":
            cur = cur.winexpr()
        elif i is None:
            cur = getattr(cur, attr)()
        else:
            cur = getattr(cur, attr)()[i]
    return cur


def _real_find(p, caller, pattern, api, scope_path=None, block_scope=None, expr_scope=None):
    """-> ("ok", [cursors]) | ("none", msg) | ("exc", ExcName, msg)"""
    X = _exo()
    try:
        if expr_scope is not None:
            obj = _expr_cursor(p, expr_scope)
        elif block_scope is not None:
            apath, attr, lo, hi = block_scope
            if apath:
                owner = _scope_cursor(p, apath)
                blk = owner.body() if attr == "body" else owner.orelse()
            else:
                blk = p.body()
            obj = blk[lo:hi]
        elif scope_path is not None:
            obj = _scope_cursor(p, scope_path)
        else:
            obj = p
        if api == "find_all":
            r = caller.find_all(obj, pattern)
        elif api == "find_many":
            r = caller(obj, pattern, True)
        elif api == "find_one":
            r = [caller(obj, pattern, False)]
        elif api == "find_loop_many":
            r = obj.find_loop(pattern, many=True)
        elif api == "find_loop":
            r = [obj.find_loop(pattern)]
        elif api == "find_alloc_or_arg":
            r = [obj.find_alloc_or_arg(pattern)]
        else:
            raise ValueError(api)
        if not isinstance(r, list):
            return ("exc", "NotAList", repr(type(r)))
        return ("ok", r)
    except X.SchedulingError as e:
        return ("none", str(e)[:200])
    except Exception as e:  # noqa
        return ("exc", type(e).__name__, str(e)[:300])


def _is_top_extern(past):
    return isinstance(past, dict) and past["k"] == "extern"


def check_find(p, caller, past, pattern, pclass, scope_path=None, block_scope=None,
               api=None, selects=(), expr_scope=None):
    """Judge one (procedure, scope, pattern) triple.  Returns (violations, info):
    violations = [{"sig":..., "detail":...}], info = counters for the evidence."""
    from .. import refmatch as R

    X = _exo()
    ir = p.INTERNAL_proc()
    viol = []
    info = {"sure_match": 0, "sure_nomatch": 0, "unsure": 0, "undoc": 0, "undoc_cand": 0,
            "real": 0, "sel": 0, "sel_oor": 0}
    scoped = "expr" if expr_scope is not None else (
        "block" if block_scope is not None else ("stmt" if scope_path is not None else "proc"))
    if api is None:
        if scoped != "proc" or _is_top_extern(past):
            api = "find_many"
        else:
            api = "find_all"

    coarse = _coarse_class(pclass)

    def V(kind, position, detail, **extra):
        sig = {"monitor": "find", "kind": kind, "pattern_class": coarse,
               "position": position, "scope": scoped}
        sig.update(extra)
        if kind == "crash" and scoped == "block":
            sig["pattern_class"] = "any"  # BlockCursor.find fails whatever the pattern
        if "mechanism" in extra:
            # a diagnosed mechanism: independent of the surrounding pattern
            sig = {"monitor": "find", "kind": kind, "mechanism": extra["mechanism"]}
        viol.append({"sig": sig, "detail": detail})

    def diagnose(cand_key):
        """try to name the mechanism of a spurious match: relax one feature of
        the pattern and ask the reference again"""
        relaxed, n = _relax_stride(past)
        if n:
            for c2 in R.ref_find(ir, relaxed, scope_path, block_scope, expr_scope):
                if c2["key"] == cand_key:
                    if (bool(c2["may_ends"]) if is_stmt else c2["may"]):
                        return {"mechanism": "stride_dim_0_matches_any_dim"}
        return {}

    ref = R.ref_find(ir, past, scope_path, block_scope, expr_scope)
    byk = {}
    for idx, c in enumerate(ref):
        c["i"] = idx
        byk[c["key"]] = c
    is_stmt = isinstance(past, list)
    for c in ref:
        if not c["doc"]:
            if c.get("may"):
                info["undoc_cand"] += 1  # e.g. an allocation size that would match
            continue
        may = bool(c["may_ends"]) if is_stmt else c["may"]
        if c["must"]:
            info["sure_match"] += 1
        elif not may:
            info["sure_nomatch"] += 1
        else:
            info["unsure"] += 1

    got = _real_find(p, caller, pattern, api, scope_path, block_scope, expr_scope)
    if got[0] == "exc":
        V("crash", "-", f"{api}({pattern!r}) raised {got[1]}: {got[2]}", exc=got[1])
        return viol, info
    real = got[1] if got[0] == "ok" else []
    if got[0] == "ok" and not real:
        V("no_raise", "-", f"{api}({pattern!r}) returned an empty list instead of raising")
    info["real"] = len(real)

    # --- every real result must be a candidate that may match --------------
    rkeys = []
    seen = set()
    for c in real:
        k = key_of(c)
        rkeys.append(k)
        if k[0] == "B":
            ck, end = k[:4], k[4]
        else:
            ck, end = k, None
        if ck in seen:
            V("duplicate", _safe_pos(ir, ck), f"{pattern!r}: result {k} returned twice")
        seen.add(ck)
        cand = byk.get(ck)
        if cand is None:
            V("spurious_match", _safe_pos(ir, ck),
              f"{pattern!r}: result {k} is not a position of the searched scope "
              f"(or has the wrong sort for this pattern)")
            continue
        if not cand["doc"]:
            info["undoc"] += 1
            continue
        if is_stmt:
            if not cand["may_ends"]:
                V("spurious_match", _position_of(ir, ck),
                  f"{pattern!r}: returned {k} but no reading of the pattern matches "
                  f"there:\n{_show(ir, k)}", **diagnose(ck))
            elif end not in cand["may_ends"]:
                V("wrong_extent", _position_of(ir, ck),
                  f"{pattern!r}: block {k} ends at {end}, possible ends {sorted(cand['may_ends'])}")
        else:
            if not cand["may"]:
                V("spurious_match", _position_of(ir, ck),
                  f"{pattern!r}: returned {k} but the expression there cannot match:"
                  f"\n{_show(ir, k)}", **diagnose(ck))
        # identity of the node(s) and the most specific cursor class
        try:
            if k[0] == "B":
                stmts = getattr(R.resolve(ir, k[1]), k[2])[k[3]:k[4]]
                impl = c._impl
                nodes = [x._node for x in impl] if isinstance(impl, X.IC.Block) else [impl._node]
                same = len(nodes) == len(stmts) and all(a is b for a, b in zip(nodes, stmts))
                single = len(stmts) == 1
                tyok = (type(c).__name__ == _CURSOR_OF[type(stmts[0]).__name__]) if single \
                    else type(c).__name__ == "BlockCursor"
            else:
                node = R.resolve(ir, k[1])
                same = c._impl._node is node
                tyok = type(c).__name__ == _CURSOR_OF[type(node).__name__]
            if not same or c._impl._root is not ir:
                V("node_identity", _position_of(ir, ck), f"{pattern!r}: cursor {k} does not "
                  f"resolve to the LoopIR node at its path")
            if not tyok:
                V("cursor_type", _position_of(ir, ck), f"{pattern!r}: cursor class "
                  f"{type(c).__name__} at {k}")
        except Exception as e:  # noqa
            V("node_identity", _safe_pos(ir, ck), f"{pattern!r}: {type(e).__name__} {e}")

    # --- every sure match must be reported ---------------------------------
    for c in ref:
        if c["doc"] and c["must"] and c["key"] not in seen:
            extra = {}
            if is_stmt:
                _, apath, attr, k0 = c["key"]
                stmts = getattr(R.resolve(ir, apath), attr)
                if _hole_ambiguity(past, stmts[k0:]):
                    extra = {"mechanism": "stmt_hole_lookahead_no_backtracking"}
            V("missing_match", _position_of(ir, c["key"]),
              f"{pattern!r}: position {c['key']} matches but was not returned "
              f"({len(real)} result(s)):\n{_show(ir, c['key'])}", **extra)

    # --- program order -------------------------------------------------------
    order = [byk[(k[:4] if k[0] == "B" else k)]["i"] for k in rkeys
             if (k[:4] if k[0] == "B" else k) in byk]
    if any(b <= a for a, b in zip(order, order[1:])):
        V("order", "-", f"{pattern!r}: results are not in program order: {rkeys}")

    # --- find (first) / '#n' -------------------------------------------------
    if callable(selects):
        selects = selects(len(rkeys))
    info["selects"] = list(selects)
    if scoped != "block":
        one_api = "find_loop" if api.startswith("find_loop") else "find_one"
        for n in selects:
            info["sel"] += 1
            if n is None:
                pat_n = pattern
                want = 0
            else:
                pat_n = pattern + n[1] + str(n[0])
                want = n[0]
            g1 = _real_find(p, caller, pat_n, one_api, scope_path, None, expr_scope)
            if want < len(rkeys):
                if g1[0] != "ok":
                    V("count_select", "-", f"find({pat_n!r}) failed ({g1[1:]}) although the "
                      f"pattern has {len(rkeys)} matches", select="in_range")
                elif key_of(g1[1][0]) != rkeys[want]:
                    V("count_select", "-", f"find({pat_n!r}) returned {key_of(g1[1][0])}, "
                      f"match number {want} is {rkeys[want]}", select="in_range")
            else:
                info["sel_oor"] += 1
                if g1[0] == "ok":
                    V("no_raise", "-", f"find({pat_n!r}) returned {key_of(g1[1][0])} although "
                      f"the pattern has only {len(rkeys)} matches", select="out_of_range")
                elif g1[0] == "exc":
                    V("wrong_exception", "-", f"find({pat_n!r}) raised {g1[1]}: {g1[2]} instead "
                      f"of SchedulingError", select="out_of_range", exc=g1[1])
    return viol, info


def _matches_with_empty_holes(pats, stmts):
    """does the sequence match when every leading / interior hole takes no statement at all (a
    trailing hole takes the rest)?  exo's look-ahead finds such a match without any backtracking,
    so its absence is not the listed mechanism"""
    from ..refmatch import m_stmt

    if not pats or all(p["k"] == "shole" for p in pats):
        return False
    trailing = pats[-1]["k"] == "shole"
    core = [p for p in pats if p["k"] != "shole"]
    if len(stmts) < len(core) + (1 if trailing else 0):
        return False
    try:
        return all(m_stmt(p, st, False) for p, st in zip(core, stmts))
    except Exception:
        return False


def _hole_ambiguity(pats, stmts):
    """In the alignment `one hole = one statement`: is there a statement hole
    whose statement also matches the pattern element that follows the hole?
    (exo then ends the hole before that statement and never reconsiders)"""
    from ..refmatch import m_stmt

    if len(pats) == 1 and pats[0]["k"] == "shole":
        return False
    for t, (pt, st) in enumerate(zip(pats, stmts)):
        k = pt["k"]
        if k == "shole":
            if t + 1 < len(pats) and pats[t + 1]["k"] != "shole":
                try:
                    if m_stmt(pats[t + 1], st, True):
                        return True
                except Exception:
                    pass
        elif k == "for" and hasattr(st, "body"):
            if _hole_ambiguity(pt["body"], st.body):
                return True
        elif k == "if" and hasattr(st, "orelse"):
            if _hole_ambiguity(pt["body"], st.body) or (
                    pt["orelse"] and _hole_ambiguity(pt["orelse"], st.orelse)):
                return True
    return False


def _coarse_class(pclass):
    """signature-level pattern class (the detailed one stays in the case)"""
    if pclass.startswith("short_"):
        return "shorthand"
    if pclass.startswith("expr_"):
        return "expr_with_hole" if "_hole" in pclass else "expr"
    if "_shole" in pclass:
        return "stmt_seq_with_hole"
    if pclass.startswith("stmt_seq"):
        return "stmt_seq"
    return "stmt"


def _relax_stride(past):
    """copy of the pattern with every `stride(x, 0)` turned into `stride(x, _)`"""
    import copy

    from ..c16_progs import _nodes

    q = copy.deepcopy(past)
    n = 0
    for node in _nodes(q, []):
        if node["k"] == "stride" and node["dim"] == 0:
            node["dim"] = None
            n += 1
    return q, n


def _safe_pos(ir, ck):
    try:
        return _position_of(ir, ck)
    except Exception:
        return "?"


def _show(ir, key):
    from ..refmatch import resolve

    try:
        if key[0] == "B":
            stmts = getattr(resolve(ir, key[1]), key[2])
            end = key[4] if len(key) > 4 else key[3] + 1
            return "\n".join(str(s).rstrip() for s in stmts[key[3]:end])[:600]
        return str(resolve(ir, key[1]))[:300]
    except Exception as e:  # noqa
        return f"<{type(e).__name__}>"


# --------------------------------------------------------------------------- #
# the navigation monitor


def nav_check(p, rng=None, stat=None, max_slices=14):
    """Evaluate the navigation laws at every cursor position of procedure p.
    Returns (violations, counts)."""
    X = _exo()
    AC = X.AC
    LoopIR = X.LoopIR
    ir = p.INTERNAL_proc()
    viol = []
    counts = {}
    import random as _random

    rng = rng or _random.Random(0)

    def law(name, ok, where, detail, positions=None):
        counts[name] = counts.get(name, 0) + 1
        if not ok:
            viol.append({"sig": {"monitor": "nav", "law": name, "where": where},
                         "detail": detail})

    def is_invalid(c):
        return isinstance(c, AC.InvalidCursor) and not bool(c)

    def guard(name, where, fn):
        """evaluate fn(); an unexpected exception is a violation of law `name`"""
        try:
            return True, fn()
        except Exception as e:  # noqa
            counts[name] = counts.get(name, 0) + 1
            viol.append({"sig": {"monitor": "nav", "law": name, "where": where,
                                 "exc": type(e).__name__},
                         "detail": f"{type(e).__name__}: {str(e)[:200]}"})
            return False, None

    def where_of(owner_node, attr):
        if owner_node is None:
            return "top"
        if attr == "orelse":
            return "orelse"
        return "for_body" if isinstance(owner_node, LoopIR.For) else "if_body"

    # ---- expressions ------------------------------------------------------
    def chk_expr(ec, e, parent, wh, tag):
        counts["positions_expr"] = counts.get("positions_expr", 0) + 1
        law("expr_node", ec._impl._node is e, wh, f"{tag}: cursor does not point at its node")
        ok, par = guard("expr_parent", wh, lambda: ec.parent())
        if ok:
            law("expr_parent", par == parent, wh, f"{tag}: parent() of the sub-expression is "
                f"{type(par).__name__}, expected its owner {type(parent).__name__}")
        law("expr_type", type(ec).__name__ == _CURSOR_OF[type(e).__name__], wh,
            f"{tag}: cursor class {type(ec).__name__} for {type(e).__name__}")
        if isinstance(e, LoopIR.Read):
            chk_list(ec.idx(), e.idx, ec, wh, tag + ".idx")
            law("expr_name", ec.name() == str(e.name), wh, f"{tag}: name()")
        elif isinstance(e, LoopIR.USub):
            chk_expr(ec.arg(), e.arg, ec, wh, tag + ".arg")
        elif isinstance(e, LoopIR.BinOp):
            chk_expr(ec.lhs(), e.lhs, ec, wh, tag + ".lhs")
            chk_expr(ec.rhs(), e.rhs, ec, wh, tag + ".rhs")
            law("expr_name", ec.op() == str(e.op), wh, f"{tag}: op()")
        elif isinstance(e, LoopIR.Extern):
            chk_list(ec.args(), e.args, ec, wh, tag + ".args")
            law("expr_name", ec.name() == e.f.name(), wh, f"{tag}: name()")
        elif isinstance(e, LoopIR.WindowExpr):
            ws = ec.idx()
            law("exprlist_len", len(ws) == len(e.idx), wh, f"{tag}: window idx length")
            for w, wn in zip(ws, e.idx):
                if isinstance(wn, LoopIR.Interval):
                    law("window_shape", isinstance(w, tuple) and len(w) == 2, wh,
                        f"{tag}: interval is not a pair")
                    if isinstance(w, tuple) and len(w) == 2:
                        chk_expr(w[0], wn.lo, ec, wh, tag + ".lo")
                        chk_expr(w[1], wn.hi, ec, wh, tag + ".hi")
                else:
                    law("window_shape", not isinstance(w, tuple), wh, f"{tag}: point is a pair")
                    if not isinstance(w, tuple):
                        chk_expr(w, wn.pt, ec, wh, tag + ".pt")

    def chk_list(lc, es, parent, wh, tag):
        law("exprlist_len", len(lc) == len(es), wh, f"{tag}: len {len(lc)} != {len(es)}")
        if len(lc) != len(es):
            return
        for i, e in enumerate(es):
            chk_expr(lc[i], e, parent, wh, f"{tag}[{i}]")
        if es:
            law("exprlist_iter", [x._impl._node for x in lc] == list(es) and
                all(a._impl._node is b for a, b in zip(lc, es)), wh, f"{tag}: iteration")

    def chk_stmt_exprs(c, s, wh):
        tag = type(s).__name__
        if isinstance(s, (LoopIR.Assign, LoopIR.Reduce)):
            chk_list(c.idx(), s.idx, c, wh, tag + ".idx")
            chk_expr(c.rhs(), s.rhs, c, wh, tag + ".rhs")
            law("stmt_name", c.name() == str(s.name), wh, f"{tag}.name()")
        elif isinstance(s, LoopIR.WriteConfig):
            chk_expr(c.rhs(), s.rhs, c, wh, tag + ".rhs")
            law("stmt_name", c.field() == s.field and c.config() is s.config, wh,
                f"{tag}.field()/config()")
        elif isinstance(s, LoopIR.WindowStmt):
            chk_expr(c.winexpr(), s.rhs, c, wh, tag + ".rhs")
            law("stmt_name", c.name() == str(s.name), wh, f"{tag}.name()")
        elif isinstance(s, LoopIR.If):
            chk_expr(c.cond(), s.cond, c, wh, tag + ".cond")
        elif isinstance(s, LoopIR.For):
            chk_expr(c.lo(), s.lo, c, wh, tag + ".lo")
            chk_expr(c.hi(), s.hi, c, wh, tag + ".hi")
            law("stmt_name", c.name() == str(s.iter), wh, f"{tag}.name()")
        elif isinstance(s, LoopIR.Call):
            chk_list(c.args(), s.args, c, wh, tag + ".args")
        elif isinstance(s, LoopIR.Alloc):
            law("stmt_name", c.name() == str(s.name), wh, f"{tag}.name()")
            if isinstance(s.type, LoopIR.Tensor):
                sh = c.shape()
                law("exprlist_len", len(sh) == len(s.type.hi), wh, f"{tag}.shape() length")
                for i, h in enumerate(s.type.hi):
                    law("expr_node", sh[i]._impl._node is h, wh, f"{tag}.shape()[{i}]")

    # ---- blocks -------------------------------------------------------------
    def same_parent(c, owner, wh, tag):
        ok, par = guard("parent", wh, lambda: c.parent())
        if not ok:
            return
        if owner is None:
            law("parent", is_invalid(par), wh, f"{tag}: parent() at the root of the procedure "
                f"is {type(par).__name__}, expected an invalid cursor")
        else:
            law("parent", par == owner, wh, f"{tag}: parent() is not the owning statement")

    def chk_block(bc, stmts, owner, owner_node, attr):
        wh = where_of(owner_node, attr)
        n = len(stmts)
        counts["positions_block"] = counts.get("positions_block", 0) + 1
        law("block_len", len(bc) == n, wh, f"len(block) {len(bc)} != {n}")
        ok, items = guard("block_iter", wh, lambda: list(bc))
        if not ok or len(items) != n:
            law("block_iter", False, wh, "iteration over a block does not give its statements")
            return
        law("block_iter", all(c._impl._node is s for c, s in zip(items, stmts)), wh,
            "iteration over a block does not give its statements")
        same_parent(bc, owner, wh, "block")
        okb, fb = guard("block_before_after", wh, lambda: (bc.before(), bc.after()))
        if okb:
            law("block_before_after", fb[0] == items[0].before() and fb[1] == items[-1].after(),
                wh, "block.before()/after() are not the gaps of its first/last statement")
        for i, c in enumerate(items):
            counts["positions_stmt"] = counts.get("positions_stmt", 0) + 1
            s = stmts[i]
            tag = f"{type(s).__name__}@{i}/{n}"
            okx, bi = guard("block_index", wh, lambda: bc[i])
            if okx:
                law("block_index", bi == c and bi._impl._node is s, wh, f"{tag}: block[i]")
            okx, bneg = guard("block_index", wh, lambda: bc[i - n])
            if okx:
                law("block_index", bneg == c, wh, f"{tag}: block[i-len] (python negative index)")
            law("stmt_type", type(c).__name__ == _CURSOR_OF[type(s).__name__], wh,
                f"{tag}: cursor class {type(c).__name__}")
            same_parent(c, owner, wh, tag)
            # next / prev
            okx, nx = guard("next_prev", wh, lambda: c.next())
            if okx:
                if i == n - 1:
                    law("edge_next", is_invalid(nx), wh, f"{tag}: next() of the last statement "
                        f"is {type(nx).__name__}, expected an invalid cursor")
                else:
                    law("next_prev", nx == items[i + 1] and nx._impl._node is stmts[i + 1]
                        and nx.prev() == c, wh, f"{tag}: next() / next().prev()")
            okx, pv = guard("prev_next", wh, lambda: c.prev())
            if okx:
                if i == 0:
                    law("edge_prev", is_invalid(pv), wh, f"{tag}: prev() of the first statement "
                        f"is {type(pv).__name__}, expected an invalid cursor")
                else:
                    law("prev_next", pv == items[i - 1] and pv._impl._node is stmts[i - 1]
                        and pv.next() == c, wh, f"{tag}: prev() / prev().next()")
            d = rng.randrange(2, n + 2)
            okx, nd = guard("next_dist", wh, lambda: (c.next(d), c.prev(d)))
            if okx:
                e1 = (nd[0] == items[i + d]) if i + d < n else is_invalid(nd[0])
                e2 = (nd[1] == items[i - d]) if i - d >= 0 else is_invalid(nd[1])
                law("next_dist", e1 and e2, wh, f"{tag}: next({d}) / prev({d})")
            # gaps
            okx, gs = guard("gap_anchor", wh, lambda: (c.before(), c.after()))
            if okx:
                g0, g1 = gs
                law("gap_anchor",
                    isinstance(g0, AC.GapCursor) and isinstance(g1, AC.GapCursor)
                    and g0.anchor() == c and g1.anchor() == c
                    and g0.type() == X.IC.GapType.Before and g1.type() == X.IC.GapType.After
                    and g0 != g1, wh,
                    f"{tag}: before()/after() are not gaps anchored at the statement")
                same_parent(g0, owner, wh, tag + ".before()")
                same_parent(g1, owner, wh, tag + ".after()")
            # as_block / expand
            okx, ab = guard("as_block", wh, lambda: c.as_block())
            if okx:
                law("as_block", len(ab) == 1 and ab[0] == c and ab == bc[i:i + 1]
                    and ab.as_block() == ab, wh, f"{tag}: as_block()")
                same_parent(ab, owner, wh, tag + ".as_block()")
            okx, ex = guard("expand", wh, lambda: (c.expand(), c.expand(0, 0), c.expand(1, 1)))
            if okx:
                law("expand", ex[0] == bc and ex[1] == c.as_block()
                    and ex[2] == bc[max(0, i - 1):min(n, i + 2)], wh,
                    f"{tag}: stmt.expand() shorthand")
            # children
            if isinstance(s, LoopIR.For):
                okx, b = guard("child_body", wh, lambda: c.body())
                if okx:
                    chk_block(b, s.body, c, s, "body")
            elif isinstance(s, LoopIR.If):
                okx, b = guard("child_body", wh, lambda: c.body())
                if okx:
                    chk_block(b, s.body, c, s, "body")
                okx, b = guard("child_orelse", wh, lambda: c.orelse())
                if okx:
                    if s.orelse:
                        law("child_orelse", isinstance(b, AC.BlockCursor), wh,
                            f"{tag}: orelse() is {type(b).__name__}")
                        if isinstance(b, AC.BlockCursor):
                            chk_block(b, s.orelse, c, s, "orelse")
                    else:
                        law("edge_orelse", is_invalid(b), wh, f"{tag}: orelse() of an if "
                            f"without else is {type(b).__name__}")
            okx, _ = guard("stmt_exprs", wh, lambda: chk_stmt_exprs(c, s, wh))
        # slices and expand
        pairs = [(a, b) for a in range(n) for b in range(a + 1, n + 1)]
        if len(pairs) > max_slices:
            pairs = rng.sample(pairs, max_slices)
        for a, b in pairs:
            tag = f"block[{a}:{b}] of {n}"
            okx, sub = guard("slice", wh, lambda: bc[a:b])
            if not okx:
                continue
            law("slice", len(sub) == b - a
                and all(x._impl._node is s for x, s in zip(sub, stmts[a:b]))
                and all(sub[k] == items[a + k] for k in range(b - a)), wh, tag)
            same_parent(sub, owner, wh, tag)
            # indexing a block outside of itself never hands out a neighbouring statement
            for k in (b - a, -(b - a) - 1):
                try:
                    got = sub[k]
                    okk = is_invalid(got)
                    what = type(got).__name__
                except (IndexError, _exo().IC.InvalidCursorError):
                    okk, what = True, "raised"
                except Exception as e:  # noqa
                    okk, what = False, type(e).__name__
                law("block_index_edge", okk, wh, f"{tag}[{k}] gave {what} instead of raising IndexError / an invalid cursor")
            okx, fb = guard("block_before_after", wh, lambda: (sub.before(), sub.after()))
            if okx:
                law("block_before_after", fb[0] == items[a].before()
                    and fb[1] == items[b - 1].after(), wh, tag + " before()/after()")
            okx, fu = guard("expand", wh, lambda: (sub.expand(), sub.expand(a, n - b),
                                                   sub.expand(None, 0), sub.expand(0, None)))
            if okx:
                law("expand", fu[0] == bc and fu[1] == bc and fu[2] == bc[0:b]
                    and fu[3] == bc[a:n], wh, tag + ".expand() to the full block")
            dl = rng.randrange(0, a + 1)
            dh = rng.randrange(0, n - b + 1)
            okx, r = guard("expand", wh, lambda: sub.expand(dl, dh))
            if okx:
                law("expand", r == bc[a - dl:b + dh] and len(r) == (b - a) + dl + dh, wh,
                    f"{tag}.expand({dl},{dh})")
                law("expand_inverse", r[dl:dl + (b - a)] == sub, wh,
                    f"{tag}.expand({dl},{dh})[{dl}:{dl + b - a}] is not the original block")
            # beyond the edges: clamped, or an invalid cursor / InvalidCursorError
            ol, oh = a + 1 + rng.randrange(0, 3), n - b + 1 + rng.randrange(0, 3)
            which = rng.randrange(3)
            args = (ol, 0) if which == 0 else ((0, oh) if which == 1 else (ol, oh))
            try:
                r = sub.expand(*args)
                if is_invalid(r):
                    okc = True
                else:
                    lo = max(0, a - args[0])
                    hi = min(n, b + args[1])
                    okc = (len(r) == hi - lo and r == bc[lo:hi]
                           and all(x._impl._node is s for x, s in zip(list(r), stmts[lo:hi])))
            except X.IC.InvalidCursorError:
                okc = True
            except Exception as e:  # noqa
                okc = False
            law("expand_edge", okc, wh, f"{tag}.expand{args} is neither clamped to the "
                f"enclosing block nor invalid")
            try:
                sub.expand(-1, 0)
                okn = False
            except ValueError:
                okn = True
            except Exception:
                okn = False
            law("expand_negative", okn, wh, f"{tag}.expand(-1, 0) must raise ValueError")

    okr, body = guard("proc_body", "top", lambda: p.body())
    if okr:
        chk_block(body, ir.body, None, None, "body")
    inv = AC.InvalidCursor()
    law("invalid_parent", is_invalid(inv.parent()) and not bool(inv), "top",
        "parent() of an invalid cursor")
    return viol, counts


# --------------------------------------------------------------------------- #
# per-program work


def _shape_sig(ir):
    X = _exo()
    L = X.LoopIR

    def st(s):
        if isinstance(s, L.For):
            return "F(" + "".join(st(x) for x in s.body) + ")"
        if isinstance(s, L.If):
            return "I(" + "".join(st(x) for x in s.body) + "|" + "".join(st(x) for x in s.orelse) + ")"
        return {"Assign": "a", "Reduce": "r", "Alloc": "l", "Call": "c", "WindowStmt": "w",
                "WriteConfig": "g", "Pass": "p"}.get(type(s).__name__, "?")

    return "".join(st(s) for s in ir.body)


def _names_of(ir):
    from ..refmatch import positions

    X = _exo()
    L = X.LoopIR
    names, iters, allocs, calls = set(), set(), set(), set()
    for pos in positions(ir):
        if pos[0] == "B":
            s = pos[5][pos[3]]
            if isinstance(s, (L.Assign, L.Reduce, L.WindowStmt)):
                names.add(str(s.name))
            elif isinstance(s, L.Alloc):
                allocs.add(str(s.name))
            elif isinstance(s, L.For):
                iters.add(str(s.iter))
            elif isinstance(s, L.Call):
                calls.add(s.f.name)
        elif isinstance(pos[2], L.Read):
            names.add(str(pos[2].name))
    return sorted(names), sorted(iters), sorted(allocs), sorted(calls)


def _shorthands(ir, rng):
    """(api, pattern string, PatAST) for the name shorthands and the documented
    example forms, for every name of the program"""
    from ..c16_progs import EH, SH

    names, iters, allocs, calls = _names_of(ir)
    out = []
    for it in iters + ["qq"]:
        past = [{"k": "for", "iter": it, "lo": EH(), "hi": EH(), "body": [SH()]}]
        out.append(("find_loop_many", it, past, "short_loop"))
        out.append(("find_all", f"for {it} in _: _", past, "short_loop"))
    for a in allocs + ["qq"]:
        past = [{"k": "alloc", "name": a, "ty": None, "sizes": []}]
        out.append(("find_all", f"{a} : _", past, "short_alloc"))
    for nm in names:
        r = rng.random()
        if r < 0.5:
            out.append(("find_all", f"{nm} = _",
                        [{"k": "assign", "name": nm, "idx": [], "rhs": EH()}], "short_assign"))
            out.append(("find_all", f"{nm}[_] += _",
                        [{"k": "reduce", "name": nm, "idx": [EH()], "rhs": EH()}], "short_reduce"))
        else:
            out.append(("find_all", f"{nm}[_] = _",
                        [{"k": "assign", "name": nm, "idx": [EH()], "rhs": EH()}], "short_assign"))
            out.append(("find_all", f"{nm} += _",
                        [{"k": "reduce", "name": nm, "idx": [], "rhs": EH()}], "short_reduce"))
        out.append(("find_all", f"{nm}[_]", {"k": "read", "name": nm, "idx": [EH()]}, "short_read"))
    for c in calls + ["qq"]:
        out.append(("find_all", f"{c}(_)", [{"k": "call", "f": c, "args": "hole"}], "short_call"))
    out.append(("find_all", "if _: _",
                [{"k": "if", "cond": EH(), "body": [SH()], "orelse": []}], "short_if"))
    out.append(("find_all", "pass", [{"k": "pass"}], "short_pass"))
    op = ["+", "-", "*", "/", "<", "and"][rng.randrange(6)]
    out.append(("find_all", f"_ {op} _", {"k": "binop", "op": op, "l": EH(), "r": EH()},
                "short_binop"))
    out.append(("find_all", "-_", {"k": "usub", "arg": EH()}, "short_usub"))
    for f in ("a", "b"):
        out.append(("find_all", f"Cfg.{f} = _",
                    [{"k": "wconfig", "config": "Cfg", "field": f, "rhs": EH()}], "short_wconfig"))
        out.append(("find_all", f"Cfg.{f}", {"k": "rconfig", "config": "Cfg", "field": f},
                    "short_rconfig"))
    return out


def _selects(rng, nreal):
    """which `#n` to try (None = plain find): in range, and beyond the last match"""
    if nreal == 0:
        return [None] if rng.random() < 0.7 else [(rng.randrange(0, 3), " #")]
    c = [None, (0, " #"), (nreal - 1, " #"), (rng.randrange(nreal), "#")]
    rng.shuffle(c)
    out = c[:2]
    if rng.random() < 0.5:
        out.append((nreal, " #") if rng.random() < 0.6 else (nreal + rng.randrange(1, 4), "#"))
    return out


class _Work:
    """shared by shard() and replay(): judges cases and collects violations"""

    def __init__(self, ctx=None):
        self.ctx = ctx
        self.viol = []  # (sig, case)
        self.best = {}  # sig-hash -> (size, sig, case)

    def stat(self, k, n=1):
        if self.ctx is not None:
            self.ctx.stat(k, n)

    def report(self, sig, case):
        h = common.jhash(sig)
        size = len(case.get("src", "")) + len(case.get("pattern", ""))
        first = h not in self.best
        if first or size < self.best[h][0]:
            self.best[h] = (size, sig, case)
        if first and self.ctx is not None:
            self.ctx.violation(sig, case)
        self.viol.append((sig, case))

    def flush_smallest(self):
        """second record per signature: the smallest witness this shard met"""
        if self.ctx is None:
            return
        for h, (size, sig, case) in self.best.items():
            self.ctx.violation(sig, case)


def _find_case(W, p, caller, src, procname, past, pattern, pclass, scope_path=None,
               block_scope=None, api=None, rng=None, mutated=None, shape="", try_select=True,
               expr_scope=None):
    ctx = W.ctx
    selfn = (lambda n: _selects(rng, n)) if (try_select and block_scope is None) else ()
    viol, info = check_find(p, caller, past, pattern, pclass, scope_path, block_scope, api,
                            selects=selfn, expr_scope=expr_scope)
    sels = info.get("selects", [])
    W.stat("evaluations")
    W.stat("pairs")
    W.stat("pat." + pclass)
    W.stat("pairs_scope_" + ("expr" if expr_scope else (
        "block" if block_scope else ("stmt" if scope_path else "proc"))))
    if info["sure_match"]:
        W.stat("pairs_with_sure_match")
    if info["real"]:
        W.stat("pairs_with_real_match")
    else:
        W.stat("pairs_no_match")
        if info["sure_nomatch"] and not info["unsure"]:
            W.stat("pairs_sure_no_match")
    W.stat("matches_compared", info["real"])
    W.stat("candidates_sure_match", info["sure_match"])
    W.stat("candidates_sure_nomatch", info["sure_nomatch"])
    W.stat("candidates_unsure", info["unsure"])
    W.stat("undocumented_position", info["undoc"])
    W.stat("undocumented_position_candidates", info["undoc_cand"])
    W.stat("select_checks", info["sel"])
    W.stat("select_out_of_range", info["sel_oor"])
    if mutated:
        W.stat("mutated." + mutated)
    if ctx is not None:
        outcome = "m" if info["real"] else "n"
        nontrivial = bool(info["sure_match"]) or bool(mutated and info["sure_nomatch"])
        ctx.distinct(common.jhash([shape, pclass, outcome]), nontrivial)
    # the pattern language lets a pattern unquote python values of the caller ("x[_] = {v}"): the
    # literal and the unquoted spelling must select the same nodes, whatever the same source line
    # asked for before
    uq = unquoted_form(pattern) if (block_scope is None and expr_scope is None and api in (None, "find_all")) else None
    if uq is not None and not viol:
        text, vals = uq
        X = _exo()
        try:
            obj = _scope_cursor(p, scope_path) if scope_path is not None else p
            a = _real_find(p, caller, pattern, "find_all", scope_path)
            try:
                b = ("ok", caller.find_uq(obj, text, vals[0], vals[1] if len(vals) > 1 else None))
            except X.SchedulingError as e:
                b = ("none", str(e)[:200])
            except Exception as e:  # noqa
                b = ("exc", type(e).__name__, str(e)[:300])
            W.stat("unquote_checks")
            hist = W.__dict__.setdefault("uq_hist", {})
            prior = list(hist.get(text, []))[-3:]
            hist.setdefault(text, []).append(vals)
            ka = [key_of(c) for c in a[1]] if a[0] == "ok" else a[0]
            kb = [key_of(c) for c in b[1]] if b[0] == "ok" else b[0]
            if a[0] == "exc" or b[0] == "exc":
                W.stat("unquote_exception")
            elif ka != kb:
                sig = {"monitor": "find", "kind": "unquote_differs_from_literal", "pclass": _coarse_class(pclass)}
                viol = [{"sig": sig, "detail": f"find_all({pattern!r}) -> {ka}; find_all({text!r}) with uq={vals} -> {kb}"}]
                info["uq"] = [text, vals, prior]
            elif a[0] == "ok":
                W.stat("unquote_checks_with_match")
        except Exception as e:  # noqa
            W.stat("unquote_monitor_error:" + type(e).__name__)
    for v in viol:
        case = {
            "kind": "find", "src": src, "proc": procname, "pattern": pattern, "past": past,
            "pclass": pclass, "scope_path": [list(x) for x in scope_path] if scope_path else None,
            "block_scope": ([[list(x) for x in block_scope[0]], block_scope[1], block_scope[2],
                             block_scope[3]] if block_scope else None),
            "expr_scope": [list(x) for x in expr_scope] if expr_scope else None,
            "api": api, "selects": [list(s) if s else None for s in sels],
            "sig": v["sig"], "detail": v["detail"],
        }
        if info.get("uq"):
            # replay needs the process history: earlier values unquoted by the same pattern text
            case["uq"] = info["uq"]
        W.report(v["sig"], case)
    return viol, info


def process_program(W, src, mod, rng, budget_patterns=60, procname="main"):
    from .. import refmatch as R
    from .. import c16_progs as G

    X = _exo()
    L = X.LoopIR
    ctx = W.ctx
    p = getattr(mod, procname)
    ir = p.INTERNAL_proc()
    caller = _mk_caller(mod)
    shape = _shape_sig(ir)
    W.stat("programs")
    names, iters, allocs, calls = _names_of(ir)
    allnames = sorted(set(names) | set(allocs))

    # ---- navigation ---------------------------------------------------------
    nviol, counts = nav_check(p, rng)
    npos = 0
    for k, n in counts.items():
        if k.startswith("positions_"):
            W.stat("nav_" + k, n)
            npos += n
        else:
            W.stat("nav." + k, n)
            W.stat("nav_law_evaluations", n)
            W.stat("evaluations", n)
    W.stat("nav_positions", npos)
    if ctx is not None and not getattr(W, "_nav_sampled", False) and npos > 40:
        W._nav_sampled = True
        ctx.sample({"kind": "nav", "main": src[src.index("@proc\ndef main"):],
                    "cursor_positions": npos, "law_evaluations": sum(
                        n for k, n in counts.items() if not k.startswith("positions_")),
                    "violations": len(nviol)}, limit=1)
    if ctx is not None:
        ctx.distinct(common.jhash(["nav", shape]), npos > 3)
    for v in nviol:
        W.report(v["sig"], {"kind": "nav", "src": src, "proc": procname, "sig": v["sig"],
                            "detail": v["detail"]})

    # ---- find: shorthands -----------------------------------------------------
    sh = _shorthands(ir, rng)
    rng.shuffle(sh)
    for api, pat, past, pclass in sh[: max(12, budget_patterns // 3)]:
        _find_case(W, p, caller, src, procname, past, pat, pclass, api=api, rng=rng, shape=shape)
    # find_alloc_or_arg
    args = [str(a.name) for a in ir.args]
    for nm in rng.sample(sorted(set(allocs + args + ["qq"])), min(3, len(set(allocs + args + ["qq"])))):
        _alloc_or_arg_case(W, p, caller, src, procname, nm, rng, shape)
        if rng.random() < 0.5:
            _alloc_or_arg_case(W, p, caller, src, procname, nm, rng, shape, n=rng.randrange(0, 3))

    # ---- find: derived patterns ---------------------------------------------
    pos = R.positions(ir)
    spos = [q for q in pos if q[0] == "B"]
    epos = [q for q in pos if q[0] == "E" and q[3] and not isinstance(q[2], L.WindowExpr)]
    derived = []
    for _ in range(budget_patterns):
        r = rng.random()
        if r < 0.4 or not epos:
            q = spos[rng.randrange(len(spos))]
            derived.append(([G.to_pat_stmt(q[5][q[3]])], q))
        elif r < 0.62:
            q = spos[rng.randrange(len(spos))]
            ln = rng.randrange(2, 4)
            run = q[5][q[3]:min(q[4], q[3] + ln)]
            derived.append(([G.to_pat_stmt(s) for s in run], q))
        else:
            q = epos[rng.randrange(len(epos))]
            derived.append((G.to_pat_expr(q[2]), q))
    for exact, q in derived:
        r = rng.random()
        mutated = None
        if r < 0.25:
            past = exact
        else:
            past = G.holeify_top(exact, rng, rng.choice([0.1, 0.25, 0.5]))
        if isinstance(past, dict) and past["k"] == "ehole":
            continue
        if rng.random() < 0.3:
            m, what = G.mutate(past, rng, allnames)
            if m is not None:
                past, mutated = m, what
        pclass = G.pattern_class(past, mutated)
        pattern = G.pat_to_str(past, rng)
        viol, info = _find_case(W, p, caller, src, procname, past, pattern, pclass, rng=rng,
                                mutated=mutated, shape=shape)
        if ctx is not None and info["real"] and rng.random() < 0.02:
            ctx.sample({"kind": "find", "main": src[src.index("@proc\ndef main"):],
                        "pattern": pattern, "class": pclass, "matches": info["real"],
                        "sure_matches": info["sure_match"], "unsure": info["unsure"]})
        # the documented shorthand: find_all(p) == find(p, many=True)
        if rng.random() < 0.25 or G_is_extern(past):
            _shorthand_equiv(W, p, caller, src, procname, past, pattern, pclass)

    # ---- find: cursor-relative ------------------------------------------------
    comp = [q for q in spos if isinstance(q[5][q[3]], (L.For, L.If))]
    scopes = []
    if comp:
        scopes += [comp[rng.randrange(len(comp))] for _ in range(3)]
    scopes += [spos[rng.randrange(len(spos))]]
    for q in scopes:
        scope_path = q[1] + ((q[2], q[3]),)
        inside = R.positions(ir, scope_path)
        for _ in range(4):
            src_q = inside[rng.randrange(len(inside))] if rng.random() < 0.75 else pos[rng.randrange(len(pos))]
            if src_q[0] == "B":
                exact = [G.to_pat_stmt(src_q[5][src_q[3]])]
            else:
                if isinstance(src_q[2], L.WindowExpr) or not src_q[3]:
                    continue
                exact = G.to_pat_expr(src_q[2])
            past = G.holeify_top(exact, rng, 0.3) if rng.random() < 0.7 else exact
            if isinstance(past, dict) and past["k"] == "ehole":
                continue
            pclass = G.pattern_class(past)
            pattern = G.pat_to_str(past, rng)
            _find_case(W, p, caller, src, procname, past, pattern, pclass,
                       scope_path=scope_path, rng=rng, shape=shape)
    # an expression cursor as scope (expression patterns only)
    big = [q for q in epos if isinstance(q[2], (L.BinOp, L.Extern, L.Read, L.USub))
           and not any(a in ("lo", "hi", "pt") for a, _ in q[1])]
    for _ in range(3):
        if not big:
            break
        q = big[rng.randrange(len(big))]
        if _expr_cursor(p, q[1]) is None:
            continue
        inside = R.positions(ir, None, None, q[1])
        src_q = inside[rng.randrange(len(inside))] if rng.random() < 0.8 else epos[rng.randrange(len(epos))]
        if isinstance(src_q[2], L.WindowExpr):
            continue
        exact = G.to_pat_expr(src_q[2])
        past = G.holeify_top(exact, rng, 0.3) if rng.random() < 0.6 else exact
        if past["k"] == "ehole":
            continue
        _find_case(W, p, caller, src, procname, past, G.pat_to_str(past, rng),
                   G.pattern_class(past), expr_scope=q[1], rng=rng, shape=shape)
    # a block cursor as scope
    q = spos[rng.randrange(len(spos))]
    lo = q[3]
    hi = rng.randrange(lo + 1, q[4] + 1)
    bs = (q[1], q[2], lo, hi)
    inside = R.positions(ir, None, bs)
    src_q = inside[rng.randrange(len(inside))]
    if src_q[0] == "B":
        exact = [G.to_pat_stmt(src_q[5][src_q[3]])]
        past = G.holeify_top(exact, rng, 0.3)
        pclass = G.pattern_class(past)
        _find_case(W, p, caller, src, procname, past, G.pat_to_str(past, rng), pclass,
                   block_scope=bs, rng=rng, shape=shape, try_select=False)


def G_is_extern(past):
    return isinstance(past, dict) and past["k"] == "extern"


def _shorthand_equiv(W, p, caller, src, procname, past, pattern, pclass):
    """docs: find_all(pattern) is shorthand for find(pattern, many=True)"""
    a = _real_find(p, caller, pattern, "find_all")
    b = _real_find(p, caller, pattern, "find_many")
    W.stat("find_all_vs_find_many")
    W.stat("evaluations")
    ka = [key_of(c) for c in a[1]] if a[0] == "ok" else a[0]
    kb = [key_of(c) for c in b[1]] if b[0] == "ok" else b[0]
    if ka != kb:
        sig = {"monitor": "find", "kind": "find_all_differs_from_find_many",
               "pattern_class": "expr_extern" if G_is_extern(past) else pclass,
               "position": "-", "scope": "proc"}
        W.report(sig, {"kind": "equiv", "src": src, "proc": procname, "pattern": pattern,
                       "past": past, "pclass": pclass, "sig": sig,
                       "detail": f"find_all({pattern!r}) -> {ka}; find({pattern!r}, many=True) "
                                 f"-> {kb}"})


def _alloc_or_arg_case(W, p, caller, src, procname, nm, rng, shape, n=None):
    """find_alloc_or_arg(name [#n]): the argument of that name, else the n-th
    (default first) allocation `name : _`, else SchedulingError"""
    from .. import refmatch as R

    ir = p.INTERNAL_proc()
    W.stat("evaluations")
    W.stat("pairs")
    W.stat("pat.short_alloc_or_arg")
    text = nm if n is None else f"{nm} #{n}"
    got = _real_find(p, caller, text, "find_alloc_or_arg")
    argi = [i for i, a in enumerate(ir.args) if str(a.name) == nm]
    past = [{"k": "alloc", "name": nm, "ty": None, "sizes": []}]
    ref = [c for c in R.ref_find(ir, past) if c["must"]]
    want = 0 if n is None else n
    bad = None
    if argi:
        if got[0] != "ok":
            bad = ("missing_match", f"find_alloc_or_arg({text!r}) failed: {got[1:]}")
        else:
            c = got[1][0]
            if type(c).__name__ != "ArgCursor" or c._impl._node is not ir.args[argi[0]]:
                bad = ("spurious_match", f"find_alloc_or_arg({text!r}) did not return the "
                       f"argument cursor: {type(c).__name__}")
        W.stat("pairs_with_real_match")
    elif want < len(ref):
        if got[0] != "ok":
            bad = ("missing_match", f"find_alloc_or_arg({text!r}) failed: {got[1:]}")
        elif key_of(got[1][0])[:4] != ref[want]["key"]:
            bad = ("count_select", f"find_alloc_or_arg({text!r}) returned {key_of(got[1][0])}, "
                   f"allocation number {want} is {ref[want]['key']}")
        W.stat("pairs_with_real_match")
        W.stat("pairs_with_sure_match")
        if n is not None:
            W.stat("select_checks")
    else:
        if got[0] == "ok":
            bad = ("no_raise", f"find_alloc_or_arg({text!r}) returned {key_of(got[1][0])} but "
                   f"there are only {len(ref)} such allocations and no such argument")
        elif got[0] == "exc":
            bad = ("wrong_exception", f"find_alloc_or_arg({text!r}) raised {got[1]}: {got[2]}")
        W.stat("pairs_no_match")
        W.stat("pairs_sure_no_match")
        if n is not None:
            W.stat("select_checks")
            W.stat("select_out_of_range")
    if bad:
        sig = {"monitor": "find", "kind": bad[0], "pattern_class": "short_alloc_or_arg",
               "position": "-", "scope": "proc"}
        W.report(sig, {"kind": "alloc_or_arg", "src": src, "proc": procname, "name": nm, "n": n,
                       "sig": sig, "detail": bad[1]})


# --------------------------------------------------------------------------- #
# minimisation of a find witness: drop statements of `main` while the same
# signature keeps firing


def _blocks_of(lines, start):
    """indices (i, j) of deletable statement groups (a line and its more
    indented followers) after line `start`"""
    out = []
    for i in range(start, len(lines)):
        ln = lines[i]
        if not ln.strip() or ln.strip().startswith(("else:", "assert")):
            continue
        ind = len(ln) - len(ln.lstrip())
        j = i + 1
        while j < len(lines) and (not lines[j].strip() or
                                  len(lines[j]) - len(lines[j].lstrip()) > ind):
            j += 1
        # keep an `else:` with its `if`
        if j < len(lines) and lines[j].strip().startswith("else:") and \
                len(lines[j]) - len(lines[j].lstrip()) == ind:
            j += 1
            while j < len(lines) and (not lines[j].strip() or
                                      len(lines[j]) - len(lines[j].lstrip()) > ind):
                j += 1
        out.append((i, j))
    return out


def minimise_find(case, scratch, deadline):
    """greedy statement deletion; returns a (possibly) smaller case"""
    from .. import c16_progs as G

    if case.get("kind") != "find" or case.get("scope_path") or case.get("block_scope") \
            or case.get("expr_scope"):
        return case
    src = case["src"]
    key = "@proc\ndef " + case["proc"] + "("
    if key not in src:
        return case
    head = src[: src.index(key)]
    lines = src[src.index(key):].split("\n")
    first = 2
    while first < len(lines) and lines[first].strip().startswith("assert"):
        first += 1
    changed = True
    while changed and time.time() < deadline:
        changed = False
        for i, j in sorted(_blocks_of(lines, first), key=lambda ab: ab[0] - ab[1]):
            if time.time() > deadline:
                break
            cand = lines[:i] + lines[j:]
            new_src = head + "\n".join(cand)
            try:
                mod = G.load_module(new_src, scratch, "min")
            except Exception:
                continue
            try:
                r = _replay_find(dict(case, src=new_src), mod)
            except Exception:
                continue
            finally:
                G.unload_module(mod)
            if r["reproduced"]:
                lines = cand
                case = dict(case, src=new_src, detail=r["detail"])
                changed = True
                break
    return case


# --------------------------------------------------------------------------- #
# shard / finish / replay


def _run_seed_case(W, case, mod, rng):
    p = getattr(mod, case["proc"])
    caller = _mk_caller(mod)
    kind = case.get("kind")
    if kind == "find":
        sp = tuple(tuple(x) for x in case["scope_path"]) if case.get("scope_path") else None
        bs = case.get("block_scope")
        if bs:
            bs = (tuple(tuple(x) for x in bs[0]), bs[1], bs[2], bs[3])
        es = tuple(tuple(x) for x in case["expr_scope"]) if case.get("expr_scope") else None
        _find_case(W, p, caller, case["src"], case["proc"], case["past"], case["pattern"],
                   case["pclass"], scope_path=sp, block_scope=bs, api=case.get("api"), rng=rng,
                   shape="seed", try_select=False, expr_scope=es)
    elif kind == "equiv":
        _shorthand_equiv(W, p, caller, case["src"], case["proc"], case["past"],
                         case["pattern"], case["pclass"])
    elif kind == "alloc_or_arg":
        _alloc_or_arg_case(W, p, caller, case["src"], case["proc"], case["name"], rng, "seed",
                           case.get("n"))
    elif kind == "nav":
        for v in nav_check(p, rng, max_slices=400)[0]:
            W.report(v["sig"], {"kind": "nav", "src": case["src"], "proc": case["proc"],
                                "sig": v["sig"], "detail": v["detail"]})


def shard(ctx):
    from .. import c16_progs as G

    _exo()
    W = _Work(ctx)
    rng = ctx.rng
    nprog = 0
    maxp = int(ctx.params.get("max_programs", 400))
    budget = 70 if ctx.tier == "thorough" else 50

    def run(src, tag):
        try:
            mod = G.load_module(src, ctx.scratch, tag)
        except Exception as e:  # noqa
            ctx.stat("gen_rejected")
            ctx.stat("gen_rejected." + type(e).__name__)
            return
        try:
            process_program(W, src, mod, rng, budget)
        finally:
            G.unload_module(mod)

    if ctx.shard == 0:
        # committed witnesses: re-judged exactly, so that each mechanism they stand
        # for fires with its signature in every run, whatever the random stream does
        for f in sorted(common.SEEDS.glob("C16_*.json")):
            try:
                d = json.loads(f.read_text())
                case = d.get("case", d)
                mod = G.load_module(case["src"], ctx.scratch, "seed")
            except Exception:
                ctx.stat("seed_unreadable")
                continue
            try:
                _run_seed_case(W, case, mod, rng)
                ctx.stat("seed_cases")
            except Exception:
                ctx.stat("seed_failed")
            finally:
                G.unload_module(mod)
        for k, src in enumerate(G.CORPUS):
            run(src, f"c{k}")
            nprog += 1
    # wall-clock only limits generation above a floor that every shard reaches
    minp = int(ctx.params.get("min_programs", 0))
    while nprog < minp or (nprog < maxp and not ctx.out_of_time()):
        size = rng.choice([0, 1, 1, 2, 2, 3])
        src = G.gen_program(rng, size)
        run(src, f"s{ctx.shard}")
        nprog += 1
        if nprog % 20 == 0:
            ctx.flush_stats()
    # smallest witnesses (minimised a little more when cheap)
    deadline = time.time() + 20
    for h, (size, sig, case) in list(W.best.items())[:12]:
        try:
            small = minimise_find(case, ctx.scratch, deadline)
        except Exception:
            small = case
        W.best[h] = (len(small.get("src", "")), sig, small)
    W.flush_smallest()


def finish(agg, tier):
    s = agg.stats
    quick = tier != "thorough"
    # about a third of what a run on a heavily loaded machine reaches
    need = {
        "programs": 40 if quick else 350,
        "pairs": 2500 if quick else 35000,
        "pairs_with_sure_match": 1000 if quick else 25000,
        "pairs_no_match": 300 if quick else 10000,
        "pairs_sure_no_match": 150 if quick else 8000,
        "select_checks": 2000 if quick else 60000,
        "select_out_of_range": 300 if quick else 15000,
        "pairs_scope_stmt": 200 if quick else 4000,
        "pairs_scope_expr": 30 if quick else 800,
        "nav_law_evaluations": 12000 if quick else 120000,
        "nav_positions": 1500 if quick else 15000,
        "nav.edge_next": 120 if quick else 1200,
        "nav.edge_prev": 120 if quick else 1200,
        "nav.expand_edge": 400 if quick else 4000,
        "nav.child_orelse": 12 if quick else 140,
    }
    inconc = []
    for k, v in need.items():
        if s.get(k, 0) < v:
            inconc.append(f"{k}={s.get(k, 0)} < {v}")
    classes = {k[4:]: v for k, v in s.items() if k.startswith("pat.")}
    for fam in ("stmt_seq", "stmt_for", "stmt_if", "expr_", "short_loop", "_shole", "_mut"):
        if not any(fam in c for c in classes):
            inconc.append(f"no pattern of class *{fam}*")
    laws = {k[4:]: v for k, v in s.items() if k.startswith("nav.")}
    cov = {
        "programs": s.get("programs", 0),
        "pattern_program_pairs": s.get("pairs", 0),
        "patterns_by_class": dict(sorted(classes.items())),
        "matches_compared": s.get("matches_compared", 0),
        "pairs_with_sure_match": s.get("pairs_with_sure_match", 0),
        "no_match_cases": s.get("pairs_no_match", 0),
        "sure_no_match_cases": s.get("pairs_sure_no_match", 0),
        "select_n_checks": s.get("select_checks", 0),
        "select_n_out_of_range": s.get("select_out_of_range", 0),
        "candidates": {k: s.get("candidates_" + k, 0) for k in ("sure_match", "sure_nomatch", "unsure")},
        "undocumented_position_hits": s.get("undocumented_position", 0),
        "undocumented_position_candidates_not_returned": s.get("undocumented_position_candidates", 0)
        - s.get("undocumented_position", 0),
        "navigation_law_evaluations": dict(sorted(laws.items())),
        "cursor_positions_visited": s.get("nav_positions", 0),
        "distinct_shape_class_combos": len(agg.distinct),
    }
    return {"evaluations": int(s.get("evaluations", 0)), "coverage": cov, "inconclusive": inconc}


def _replay_find(case, mod):
    p = getattr(mod, case["proc"])
    caller = _mk_caller(mod)
    sp = tuple(tuple(x) for x in case["scope_path"]) if case.get("scope_path") else None
    bs = case.get("block_scope")
    if bs:
        bs = (tuple(tuple(x) for x in bs[0]), bs[1], bs[2], bs[3])
    sels = [tuple(s) if s else None for s in case.get("selects") or []]
    es = tuple(tuple(x) for x in case["expr_scope"]) if case.get("expr_scope") else None
    if case.get("uq"):
        text, vals, prior = case["uq"]
        obj = _scope_cursor(p, sp) if sp is not None else p

        def uqcall(vs):
            try:
                return [key_of(c) for c in caller.find_uq(obj, text, vs[0], vs[1] if len(vs) > 1 else None)]
            except Exception as e:  # noqa
                return type(e).__name__

        for pv in prior:
            uqcall(pv)
        a = _real_find(p, caller, case["pattern"], "find_all", sp)
        ka = [key_of(c) for c in a[1]] if a[0] == "ok" else ("SchedulingError" if a[0] == "none" else a[1])
        kb = uqcall(vals)
        return {"reproduced": ka != kb, "sig": case["sig"],
                "detail": f"after unquoting {prior} on the same line: literal {case['pattern']!r} -> {ka}; {text!r} with {vals} -> {kb}"}
    viol, info = check_find(p, caller, case["past"], case["pattern"], case["pclass"], sp, bs,
                            case.get("api"), selects=sels, expr_scope=es)
    hit = [v for v in viol if v["sig"] == case["sig"]]
    return {"reproduced": bool(hit), "sig": case["sig"],
            "detail": (hit[0]["detail"] if hit else f"not reproduced; {len(viol)} other "
                                                     f"violation(s); info={info}")}


def replay(case):
    from .. import c16_progs as G

    _exo()
    tmp = Path(tempfile.mkdtemp(prefix="vf_C16_replay_"))
    try:
        mod = G.load_module(case["src"], tmp, "r")
        kind = case.get("kind")
        if kind == "find":
            r = _replay_find(case, mod)
        elif kind == "equiv":
            W = _Work(None)
            _shorthand_equiv(W, getattr(mod, case["proc"]), _mk_caller(mod), case["src"],
                             case["proc"], case["past"], case["pattern"], case["pclass"])
            hit = [c for s, c in W.viol if s == case["sig"]]
            r = {"reproduced": bool(hit), "sig": case["sig"],
                 "detail": hit[0]["detail"] if hit else "not reproduced"}
        elif kind == "alloc_or_arg":
            import random

            W = _Work(None)
            _alloc_or_arg_case(W, getattr(mod, case["proc"]), _mk_caller(mod), case["src"],
                               case["proc"], case["name"], random.Random(0), "", case.get("n"))
            hit = [c for s, c in W.viol if s == case["sig"]]
            r = {"reproduced": bool(hit), "sig": case["sig"],
                 "detail": hit[0]["detail"] if hit else "not reproduced"}
        elif kind == "nav":
            hit = []
            for seed in range(4):
                import random

                viol, _ = nav_check(getattr(mod, case["proc"]), random.Random(seed), max_slices=400)
                hit = [v for v in viol if v["sig"] == case["sig"]]
                if hit:
                    break
            r = {"reproduced": bool(hit), "sig": case["sig"],
                 "detail": hit[0]["detail"] if hit else "not reproduced"}
        else:
            r = {"reproduced": None, "sig": case.get("sig"), "detail": f"unknown kind {kind}"}
        if r.get("reproduced"):
            main = case["src"]
            k = "@proc\ndef " + case["proc"]
            if k in main:
                main = main[main.index(k):]
            r["detail"] = (f"{r['detail']}\n--- procedure ---\n{main}\n--- pattern ---\n"
                           f"{case.get('pattern', case.get('name', ''))}")
        return r
    finally:
        shutil.rmtree(tmp, ignore_errors=True)
