"""C14 Library instructions do what their Exo bodies say (translation validation by execution;
DESIGN.md section 3/C14).

For every `@instr` of exo.platforms.x86 a wrapper procedure is generated as Exo source
(vf/c14_wrap.py), compiled by exo, built with gcc -O1 + ASan/UBSan and run on embedded
operands; the reference interpreter executes the same wrapper with the instruction's
*body*.  Every element of every wrapper buffer is compared.
"""

import json
import os
import random
import re
import shutil
import tempfile
from pathlib import Path

from .. import common

PROP = "C14"
LEVEL = "translation_validation"
RULE = (
    "every @instr of exo.platforms.x86 whose ISA extension the host CPU has is wrapped automatically: DRAM "
    "arguments for all operands (larger than the operand, so that margins act as canaries), register arrays in the "
    "memory the instruction demands (with leading dimensions and untouched rows), loaded/stored by the library's plain "
    "load/store instructions, the instruction called at a generated window placement (literal or run-time row indices "
    "and offsets, 1-D/2-D DRAM layouts, non-unit stride where no assertion forbids it, every permitted value of "
    "size/mask arguments, literal or run-time), operand contents from small/distinct/tied/dyadic/wide pools "
    "(full-range and edge values for integer lanes, power-of-two divisors for the exact class); compiled wrapper "
    "(intrinsic) vs reference interpreter running the body; bit-exact when the interpreter proves the run exact, "
    "loose otherwise (never a verdict). A case = (instruction, placement, operand set); a wrapper counts when gcc "
    "built it and >=1 operand set was compared"
)
ASSUMPTIONS = [
    "reference interpreter (exact rationals) defines the meaning of the instruction body; gcc 12 -O1 -ffp-contract=off "
    "with -mavx2 -mfma -mf16c (-mavx512f/bw/vl/dq) on this host defines the meaning of the intrinsics",
    "AVX2/AVX512 memories forbid direct element access (can_read() is False, write() raises), so the wrappers move "
    "data with the library's own plain load/store instructions (mm256_loadu_ps/storeu_ps, _pd, _si256, "
    "mm512_loadu_ps/storeu_ps); each wrapper carries a DRAM->register->DRAM round trip of every register kind it uses "
    "through an array the instruction never sees, and a result is only attributed to the instruction when that round "
    "trip is intact in the same binary; a pair of compensating bugs in a load and its store is a blind spot (narrowed "
    "by the masked/prefix loads and stores and the f32->f64 conversions, which cross the pairs), and a defect in a "
    "plain load or store is reported against both members of the pair",
    "signed zeros, NaN, infinities and denormals are not representable in the exact-rational interpreter and are not "
    "generated; operand sets that leave the exact class (non-dyadic quotients, integer overflow) are compared loosely "
    "and never decide",
    "size arguments without an upper bound among the assertions are tried up to 24 and at 31..33, 63, 64",
    "operands are never aliased (each operand has its own array)",
]

MONITOR = "instr-vs-body"


def _max_par():
    """gcc builds of 16 shards at once run into cbuild's compile watchdog when the host is
    oversubscribed by other jobs: fewer shards at a time then (scheduling only, never a verdict)"""
    try:
        load = os.getloadavg()[0]
    except OSError:
        load = 0.0
    return int(min(common.NCPU, max(4, common.NCPU - load)))


def plan(tier, seed):
    quick = tier == "quick"
    return {
        "nshards": 16,
        "max_par": _max_par(),
        "params": {
            "soft_s": 1500 if quick else 5000,
            "placements": 2 if quick else 5,
            "nsets": 8 if quick else 24,
        },
        "hard_timeout_s": 2700 if quick else 9000,
    }


# ----------------------------------------------------------------------------
def _sanitize(s):
    return re.sub(r"[|\n]", " ", str(s))[:160]


def _san_class(s):
    if s.startswith("san:ubsan"):
        return "ubsan"
    m = re.match(r"(san:asan:[\w-]+|san:leak|crash:signal\d+|exit:\d+)", s)
    return m.group(1) if m else s[:40]


def _sig(info_name, feature, kind, extra=None):
    sig = {"prop": PROP, "monitor": MONITOR, "kind": kind, "instr": info_name, "feature": feature}
    if extra:
        sig.update(extra)
    return sig


def _roster(modname=None):
    """(procs, infos, unwrappable{name: reason}, harness)"""
    from .. import c14_wrap as W

    procs = dict(W.discover(modname or W.PLATFORM_MODULE))
    infos, unwrappable = [], {}
    for name, p in procs.items():
        try:
            infos.append(W.analyse(name, p))
        except W.Unwrappable as e:
            unwrappable[name] = str(e)
        except Exception as e:  # analysis must never take the shard down
            unwrappable[name] = f"analysis failed: {type(e).__name__}: {e}"
    harness = W.find_harness(infos, procs)
    return procs, infos, unwrappable, harness


def _wargs_json(meta):
    out = []
    for w in meta["wargs"]:
        out.append({k: v for k, v in w.items() if k != "n"})
    return out


def _judge(W, info, meta, harness, specs, r):
    """-> list of (kind, sig_extra, spec_index, detail) ; kind in mismatch|sanitizer|gcc_reject|harness"""
    out = []
    hc_names = {w["name"] for w in meta["wargs"] if w["role"] == "hc"}
    pair = set()
    for k, h in harness.items():
        if info.name in (h.get("load", (None,))[0], h.get("store", (None,))[0]):
            pair.add(k)
    if r.status == "gcc_reject":
        out.append(("gcc_reject", None, None, r.detail))
        return out
    for k, san, tail in r.san[:1]:
        out.append(("sanitizer", {"san": _san_class(san)}, k, san + "\n" + tail))
    lanes = set()
    for k in r.bad:
        d = r.diffs[k]
        touched = {x.get("arg") for x in d}
        if touched & hc_names:
            kinds = {w["kind"] for w in meta["wargs"] if w["role"] == "hc" and w["name"] in touched}
            if not (kinds <= pair):
                # the load/store round trip is not intact in this binary: nothing is attributed to the instruction
                out.append(("harness", None, k, f"round trip of {sorted(kinds - pair)} not intact"))
                return [o for o in out if o[0] != "mismatch"]
        lanes |= set(W.where_hint(info, meta, specs[k], d))
    if r.bad:
        # one witness per wrapper: the operand set with the fewest differing elements
        k = min(r.bad, key=lambda q: (len(r.diffs[q]), q))
        out.append(("mismatch", {"lanes": "+".join(sorted(lanes))}, k, W.describe_diffs(info, meta, specs[k], r.diffs[k])))
    return out


def shard(ctx):
    from .. import c14_wrap as W
    from ..gen_prog import load_program

    flags = W.cpu_flags()
    procs, infos, unwrappable, harness = _roster()
    host = []
    for info in infos:
        missing = sorted(info.need - flags)
        if ctx.shard == 0:
            ctx.stat(f"roster|{info.name}|isa|{info.isa}")
            if info.line:
                ctx.stat(f"roster|{info.name}|line|{info.line}")
            ctx.stat(f"roster|{info.name}|feature|{info.feature}")
            if missing:
                ctx.stat(f"roster|{info.name}|skip_isa|{','.join(missing)}")
        if not missing:
            host.append(info)
    if ctx.shard == 0:
        for name, why in unwrappable.items():
            ctx.stat(f"roster|{name}|isa|unknown")
            ctx.stat(f"roster|{name}|unwrappable|{_sanitize(why)}")
        for k, h in sorted(harness.items()):
            ctx.stat(f"harness_pair|{k}|{h.get('load', ('-',))[0]}|{h.get('store', ('-',))[0]}")
    P = int(ctx.params.get("placements", 2))
    nsets = int(ctx.params.get("nsets", 8))
    tasks = [(info, pidx) for pidx in range(P) for info in host]
    # hostile allocations: an operand in the upper half of a register array twice the vector width
    tasks += [(info, "hw") for info in host if any(a.kind == "reg" for a in info.args)]
    # hostile call sites: a stride the instruction's own assertion forbids
    tasks += [(info, "hs") for info in host if any(a.kind == "dram" and 0 in a.unit_stride for a in info.args)]
    mine = [t for j, t in enumerate(tasks) if j % ctx.nshards == ctx.shard]
    batch_n = int(ctx.params.get("batch", 8))
    batch_cases = int(ctx.params.get("batch_cases", 128))
    items = []
    for info, pidx in mine:
        key = f"instr|{info.name}|"
        # deterministic per (VERIF_SEED, instruction, placement): independent of the distribution over shards
        rng = random.Random(f"{ctx.seed}:{info.name}:{pidx}")
        try:
            pl = W.gen_placement(info, rng, pidx)
            src, meta = W.build_wrapper(info, pl, harness)
        except W.Unwrappable as e:
            ctx.stat(key + "status|unwrappable")
            ctx.stat(key + "why|" + _sanitize(e))
            continue
        try:
            mod = load_program(src, ctx.scratch, tag="c14")
            proc = getattr(mod, meta["proc"])
        except Exception as e:
            # exo refuses the wrapper: either the generator is wrong or exo is conservative; never a violation
            if pidx == "hs":
                # the expected outcome of a hostile call site
                ctx.stat("hostile_stride_sites_refused")
                continue
            ctx.stat(key + "status|exo_reject")
            ctx.stat(key + "why|" + _sanitize(f"{type(e).__name__}: {e}"))
            continue
        ins = W.gen_inputs(info, meta, rng, nsets)
        prep = W.Prepared(proc, [x[0] for x in ins])
        items.append((info, pidx, pl, src, meta, ins, prep))
    # one gcc build per chunk: at most batch_n wrappers and about batch_cases embedded operand sets
    # (the compile time of the generated driver grows with the number of embedded cases)
    chunks, cur, ncur = [], [], 0
    for it in items:
        n = len(it[-1].ins)
        if cur and (len(cur) >= batch_n or ncur + n > batch_cases):
            chunks.append(cur)
            cur, ncur = [], 0
        cur.append(it)
        ncur += n
    if cur:
        chunks.append(cur)
    for b0, chunk in enumerate(chunks):
        if ctx.out_of_time():
            for it in chunk:
                ctx.stat(f"instr|{it[0].name}|status|budget")
                ctx.inconclusive("budget")
            continue
        nb = W.execute_batch([it[-1] for it in chunk], ctx.scratch / f"b{b0}", max_rebuilds=1)
        ctx.stat("builds", nb)
        for info, pidx, pl, src, meta, ins, prep in chunk:
            _report(ctx, W, harness, info, pidx, pl, src, meta, ins, prep.res)
            prep.ins = None  # free the interpreter states


def _report(ctx, W, harness, info, pidx, pl, src, meta, ins, r):
    key = f"instr|{info.name}|"
    specs = [x[0] for x in ins]
    if r.unclean:
        ctx.stat(key + "unclean_inputs", r.unclean)
        ctx.stat("unclean_inputs", r.unclean)
    if pidx == "hw" and r.status == "exo_reject":
        # the expected outcome of a hostile allocation
        ctx.stat("hostile_wide_registers_refused")
        return
    if r.status in ("exo_reject", "no_input", "driver_error", "timeout", None):
        ctx.stat(key + "status|" + str(r.status))
        ctx.stat(key + "why|" + _sanitize(r.detail))
        if r.status == "timeout":
            ctx.inconclusive("watchdog")
        return
    verdicts = _judge(W, info, meta, harness, specs, r)
    if any(v[0] == "harness" for v in verdicts):
        # not attributed to the instruction (its own load/store tests report the pair)
        ctx.stat(key + "status|harness_untrusted")
        ctx.stat(key + "why|" + _sanitize([v for v in verdicts if v[0] == "harness"][0][3]))
        ctx.stat("harness_untrusted")
        return
    ctx.stat(key + "status|" + str(r.status))
    if r.ninputs:
        ctx.stat(key + "placements")
        ctx.stat(key + "inputs", r.ninputs)
        ctx.stat(key + "exact", r.nexact)
        ctx.stat("wrappers_compared")
        ctx.stat("inputs_run", r.ninputs)
        ctx.stat("inputs_exact_class", r.nexact)
        ctx.stat("evaluations", r.ninputs)
        for k in r.compared:
            for c, v in ins[k][1]["ctl"].items():
                ctx.stat(key + f"ctl|{c}={v}")
        for k in r.compared:
            ctx.distinct(common.jhash([info.name, pl, specs[k].to_json()]), nontrivial=True)
    if r.napprox_mismatch:
        ctx.stat(key + "approx_mismatch", r.napprox_mismatch)
        ctx.stat("approx_mismatch", r.napprox_mismatch)
    for kind, extra, k, detail in verdicts:
        sig = _sig(info.name, info.feature, kind, extra)
        case = {
            "instr": info.name,
            "line": info.line,
            "c_instr": info.c_instr,
            "wrapper": src,
            "proc": meta["proc"],
            "call": meta["call"],
            "placement": pl,
            "wargs": _wargs_json(meta),
            "windows": meta.get("windows"),
            "ctl_mode": meta.get("ctl_mode"),
            "ctl_lit": meta.get("ctl_lit"),
            "kind": kind,
            "inputs": [specs[k].to_json()] if k is not None else [s.to_json() for s in specs[:2]],
            "detail": (detail or "")[:3000],
        }
        if kind == "mismatch":
            case["failing_operand_sets"] = len(r.bad)
            ctx.stat("mismatches")
        ctx.violation(sig, case)
    ctx.sample(
        {
            "instr": info.name,
            "placement": pidx,
            "call": meta["call"],
            "status": r.status,
            "inputs": r.ninputs,
            "exact": r.nexact,
            "wrapper": src,
            "first_input": specs[0].brief()[:300],
        },
        limit=1,
    )


# ----------------------------------------------------------------------------
def finish(agg, tier):
    st = agg.stats
    roster = {}
    per = {}
    pairs = []
    for k, v in st.items():
        parts = k.split("|")
        if parts[0] == "roster":
            d = roster.setdefault(parts[1], {})
            d[parts[2]] = parts[3] if len(parts) > 3 else v
        elif parts[0] == "instr":
            d = per.setdefault(parts[1], {"placements": 0, "inputs": 0, "exact": 0, "status": {}, "why": [], "ctl_values": {}})
            f = parts[2]
            if f in ("placements", "inputs", "exact", "approx_mismatch", "unclean_inputs"):
                d[f] = d.get(f, 0) + v
            elif f == "status":
                d["status"][parts[3]] = d["status"].get(parts[3], 0) + v
            elif f == "why":
                d["why"].append(parts[3])
            elif f == "ctl":
                c, val = parts[3].split("=")
                d["ctl_values"].setdefault(c, set()).add(val)
        elif parts[0] == "harness_pair":
            pairs.append({"kind": parts[1], "load": parts[2], "store": parts[3]})
    table = {}
    host_exec, compared_exact, skipped_isa, unwrappable, undecided = [], [], {}, {}, {}
    by_isa = {}
    for name in sorted(roster):
        ro = roster[name]
        row = {"isa": ro.get("isa"), "line": ro.get("line"), "feature": ro.get("feature")}
        c = by_isa.setdefault(ro.get("isa"), {"instrs": 0, "wrapped": 0, "compared_exact": 0, "skipped_isa": 0, "unwrappable": 0, "violating": 0})
        c["instrs"] += 1
        if "skip_isa" in ro:
            row["status"] = "skipped: host CPU lacks " + ro["skip_isa"]
            skipped_isa[name] = ro["skip_isa"]
            c["skipped_isa"] += 1
            table[name] = row
            continue
        host_exec.append(name)
        if "unwrappable" in ro:
            row["status"] = "inconclusive: not wrapped automatically: " + ro["unwrappable"]
            unwrappable[name] = ro["unwrappable"]
            c["unwrappable"] += 1
            table[name] = row
            continue
        d = per.get(name)
        if d is None:
            row["status"] = "inconclusive: no task ran"
            undecided[name] = "no task ran"
            table[name] = row
            continue
        row["placements_tried"] = sum(d["status"].values())
        row["placements_compared"] = d["placements"]
        row["inputs_run"] = d["inputs"]
        row["inputs_exact_class"] = d["exact"]
        if d.get("approx_mismatch"):
            row["approx_class_disagreements"] = d["approx_mismatch"]
        if d.get("unclean_inputs"):
            row["inputs_rejected_by_interpreter"] = d["unclean_inputs"]
        if d["ctl_values"]:
            row["size_argument_values"] = {c: sorted(v, key=lambda x: (len(x), x)) for c, v in d["ctl_values"].items()}
        row["status_histogram"] = d["status"]
        if d["why"]:
            row["notes"] = sorted(set(d["why"]))[:4]
        if d["placements"]:
            c["wrapped"] += 1
        bad = [s for s in ("mismatch", "sanitizer", "gcc_reject") if d["status"].get(s)]
        if bad:
            row["status"] = "violating: " + ",".join(bad)
            c["violating"] += 1
        elif d["exact"] >= 1:
            row["status"] = "ok"
        else:
            row["status"] = "inconclusive: " + (",".join(sorted(d["status"])) or "nothing compared")
            undecided[name] = row["status"]
        if d["exact"] >= 1:
            compared_exact.append(name)
            c["compared_exact"] += 1
        table[name] = row
    inc = []
    nh = len(host_exec)
    if not roster:
        inc.append("no roster (shard 0 did not finish)")
    elif nh == 0:
        inc.append("no instruction is executable on this host")
    elif len(compared_exact) < 0.8 * nh:
        inc.append(f"only {len(compared_exact)} of {nh} host-executable instructions were compared on >= 1 exact-class input")
    wrappers = st.get("wrappers_compared", 0)
    return {
        "evaluations": st.get("evaluations", 0),
        "coverage": {
            "programs": wrappers,
            "disagreements_checked": st.get("mismatches", 0) + st.get("approx_mismatch", 0),
            "inputs_run": st.get("inputs_run", 0),
            "inputs_exact_class": st.get("inputs_exact_class", 0),
            "gcc_builds": st.get("builds", 0),
            "instructions_total": len(roster),
            "instructions_host_executable": nh,
            "instructions_compared_exact": len(compared_exact),
            "instructions_skipped_isa": skipped_isa,
            "instructions_not_wrapped": unwrappable,
            "instructions_undecided": undecided,
            "per_isa": by_isa,
            "harness_pairs": sorted(pairs, key=lambda p: p["kind"]),
            "per_instr": table,
            "stats": {k: v for k, v in sorted(st.items()) if "|" not in k},
        },
        "inconclusive": inc,
    }


# ----------------------------------------------------------------------------
def replay(case):
    from .. import c14_wrap as W
    from ..gen_input import InputSpec
    from ..gen_prog import load_program

    scratch = Path(tempfile.mkdtemp(prefix="vf_C14_replay_"))
    try:
        name = case["instr"]
        procs, infos, unwrappable, harness = _roster()
        info = next((i for i in infos if i.name == name), None)
        feature = info.feature if info else None
        try:
            mod = load_program(case["wrapper"], scratch, tag="c14r")
            proc = getattr(mod, case["proc"])
        except Exception as e:
            return {"reproduced": False, "sig": _sig(name, feature, "exo_reject"), "detail": f"exo no longer accepts the wrapper: {type(e).__name__}: {e}"[:800]}
        specs = [InputSpec.from_json(d) for d in case["inputs"]]
        r = W.execute(proc, specs, scratch / "b")
        kind = r.status
        want = case.get("kind")
        extra = None
        detail = f"instruction {name} (x86.py line {case.get('line')}), call {case.get('call')}\nexpansion: {str(case.get('c_instr')).strip()}\n"
        if r.status == "sanitizer":
            extra = {"san": _san_class(r.san[0][1])}
            detail += r.san[0][1] + "\n" + r.san[0][2][-1500:]
        elif r.status == "gcc_reject":
            detail += (r.detail or "")[-1500:]
        elif r.status == "mismatch":
            pass
        else:
            detail += f"status {r.status}: {r.detail or ''}"[:600]
        # a sanitizer case that also mismatches (or the reverse) still reproduces its own kind
        if r.bad and (want == "mismatch" or r.status == "mismatch"):
            kind = "mismatch"
            k = r.bad[0]
            meta = {"call": case.get("call"), "wargs": case.get("wargs", []), "windows": case.get("windows"), "ctl_mode": case.get("ctl_mode"), "ctl_lit": case.get("ctl_lit")}
            if info is not None:
                extra = {"lanes": "+".join(W.where_hint(info, meta, specs[k], r.diffs[k]))}
                detail += W.describe_diffs(info, meta, specs[k], r.diffs[k])
            else:
                extra = None
                detail += json.dumps(r.diffs[k][:12], default=str)
        reproduced = kind == want and kind in ("mismatch", "sanitizer", "gcc_reject")
        return {"reproduced": bool(reproduced), "sig": _sig(name, feature, kind, extra), "detail": detail}
    finally:
        shutil.rmtree(scratch, ignore_errors=True)
