"""C02 Generated C computes what the procedure means (translation validation; DESIGN.md section 3/C02)."""

from ..cstream import run_cstream, replay_c
from ..gen_prog import Knobs

PROP = "C02"
LEVEL = "translation_validation"
RULE = (
    "generated Exo programs as written and after 0-4 accepted scheduling steps are compiled by exo, built with gcc "
    "-O1 under ASan+UBSan, run on embedded inputs (boundary sizes, padded/strided windows, negative index "
    "arguments) and compared with the reference interpreter; bit-exact when every intermediate is exactly "
    "representable in the declared C types (exact class), otherwise loosely (approximate class, never a verdict); "
    "a program counts when gcc built it and >=1 input ran; distinct by alpha-invariant fingerprint of the procedure"
)
ASSUMPTIONS = [
    "reference interpreter defines the meaning; gcc 12 -O1 -ffp-contract=off is the 'ordinary C compiler'",
    "only host-realisable memories (DRAM, DRAM_STATIC, DRAM_STACK, AVX2/AVX512 via C14)",
]


def knobs(rng):
    return Knobs(
        p_datadiv=rng.choice([0.0, 0.0, 0.15]),
        p_config=rng.choice([0, 0.3]),
        p_window=rng.choice([0.0, 0.2, 0.35]),
        p_call=rng.choice([0.0, 0.3, 0.5]),
        p_quasi=rng.choice([0.15, 0.4]),
        p_extern=rng.choice([0.0, 0.1]),
        precision=rng.choice(["f32", "f32", "f32", "f64", "i32", "i8"]),
        hostile_names=rng.random() < 0.25,
        max_stmts=rng.choice([6, 9, 12]),
    )


def on_result(ctx, sess, res, case):
    if res.status == "mismatch":
        d0 = (res.diffs or [{}])[0]
        sig = {"prop": "C02", "monitor": "c-vs-interp", "kind": "mismatch", "where": "config" if "cfg" in d0 else "buffer", "scheduled": bool(sess.steps)}
        try:
            from ..cdiag import diagnose_c

            sig["diag"] = diagnose_c(sess.cur._loopir_proc, res)
        except Exception as e:
            sig["diag"] = {"diag_error": type(e).__name__}
        ctx.violation(sig, case)
    elif res.status == "approx_mismatch":
        ctx.stat("c.approx_mismatch")


def plan(tier, seed):
    quick = tier == "quick"
    return {"nshards": 16, "params": {"soft_s": 1500 if quick else 5400, "nprograms": 16 if quick else 64, "ninputs": 4 if quick else 8}, "hard_timeout_s": 2700 if quick else 9000}


def _templates(rng):
    from ..ctemplates import any_ctemplate
    from ..templates import any_template

    return any_ctemplate(rng) if rng.random() < 0.7 else any_template(rng)


def shard(ctx):
    run_cstream(ctx, knobs, on_result, ninputs=ctx.params["ninputs"], templates=_templates, template_prob=0.4)


def finish(agg, tier):
    st = agg.stats
    programs = st.get("c.status.ok", 0) + st.get("c.status.mismatch", 0) + st.get("c.status.approx_mismatch", 0)
    inc = []
    if programs < (40 if tier == "quick" else 400):
        inc.append(f"only {programs} programs compared")
    if st.get("c.exact_inputs", 0) < 50:
        inc.append("fewer than 50 inputs in the exact class")
    return {
        "evaluations": st.get("evaluations", 0),
        "coverage": {
            "programs": programs,
            "disagreements_checked": st.get("c.status.mismatch", 0) + st.get("c.approx_mismatch", 0),
            "inputs_run": st.get("c.inputs", 0),
            "inputs_exact_class": st.get("c.exact_inputs", 0),
            "status_histogram": {k[len("c.status."):]: v for k, v in st.items() if k.startswith("c.status.")},
        },
        "inconclusive": inc,
    }


def replay(case):
    r = replay_c(case, ("mismatch",))
    r["sig"] = {"prop": "C02", "monitor": "c-vs-interp", "kind": r.get("status")}
    return r
