"""C03 Accepted procedures are memory-safe and call-safe (DESIGN.md section 3/C03)."""

import random
import signal

from exo.core.LoopIR import LoopIR, T

from .. import irutil
from ..common import jhash, CaseTimeout
from ..gen_prog import gen_program, load_program, Knobs
from ..gen_input import gen_input, InputSpec, walk_procs
from ..refinterp import Interp
from ..stream_driver import CollectCtx

PROP = "C03"
LEVEL = "exploration"
RULE = (
    "generated Exo source texts in 'boundary' mode: every program has a twin that is unsafe by exactly one (index "
    "offset, loop bound, window extent, callee index argument, modulo range); both are submitted to @proc; every "
    "accepted procedure (root and callees) is executed in the reference interpreter on inputs satisfying its assertions "
    "(boundary sizes first, padded and strided window layouts) with bounds, call-precondition, size, shape, aliasing and "
    "loop-bound monitors; rejection of a safe program is conservative and only counted; distinct by alpha fingerprint, "
    "non-trivial when >= 1 input was executed"
)
ASSUMPTIONS = ["unsafety needing values outside the sampled ranges (sizes <= 12, index arguments in [-3, 8]) is out of reach", "vf/refinterp.py defines 'inside the declared extent'"]


def knobs(rng, twin):
    return Knobs(
        unsafe_twin=twin,
        p_quasi=rng.choice([0.2, 0.5]),
        p_window=rng.choice([0.2, 0.4]),
        p_call=rng.choice([0.3, 0.5]),
        p_if=rng.choice([0.2, 0.4]),
        p_alloc=rng.choice([0.2, 0.4]),
        nonzero_lo=0.3,
        max_stmts=rng.choice([5, 8]),
        ncallees=rng.choice([1, 2]),
    )


def judge(ctx, text, root, proc, twin_site, ninputs, rng, emit=True):
    ir = proc._loopir_proc
    ctx.stat("evaluations")
    ran = 0
    for t in range(ninputs * 3):
        if ran >= ninputs:
            break
        spec = gen_input(ir, rng, size_cap=12 if t % 4 == 3 else 8, boundary=(t < 3))
        if spec is None:
            continue
        vals, cfg = spec.materialise()
        res = Interp(budget=200000, alias_strict=True).run(ir, vals, cfg)
        if res.aborted in ("budget", "recursion"):
            continue
        ran += 1
        ctx.stat("inputs.executed")
        if res.events:
            ev = res.events[0]
            if ev.kind == "precondition":
                continue
            in_callee = not any(s is ev.node for _, s in irutil.all_stmts(ir)) and not _expr_in(ir, ev.node)
            sig = {"prop": "C03", "monitor": "ir-sanitizer", "kind": ev.kind, "in_callee": in_callee, "node": type(ev.node).__name__ if ev.node is not None else None}
            sig["diag"] = diag(ev, ir)
            if emit:
                ctx.violation(sig, {"text": text, "root": root, "input": spec.to_json(), "event": ev.as_dict(), "twin_site": twin_site})
            return sig
    if ran:
        ctx.distinct(jhash([irutil.fingerprint(ir, alpha=True)]))
    else:
        ctx.stat("c03.no_input")
    return None


def _expr_in(ir, node):
    for _, s in irutil.all_stmts(ir):
        for _, _, e in irutil.stmt_exprs(s):
            for _, sub in irutil.sub_exprs(e):
                if sub is node:
                    return True
    return False


def diag(ev, ir=None):
    """mechanism hints from the offending node and its context (no random values)"""
    d = {}
    n = ev.node
    det = ev.detail if isinstance(ev.detail, dict) else {}
    if det.get("win"):
        d["window_formation"] = True
        d["window_point"] = "point" in det
    txt = str(n) if n is not None else ""
    d["has_mod"] = "%" in txt
    d["has_div"] = "/" in txt
    if isinstance(n, (LoopIR.Assign, LoopIR.Reduce)):
        d["write"] = True
    if ir is not None and n is not None:
        # is the accessed name a window statement's alias?  is the read nested in an extern call?
        wins = set()
        for pr in walk_procs(ir).values():
            for _, s in irutil.all_stmts(pr):
                if isinstance(s, LoopIR.WindowStmt):
                    wins.add(s.name)
        nm = getattr(n, "name", None)
        d["through_window_stmt"] = nm in wins
        d["window_stmt_rhs"] = any(isinstance(s, LoopIR.WindowStmt) and s.rhs is n for pr in walk_procs(ir).values() for _, s in irutil.all_stmts(pr))
        if isinstance(n, LoopIR.Read):
            inside = False
            for pr in walk_procs(ir).values():
                for _, s in irutil.all_stmts(pr):
                    for _, _, e in irutil.stmt_exprs(s):
                        for _, sub in irutil.sub_exprs(e):
                            if isinstance(sub, LoopIR.Extern) and any(x is n for a in sub.args for _, x in irutil.sub_exprs(a)):
                                inside = True
            d["inside_extern_arg"] = inside
    return d


def alias_program(rng):
    """a call that receives two views of one buffer, possibly through a chain of window
    statements (unsafe twin) or two different buffers (safe)"""
    from ..gen_prog import GenProgram, HEADER

    n = rng.choice([4, 5])
    chain = rng.choice([1, 2, 2])
    unsafe = rng.random() < 0.6
    src_buf = "x" if unsafe else "z"
    lines = [f"a = {src_buf}[0:{n + 2}]"]
    last = "a"
    if chain == 2:
        lines.append(f"b = a[1:{n + 1}]")
        last, hi = "b", n
        arg2 = "b"
    else:
        arg2 = f"a[1:{n + 1}]"
    body = "\n    ".join(lines)
    text = HEADER + f"""@proc
def copyn(dst: [f32][{n}], src: [f32][{n}]):
    for i in seq(0, {n}):
        dst[i] = src[i] + 1.0

@proc
def root(x: f32[{n + 2}], z: f32[{n + 2}]):
    {body}
    copyn(x[0:{n}], {arg2})
"""
    return GenProgram(text, "root", ["copyn"], [], {"twin_site": f"aliasing through a {chain}-level window chain" if unsafe else None, "knobs": {}})


def nested_window_program(rng):
    """a window cut from a window statement (literal, non-zero offsets on both levels; point and
    interval selections) read directly / handed to a callee that reads or writes it; the unsafe twin
    is off by exactly one row or column of the underlying buffer"""
    from ..gen_prog import GenProgram, HEADER

    R, C = rng.choice([5, 6, 8]), 4
    a = rng.choice([1, 2, 3])
    unsafe = rng.random() < 0.55
    p_ok = R - 1 - a
    p = p_ok + 1 if unsafe else rng.choice([p_ok, max(0, p_ok - 1)])
    kind = rng.choice(["callee_write", "callee_read", "read_through", "interval"])
    if kind == "callee_write":
        use = f"fill4(w[{p}, 0:{C}])"
    elif kind == "callee_read":
        use = f"sum4(y, w[{p}, 0:{C}])"
    elif kind == "read_through":
        use = f"v = w[{p}, 0:{C}]\n    for j in seq(0, {C}):\n        y[j] = v[j]"
    else:
        use = f"fill4(w[{p}:{p + 1}, 0:{C}][0, 0:{C}])" if False else f"sum4(y, w[{p}, 0:{C}])"
    text = HEADER + f"""@proc
def fill4(dst: [f32][{C}]):
    for i in seq(0, {C}):
        dst[i] = 1.0

@proc
def sum4(acc: f32[{C}], src: [f32][{C}]):
    for i in seq(0, {C}):
        acc[i] += src[i]

@proc
def root(x: f32[{R}, {C}], y: f32[{C}]):
    w = x[{a}:{R}, 0:{C}]
    {use}
"""
    return GenProgram(text, "root", ["fill4", "sum4"], [], {"twin_site": f"row {a}+{p} of a {R}-row buffer through a window of a window ({kind})" if unsafe else None, "knobs": {}})


def one(ctx, rng, ninputs):
    twin = rng.random() < 0.6
    try:
        r_ = rng.random()
        if r_ < 0.06:
            gp = alias_program(rng)
        elif r_ < 0.12:
            gp = nested_window_program(rng)
        else:
            gp = gen_program(rng, knobs(rng, twin))
    except Exception:
        ctx.stat("gen.error")
        return
    ctx.stat("programs.submitted")
    if gp.meta.get("twin_site"):
        ctx.stat("programs.submitted_unsafe_twin")
    try:
        mod = load_program(gp.text, ctx.scratch)
    except CaseTimeout:
        raise
    except Exception as e:
        ctx.stat("programs.rejected")
        if gp.meta.get("twin_site"):
            ctx.stat("programs.unsafe_twin_rejected")
        else:
            ctx.stat("programs.presumed_safe_rejected")
        return
    ctx.stat("programs.accepted")
    if gp.meta.get("twin_site"):
        ctx.stat("programs.unsafe_twin_accepted")
    root = getattr(mod, gp.root)
    sig = judge(ctx, gp.text, gp.root, root, gp.meta.get("twin_site"), ninputs, rng)
    if sig is None and ctx._nsamples < 2:
        ctx.sample({"program": gp.text[-1200:], "twin_site": gp.meta.get("twin_site"), "accepted": True}, limit=2)


def plan(tier, seed):
    quick = tier == "quick"
    return {"nshards": 16, "params": {"soft_s": 1500 if quick else 5400, "nprograms": 150 if quick else 600, "ninputs": 6 if quick else 10}, "hard_timeout_s": 2700 if quick else 9000}


def shard(ctx):
    try:
        import z3

        z3.set_param("timeout", 20000)
    except Exception:
        pass

    def on_alarm(signum, frame):
        raise CaseTimeout()

    signal.signal(signal.SIGALRM, on_alarm)
    nprog = 0
    cap = int(ctx.params.get("nprograms", 10**9))
    while nprog < cap and not ctx.out_of_time():
        nprog += 1
        rng = random.Random((ctx.seed * 1000003 + ctx.shard * 7919 + nprog * 104729) & 0xFFFFFFFF)
        ctx.rng = rng
        signal.setitimer(signal.ITIMER_REAL, 40)
        try:
            one(ctx, rng, ctx.params["ninputs"])
        except CaseTimeout:
            ctx.inconclusive("case_watchdog")
        finally:
            signal.setitimer(signal.ITIMER_REAL, 0)
        if nprog % 10 == 0:
            ctx.flush_stats()


def finish(agg, tier):
    st = agg.stats
    inc = []
    if st.get("programs.accepted", 0) < (300 if tier == "quick" else 3000):
        inc.append(f"only {st.get('programs.accepted', 0)} accepted programs")
    if st.get("programs.submitted_unsafe_twin", 0) < 50:
        inc.append("fewer than 50 unsafe twins submitted")
    return {"evaluations": st.get("evaluations", 0), "coverage": {k.replace(".", "_"): v for k, v in st.items() if k.startswith(("programs.", "inputs.", "c03."))}, "inconclusive": inc}


def replay(case):
    ctx = CollectCtx()
    try:
        mod = load_program(case["text"], ctx.scratch, tag="replay")
        proc = getattr(mod, case["root"])
        ir = proc._loopir_proc
        spec = InputSpec.from_json(case["input"])
        vals, cfg = spec.materialise()
        res = Interp(budget=400000, alias_strict=True).run(ir, vals, cfg)
        evs = [e for e in res.events if e.kind != "precondition"]
        if evs:
            return {"reproduced": True, "sig": {"prop": "C03", "monitor": "ir-sanitizer", "kind": evs[0].kind, "diag": diag(evs[0], ir)}, "detail": f"{evs[0]!r}\ninput: {spec.brief()}\n{proc}"}
        return {"reproduced": False, "detail": "no event"}
    except Exception as e:
        return {"reproduced": False, "detail": f"front end rejects now: {e!r}"[:500]}
    finally:
        ctx.close()
