"""C04 Scheduling never breaks safety or well-formedness (DESIGN.md section 3/C04)."""

from ..stream import StreamProfile, run_stream, SafetyMonitor
from ..gen_prog import Knobs
from ..stream_driver import replay_through, same_mechanism, per_op_coverage

PROP = "C04"
LEVEL = "exploration"
RULE = (
    "same stream as C01 biased to storage-moving primitives; every accepted operation p->p' is judged by (a) an "
    "independent scope/binder/arity validator on p', (b) executing p' in the reference interpreter with bounds, "
    "call-precondition, size and loop-bound monitors on inputs where p is event-free, (c) poison reaching an "
    "observable location where p had a defined value, (d) compile_c raising something other than a documented "
    "backend rejection; distinct by (alpha fingerprint of p, op+kwargs), non-trivial when p' differs from p"
)
ASSUMPTIONS = [
    "vf/irutil.validate defines well-scopedness; vf/refinterp.py defines safety events",
    "stale type annotations are diagnostics only",
    "inputs bounded: sizes <= 8",
]

_W = {}


def op_weights():
    from ..gen_sched import all_op_names

    if not _W:
        heavy = {
            "expand_dim", "resize_dim", "divide_dim", "mult_dim", "rearrange_dim", "stage_mem", "lift_alloc", "sink_alloc",
            "autolift_alloc", "reuse_buffer", "delete_buffer", "fission", "specialize", "unroll_loop", "cut_loop", "divide_loop",
            "inline", "extract_subproc", "unroll_buffer", "inline_window", "std.auto_stage_mem", "bind_expr", "shift_loop",
            "join_loops", "mult_loops", "divide_with_recompute", "replace", "lift_scope", "simplify",
        }
        for n in all_op_names():
            _W[n] = 3.0 if n in heavy else 1.0
    return _W


def knobs(rng):
    return Knobs(
        p_config=rng.choice([0, 0, 0.2]),
        p_window=rng.choice([0.0, 0.15, 0.3]),
        p_call=rng.choice([0.0, 0.25, 0.4]),
        p_alloc=rng.choice([0.4, 0.6]),
        p_quasi=rng.choice([0.1, 0.3]),
        max_stmts=rng.choice([6, 9, 12]),
    )


def plan(tier, seed):
    quick = tier == "quick"
    return {
        "nshards": 16,
        "params": {"soft_s": 1500 if quick else 5400, "nprograms": 50 if quick else 200, "script_len": 8 if quick else 12, "ninputs": 5 if quick else 8},
        "hard_timeout_s": 2700 if quick else 9000,
    }


def w2(tier):
    """W2: the repository's own schedules (tests) as a workload, judged through the hooks"""
    tests = ["tests/test_schedules.py", "tests/test_halide_ops.py", "tests/test_config.py"]
    if tier != "quick":
        tests += ["tests/test_x86.py", "tests/test_neon.py", "tests/test_window.py", "tests/test_cursors.py", "tests/asplos25", "tests/test_rvv.py", "tests/test_im2col.py"]
    return {"tests": tests, "monitors": ["C04"], "timeout": 900 if tier == "quick" else 2400}


def shard(ctx):
    from ..templates import any_template, t_dup_blocks, t_nested_windows, t_quasi, t_alias_alloc

    def templ(rng):
        # storage-moving rewrites of duplicated blocks, nested windows and quasi-affine accesses are
        # where safety is decided by an analysis of context; the rest are the shared templates
        r = rng.random()
        if r < 0.25:
            return t_dup_blocks(rng)
        if r < 0.30:
            return t_nested_windows(rng)
        if r < 0.42:
            return t_alias_alloc(rng)
        if r < 0.50:
            return t_quasi(rng)
        return any_template(rng)

    prof = StreamProfile(knobs_fn=knobs, script_len=ctx.params["script_len"], op_weights=op_weights(), templates=templ)
    prof.template_prob = 0.4
    from ..templates import ALL as _ALL

    prof.rotation = [t_dup_blocks, t_nested_windows, t_alias_alloc, t_quasi] + list(_ALL)
    run_stream(ctx, prof, [SafetyMonitor(ctx, ninputs=ctx.params["ninputs"])])


def finish(agg, tier):
    cov, inc = per_op_coverage(agg, 25 if tier == "quick" else 40)
    cov["validator_calls"] = agg.stats.get("validate.calls", 0)
    cov["compile_attempts"] = agg.stats.get("compile.attempts", 0)
    cov["inputs_executed"] = agg.stats.get("inputs.judged", 0)
    if cov["validator_calls"] < 200:
        inc.append("validator reached fewer than 200 times")
    return {"evaluations": agg.stats.get("evaluations", 0), "coverage": cov, "inconclusive": inc}


def replay(case):
    from ..gen_input import InputSpec

    spec = InputSpec.from_json(case["input"]) if case.get("input") else None
    want = case.get("inner_op")
    return replay_through(
        case,
        lambda ctx, c: [SafetyMonitor(ctx, ninputs=12, compile_every=1, forced_spec=spec)],
        match=(lambda sig: sig.get("op") == want and sig.get("monitor") == case.get("monitor")) if want else None,
    )
