"""C01 Scheduling rewrites preserve procedure semantics (see DESIGN.md section 3/C01)."""

from ..stream import StreamProfile, run_stream, EquivMonitor
from ..gen_prog import Knobs
from .. import equiv
from ..gen_input import InputSpec

PROP = "C01"
LEVEL = "exploration"
RULE = (
    "generated Exo programs (families F1-F4, F8 + kernel templates) x random scripts of scheduling "
    "operations with IR-derived arguments; every accepted, not-unsafe-flagged operation p->p' is judged by "
    "executing p and p' in the reference interpreter (exact rationals) on inputs satisfying p's assertions and "
    "comparing every argument buffer and config field outside the reported modulo-set; a case is distinct by "
    "(alpha-invariant fingerprint of p, op+kwargs, fingerprint of p') and non-trivial when p' differs from p and "
    ">=1 input was executed event-free on both sides"
)
ASSUMPTIONS = [
    "reference interpreter vf/refinterp.py defines the loop-nest semantics (exact rationals, floor div/mod)",
    "inputs bounded: sizes <= 8, rank <= 3; defects needing larger extents are out of reach",
    "externs sin/expf/sqrt/sigmoid treated as consistent deterministic functions",
]


def knobs(rng):
    return Knobs(
        p_datadiv=rng.choice([0.0, 0.0, 0.1]),
        p_config=rng.choice([0, 0, 0.3]),
        p_window=rng.choice([0.0, 0.0, 0.2]),
        p_call=rng.choice([0.0, 0.25, 0.4]),
        p_quasi=rng.choice([0.1, 0.3]),
        max_stmts=rng.choice([6, 9, 12]),
    )


def plan(tier, seed):
    quick = tier == "quick"
    return {
        "nshards": 16,
        "params": {"soft_s": 1500 if quick else 5400, "nprograms": 60 if quick else 240, "script_len": 8 if quick else 12, "ninputs": 5 if quick else 8},
        "hard_timeout_s": 2700 if quick else 9000,
    }


def w2(tier):
    """W2: the repository's own schedules (tests) as a workload, judged through the hooks"""
    tests = ["tests/test_schedules.py", "tests/test_halide_ops.py", "tests/test_config.py"]
    if tier != "quick":
        tests += ["tests/test_x86.py", "tests/test_neon.py", "tests/test_window.py", "tests/test_cursors.py", "tests/asplos25", "tests/test_rvv.py", "tests/test_im2col.py"]
    return {"tests": tests, "monitors": ["C01"], "timeout": 900 if tier == "quick" else 2400}


def shard(ctx):
    from ..templates import any_template

    prof = StreamProfile(knobs_fn=knobs, script_len=ctx.params["script_len"], templates=any_template)
    prof.template_prob = 0.3
    from ..templates import ALL as _ALL

    prof.rotation = list(_ALL)
    run_stream(ctx, prof, [EquivMonitor(ctx, ninputs=ctx.params["ninputs"])])


def finish(agg, tier):
    inc = []
    judged_ops = {k[len("op.judged."):]: v for k, v in agg.stats.items() if k.startswith("op.judged.")}
    classes5 = sum(1 for v in judged_ops.values() if v >= 5)
    need = 25 if tier == "quick" else 40
    if classes5 < need:
        inc.append(f"only {classes5} primitive classes with >=5 judged applications (need {need})")
    return {
        "evaluations": agg.stats.get("evaluations", 0),
        "coverage": {
            "per_primitive_judged": dict(sorted(judged_ops.items())),
            "primitive_classes_ge5": classes5,
            "programs": agg.stats.get("programs.accepted", 0),
            "inputs_executed": agg.stats.get("inputs.judged", 0),
        },
        "inconclusive": inc,
    }


def replay(case):
    from ..stream_driver import replay_through

    spec = InputSpec.from_json(case["input"]) if case.get("input") else None
    want = case.get("inner_op")
    return replay_through(
        case,
        lambda ctx, c: [EquivMonitor(ctx, ninputs=12, end_to_end=False, forced_spec=spec)],
        match=(lambda sig: sig.get("op") == want) if want else None,
    )
