"""C01 Scheduling rewrites preserve procedure semantics (see DESIGN.md section 3/C01)."""

from ..stream import StreamProfile, run_stream, EquivMonitor, rebuild
from ..gen_prog import Knobs
from ..gen_sched import apply_step, is_unsafe_step
from .. import equiv
from ..gen_input import InputSpec

PROP = "C01"
LEVEL = "exploration"
RULE = (
    "generated Exo programs (families F1-F4, F8 + kernel templates) x random scripts of scheduling "
    "operations with IR-derived arguments; every accepted, not-unsafe-flagged operation p->p' is judged by "
    "executing p and p' in the reference interpreter (exact rationals) on inputs satisfying p's assertions and "
    "comparing every argument buffer and config field outside the reported modulo-set; a case is distinct by "
    "(alpha-invariant fingerprint of p, op+kwargs, fingerprint of p') and non-trivial when p' differs from p and "
    ">=1 input was executed event-free on both sides"
)
ASSUMPTIONS = [
    "reference interpreter vf/refinterp.py defines the loop-nest semantics (exact rationals, floor div/mod)",
    "inputs bounded: sizes <= 8, rank <= 3; defects needing larger extents are out of reach",
    "externs sin/expf/sqrt/sigmoid treated as consistent deterministic functions",
]


def knobs(rng):
    return Knobs(
        p_config=rng.choice([0, 0, 0.3]),
        p_window=rng.choice([0.0, 0.0, 0.2]),
        p_call=rng.choice([0.0, 0.25, 0.4]),
        p_quasi=rng.choice([0.1, 0.3]),
        max_stmts=rng.choice([6, 9, 12]),
    )


def plan(tier, seed):
    quick = tier == "quick"
    return {
        "nshards": 16,
        "params": {"soft_s": 100 if quick else 900, "script_len": 8 if quick else 20, "ninputs": 5 if quick else 12},
        "hard_timeout_s": 600 if quick else 3000,
    }


def shard(ctx):
    prof = StreamProfile(knobs_fn=knobs, script_len=ctx.params["script_len"])
    run_stream(ctx, prof, [EquivMonitor(ctx, ninputs=ctx.params["ninputs"])])


def finish(agg, tier):
    inc = []
    judged_ops = {k[len("op.judged."):]: v for k, v in agg.stats.items() if k.startswith("op.judged.")}
    classes5 = sum(1 for v in judged_ops.values() if v >= 5)
    need = 25 if tier == "quick" else 40
    if classes5 < need:
        inc.append(f"only {classes5} primitive classes with >=5 judged applications (need {need})")
    return {
        "evaluations": agg.stats.get("evaluations", 0),
        "coverage": {
            "per_primitive_judged": dict(sorted(judged_ops.items())),
            "primitive_classes_ge5": classes5,
            "programs": agg.stats.get("programs.accepted", 0),
            "inputs_executed": agg.stats.get("inputs.judged", 0),
        },
        "inconclusive": inc,
    }


def replay(case):
    import tempfile, pathlib, shutil, random

    scratch = pathlib.Path(tempfile.mkdtemp(prefix="vf_replay_"))
    try:
        sess, last = rebuild(case, scratch)
        old = sess.cur
        r = apply_step(sess, last)
        if r.status != "accepted":
            return {"reproduced": False, "detail": f"step rejected now: {r.exc!r}"}
        old_ir, new_ir = old._loopir_proc, r.proc._loopir_proc
        if case.get("monitor") == "equiv-e2e":
            old_ir = sess.procs[case.get("root_idx", 0)]._loopir_proc
        _, mf = equiv.reported_mod_fields(old_ir, new_ir)
        spec = InputSpec.from_json(case["input"]) if case.get("input") else None
        if spec is not None:
            c = equiv.compare_on(old_ir, new_ir, spec, mf)
            verdict, wit = c.status, c.detail
        else:
            j = equiv.judge(old_ir, new_ir, random.Random(0), 12, mf)
            verdict, wit = j["verdict"], j["witness"]
        from ..stream import ir_features, diagnose

        sig = {"prop": "C01", "monitor": case.get("monitor", "equiv"), "kind": verdict, "op": last["op"], "features": ir_features(old_ir)}
        d = diagnose(last["op"], old_ir, new_ir, last, sess)
        if d:
            sig["diag"] = d
        return {
            "reproduced": verdict == "diff",
            "sig": sig,
            "detail": f"op={last['op']} verdict={verdict}\nwitness={wit}\n--- before ---\n{old}\n--- after ---\n{r.proc}",
        }
    finally:
        shutil.rmtree(scratch, ignore_errors=True)
