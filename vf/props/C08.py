"""C08 Generated C is free of undefined behaviour and leaks (DESIGN.md section 3/C08)."""

import re

from ..cstream import run_cstream, replay_c
from ..gen_prog import Knobs

PROP = "C08"
LEVEL = "exploration"
RULE = (
    "generated programs (window aliases used after the base's last use, allocations in branches/loops, negative "
    "numerators under / and %, all host memories) as written and after alloc-moving schedules are compiled and run "
    "under gcc ASan+UBSan+LeakSanitizer with every argument in its own exact-size block, stride padding as canaries "
    "and const-declared arguments in an mprotect()ed page, on inputs that the reference interpreter executes "
    "event-free; any sanitizer report, crash, or const-qualifier diagnostic is a violation; distinct by "
    "alpha-invariant fingerprint of the compiled procedure"
)
ASSUMPTIONS = [
    "red-zone tools miss far out-of-bounds accesses landing in another live object; the interpreter's exact bounds monitor covers the IR side",
    "gcc 12 sanitizers as installed",
]

_W = {}


def weights():
    from ..gen_sched import all_op_names

    if not _W:
        heavy = {"lift_alloc", "sink_alloc", "autolift_alloc", "stage_mem", "expand_dim", "resize_dim", "reuse_buffer", "delete_buffer", "inline_window", "bind_expr", "unroll_buffer", "divide_dim", "std.auto_stage_mem", "fission", "specialize"}
        for n in all_op_names():
            _W[n] = 4.0 if n in heavy else 1.0
    return _W


def knobs(rng):
    return Knobs(
        p_window=rng.choice([0.2, 0.4]),
        p_call=rng.choice([0.0, 0.3]),
        p_alloc=rng.choice([0.5, 0.7]),
        p_quasi=rng.choice([0.2, 0.5]),
        p_if=0.4,
        precision=rng.choice(["f32", "f32", "f64", "i32"]),
        max_stmts=rng.choice([8, 12]),
    )


def san_class(res):
    s = res.san or ""
    if s.startswith("san:asan:"):
        return s[len("san:") :]
    if s.startswith("san:ubsan:"):
        return "ubsan:" + re.sub(r"[^a-z ]", "", s[len("san:ubsan:") :].lower()).strip()[:40]
    return s


def on_result(ctx, sess, res, case):
    if res.status == "sanitizer":
        sig = {"prop": "C08", "monitor": "sanitizer", "kind": san_class(res), "scheduled": bool(sess.steps)}
        try:
            from ..cdiag import diagnose_c

            sig["diag"] = diagnose_c(sess.cur._loopir_proc, res)
        except Exception as e:
            sig["diag"] = {"diag_error": type(e).__name__}
        ctx.violation(sig, case)
    elif res.status == "gcc_reject" and "discards" in (res.detail or "") and "qualifier" in (res.detail or ""):
        ctx.violation({"prop": "C08", "monitor": "gcc", "kind": "discarded-qualifiers"}, case)


def plan(tier, seed):
    quick = tier == "quick"
    return {"nshards": 16, "params": {"soft_s": 1500 if quick else 5400, "nprograms": 10 if quick else 40, "ninputs": 4 if quick else 8}, "hard_timeout_s": 2700 if quick else 9000}


def _templates(rng):
    from ..ctemplates import any_ctemplate

    return any_ctemplate(rng)


def shard(ctx):
    run_cstream(ctx, knobs, on_result, ninputs=ctx.params["ninputs"], op_weights=weights(), sched_steps=(0, 1, 3, 5), only_exact=True, templates=_templates, template_prob=0.4)


def finish(agg, tier):
    st = agg.stats
    ran = sum(st.get("c.status." + k, 0) for k in ("ok", "mismatch", "approx_mismatch", "sanitizer"))
    inc = []
    if ran < (40 if tier == "quick" else 400):
        inc.append(f"only {ran} sanitizer runs")
    return {
        "evaluations": st.get("evaluations", 0),
        "coverage": {"sanitizer_runs": ran, "inputs_run": st.get("c.inputs", 0), "status_histogram": {k[len("c.status."):]: v for k, v in st.items() if k.startswith("c.status.")}},
        "inconclusive": inc,
    }


def replay(case):
    r = replay_c(case, ("sanitizer", "gcc_reject") if case.get("status") == "gcc_reject" else ("sanitizer",), only_exact=True)
    r["sig"] = {"prop": "C08", "monitor": "sanitizer", "kind": r.get("san")}
    return r
