"""C18 Scheduling and compilation are deterministic (DESIGN.md section 3/C18)."""

import json
import os
import random
import subprocess

from .. import common
from ..common import jhash, CaseTimeout
from ..gen_prog import GenProgram, HEADER, gen_program, load_program, Knobs
from ..gen_sched import Session, apply_step, random_step

PROP = "C18"
LEVEL = "exploration"
RULE = (
    "sessions (program text + script of scheduling steps, accepted and rejected ones) are recorded once and replayed in "
    "fresh interpreter processes that differ only in PYTHONHASHSEED (0, 1, 12345, random), in the number of symbols and "
    "procedures created before the session (0 / 1000 symbols, 0 / 3 unrelated procedures) and in unrelated definitions "
    "placed before / after the session's own procedures; every process reports the accept/reject outcome of each step, "
    "a hash of str(p) after each accepted step and hashes of the .c and .h text; all must be byte-identical; a session "
    "is distinct by hash of (text, script) and non-trivial when >=1 step was accepted and the result compiled"
)
ASSUMPTIONS = ["ASLR varies between processes by itself", "the recorded locators (paths) denote the same nodes when the IR is the same"]

VARIANTS = [
    ({"PYTHONHASHSEED": "0"}, {}),
    ({"PYTHONHASHSEED": "1"}, {"sym_offset": 1000}),
    ({"PYTHONHASHSEED": "0"}, {"sym_boundary": 1}),
    ({"PYTHONHASHSEED": "12345"}, {"prior_procs": 3, "extra_defs": "before", "sym_boundary": 2}),
    ({"PYTHONHASHSEED": "random"}, {"sym_offset": 1, "extra_defs": "after", "compile_history": 1}),
    ({"PYTHONHASHSEED": "987654321"}, {"sym_offset": 37, "prior_procs": 1}),
    ({"PYTHONHASHSEED": "random"}, {"extra_defs": "before", "sym_offset": 5}),
]


def knobs(rng):
    return Knobs(
        p_config=rng.choice([0, 0.3]),
        p_window=rng.choice([0.0, 0.2, 0.4]),
        p_call=rng.choice([0.0, 0.3, 0.5]),
        p_alloc=rng.choice([0.4, 0.6]),
        p_extern=rng.choice([0, 0.15]),
        hostile_names=rng.random() < 0.3,
        max_stmts=rng.choice([8, 12]),
        ncallees=rng.choice([1, 2]),
    )


_W = {}


def weights():
    from ..gen_sched import all_op_names

    if not _W:
        heavy = {"unroll_buffer", "extract_subproc", "std.replace_all", "replace", "stage_mem", "set_memory", "bind_expr", "inline", "std.unroll_buffers", "std.cse", "unroll_loop"}
        for n in all_op_names():
            _W[n] = 3.0 if n in heavy else 1.0
    return _W


def t_same_name_sum(rng):
    """after inlining, two different iterators with one spelling meet in one index expression"""
    v = rng.choice(["i", "j"])
    n = rng.choice([3, 4])
    body = f"""@proc
def sub(n: size, dst: [f32][n], src: [f32][n]):
    for {v} in seq(0, n):
        dst[{v}] = src[{v}] * 2.0

@proc
def root(x: f32[{2 * n}], y: f32[{2 * n}]):
    for {v} in seq(0, {n}):
        sub({n}, y[{v}:{v} + {n}], x[{v}:{v} + {n}])
"""
    return GenProgram(HEADER + body, "root", ["sub"], [], {"template": "same_name_sum", "op_sequence": ["inline", "inline_window", "simplify"], "prefer_ops": ["inline", "simplify", "inline_window", "std.cleanup"]})


def t_two_precisions(rng):
    """one library that needs an extern at two precisions and both static helpers"""
    e1 = rng.choice(["relu", "select", "sin"])
    call = {"relu": "relu({a})", "sin": "sin({a})", "select": "select({a}, 0.0, 1.0, {a})"}[e1]
    body = f"""@proc
def root(n: size, k: index, x: f32[n + 8], y: f64[n + 8]):
    assert k >= -4
    assert k <= 4
    for i in seq(0, n):
        x[i + k / 2 + 2] = {call.format(a='x[i]')}
        y[i + k % 3] = {call.format(a='y[i]')}
"""
    return GenProgram(HEADER + body, "root", [], [], {"template": "two_precisions", "prefer_ops": ["divide_loop", "simplify", "bind_expr"]})


def t_replace_sum(rng):
    """a block whose replacement by a call needs window offsets that are sums of several loop
    iterators: the order of the terms in the solved arguments must not depend on the process"""
    vs = rng.sample(["io", "ii", "jo", "ji", "t"], rng.choice([3, 3, 4]))
    heads = "\n".join("    " * (k + 1) + f"for {v} in seq(0, {rng.choice([2, 3, 4])}):" for k, v in enumerate(vs))
    ind = "    " * (len(vs) + 1)
    row = " + ".join(vs)
    col = " + ".join(f"{rng.choice([1, 2, 3])} * {v}" if rng.random() < 0.5 else v for v in vs)
    body = f"""@proc
def sub(n: size, x: [f32][n]):
    for k in seq(0, n):
        x[k] = 0.0

@proc
def root(A: f32[64, 64]):
{heads}
{ind}for k in seq(0, 8):
{ind}    A[{row}, {col} + k] = 0.0
"""
    return GenProgram(HEADER + body, "root", ["sub"], [], {"template": "replace_sum", "op_sequence": ["replace", "simplify"], "prefer_ops": ["replace", "std.replace_all"]})


def t_size_div(rng):
    """index arithmetic whose C form (plain / and % or the floor helpers) depends on the range the
    compiler derives for a size argument from the assertions; relatives of the procedure with a
    stronger assertion share the argument's symbol"""
    c = rng.choice([2, 4])
    off = rng.choice([4, 8])
    cfg = rng.random() < 0.4
    head = "@config\nclass Cfg:\n    k: index\n\n" if cfg else ""
    use = "    Cfg.k = 1\n" if cfg else ""
    asrt = "    assert n <= 32\n" if rng.random() < 0.5 else ""  # with and without an assertion on the size
    body = f"""{head}@proc
def root(n: size, x: f32[n + 24]):
{asrt}{use}    for i in seq(0, n):
        x[(n - {off}) / {c} + {off // c + 1}] += 1.0
        x[(n + i - {off}) % {off} + 8] = 2.0
"""
    return GenProgram(HEADER + body, "root", [], ["Cfg"] if cfg else [], {"template": "size_div", "prefer_ops": ["simplify", "divide_loop", "unroll_loop"]})


def _template(rng):
    from ..templates import any_template

    return rng.choice([t_same_name_sum, t_same_name_sum, t_replace_sum, t_replace_sum, t_two_precisions, t_size_div, t_size_div, any_template, any_template])(rng)


def record_sessions(ctx, n, script_len):
    out = []
    tries = 0
    while len(out) < n and tries < n * 4 and not ctx.out_of_time():
        tries += 1
        rng = random.Random((ctx.seed * 1000003 + ctx.shard * 7919 + tries * 104729) & 0xFFFFFFFF)
        try:
            if not out and tries <= 3:
                # every shard starts with one session of a family written for this property, in rotation,
                # so that each family is present in every run whatever the random mix
                gp = [t_same_name_sum, t_replace_sum, t_size_div, t_two_precisions][ctx.shard % 4](rng)
            elif rng.random() < 0.5:
                gp = _template(rng)
            else:
                gp = gen_program(rng, knobs(rng))
            mod = load_program(gp.text, ctx.scratch)
        except Exception:
            continue
        sess = Session(mod, gp.root, gp.text)
        script = []
        prefer = (gp.meta or {}).get("prefer_ops")
        seq = (gp.meta or {}).get("op_sequence")
        naccepted = 0
        for k_ in range(script_len):
            if seq and naccepted < len(seq) and rng.random() < 0.8:
                st = random_step(sess, rng, {seq[naccepted]: 1.0})
            elif prefer and k_ < 3 and rng.random() < 0.7:
                st = random_step(sess, rng, {o: 1.0 for o in prefer})
            else:
                st = random_step(sess, rng, weights())
            if st is None:
                continue
            script.append(st)
            if apply_step(sess, st).status == "accepted":
                naccepted += 1
        out.append({"text": gp.text, "root": gp.root, "steps": script})
    return out


def run_variant(sessions_file, k, scratch, timeout=600):
    envd, var = VARIANTS[k]
    vf = scratch / f"variant{k}.json"
    vf.write_text(json.dumps(var))
    env = common.worker_env(envd)
    env["PYTHONHASHSEED"] = envd["PYTHONHASHSEED"]
    try:
        r = subprocess.run([common.PY, "-m", "vf.c18_replay", str(sessions_file), str(vf)], cwd=str(common.VERIF), env=env, capture_output=True, text=True, timeout=timeout)
    except subprocess.TimeoutExpired:
        return None
    digs = {}
    for line in r.stdout.splitlines():
        if line.startswith("DIGEST "):
            d = json.loads(line[7:])
            digs[d["i"]] = d
    return digs


def classify(a, b):
    if a.get("error") or b.get("error"):
        return "load_outcome" if a.get("error") != b.get("error") else None
    if a["steps"] != b["steps"]:
        return "accept_reject_outcome"
    if a["strs"] != b["strs"]:
        return "printed_procedure"
    if a.get("c") != b.get("c"):
        return "c_text"
    if a.get("h") != b.get("h"):
        return "h_text"
    return None


def compare(ctx, sessions, base, other, k, rerun=None):
    for i, s in enumerate(sessions):
        a, b = base.get(i), other.get(i)
        if a is None or b is None:
            ctx.inconclusive("missing_digest")
            continue
        if a.get("unstable") or b.get("unstable"):
            # a solver query hit the harness's z3 timeout in one of the processes
            ctx.inconclusive("z3_timeout_in_session")
            continue
        ctx.stat("evaluations")
        kind = classify(a, b)
        if kind is None:
            if a.get("error"):
                ctx.stat("c18.session_error")
            else:
                ctx.stat("c18.identical")
            continue
        # which step?
        first = None
        for j, (x, y) in enumerate(zip(a.get("steps", []), b.get("steps", []))):
            if x != y:
                first = j
                break
        op = s["steps"][first]["op"] if first is not None else None
        # is the difference reproducible?  replay both environments once more: if two
        # runs of the *same* environment differ, the outcome depends on memory addresses
        # (Sym hashes by id(), so set/dict order follows allocation), not on the variant
        address_dependent = None
        if rerun is not None:
            a2 = rerun(0)
            b2 = rerun(k)
            if a2 is not None and b2 is not None:
                address_dependent = classify(a, a2.get(i) or {"error": "missing"}) is not None or classify(b, b2.get(i) or {"error": "missing"}) is not None
        sig = {
            "prop": "C18",
            "monitor": "replay-diff",
            "kind": kind,
            "op": op,
            "variant": {kk: vv for kk, vv in VARIANTS[k][1].items()},
            "hashseed_only": not VARIANTS[k][1],
            "address_dependent": address_dependent,
        }
        ctx.violation(sig, {"session": s, "sessions_before": sessions[:i], "variant": k, "base": a, "other": b})


def plan(tier, seed):
    quick = tier == "quick"
    return {"nshards": 16, "params": {"soft_s": 600 if quick else 2400, "sessions": 4 if quick else 16, "script_len": 6 if quick else 10, "variants": 5 if quick else 7}, "hard_timeout_s": 2700 if quick else 9000, "max_par": 8}


def shard(ctx):
    sessions = record_sessions(ctx, ctx.params["sessions"], ctx.params["script_len"])
    if not sessions:
        ctx.inconclusive("no_sessions")
        return
    sf = ctx.scratch / "sessions.json"
    sf.write_text(json.dumps(sessions))
    base = run_variant(sf, 0, ctx.scratch)
    if base is None:
        ctx.inconclusive("replay_watchdog")
        return
    for i, s in enumerate(sessions):
        d = base.get(i) or {}
        nt = any(x == "A" for x in d.get("steps", [])) and not str(d.get("c", "reject")).startswith("reject")
        ctx.distinct(jhash([s["text"], s["steps"]]), nontrivial=nt)
        ctx.stat("c18.sessions")
        ctx.stat("c18.steps_accepted", sum(1 for x in d.get("steps", []) if x == "A"))
        ctx.stat("c18.compiled", 0 if str(d.get("c", "reject")).startswith("reject") else 1)
    ctx.sample({"program": sessions[0]["text"][-900:], "script": [st["op"] for st in sessions[0]["steps"]], "digest": base.get(0)}, limit=1)
    for k in range(1, ctx.params["variants"]):
        other = run_variant(sf, k, ctx.scratch)
        ctx.stat("c18.processes")
        if other is None:
            ctx.inconclusive("replay_watchdog")
            continue
        compare(ctx, sessions, base, other, k, rerun=lambda kk: run_variant(sf, kk, ctx.scratch))


def finish(agg, tier):
    st = agg.stats
    inc = []
    if st.get("c18.sessions", 0) < (30 if tier == "quick" else 150):
        inc.append(f"only {st.get('c18.sessions', 0)} sessions")
    if st.get("c18.compiled", 0) < 10:
        inc.append("fewer than 10 sessions ended in a compiled procedure")
    return {"evaluations": st.get("evaluations", 0), "coverage": {k.replace(".", "_"): v for k, v in st.items() if k.startswith("c18.")}, "inconclusive": inc}


def replay(case):
    import pathlib, tempfile, shutil

    scratch = pathlib.Path(tempfile.mkdtemp(prefix="vf_c18r_"))
    try:
        sf = scratch / "sessions.json"
        pre = case.get("sessions_before") or []
        sf.write_text(json.dumps(pre + [case["session"]]))
        a = run_variant(sf, 0, scratch)
        b = run_variant(sf, case["variant"], scratch)
        if a is None or b is None:
            return {"reproduced": None, "detail": "watchdog"}
        da, db = a.get(len(pre)), b.get(len(pre))
        same = da == db
        return {"reproduced": not same, "sig": {"prop": "C18", "monitor": "replay-diff"}, "detail": f"base={da}\nother={db}"}
    finally:
        shutil.rmtree(scratch, ignore_errors=True)
