"""C15 Compile output is valid C; inconsistent annotations are rejected (DESIGN.md section 3/C15).

Runtime monitoring of real compiles.  Every state of every session (the
generated module as written, then after each of 1-4 random set_precision /
set_memory / set_window steps, on the root and -- through call_eqv with a
re-annotated variant -- on callees) is handed to exo's compile, and two monitors
watch the attempt:

  gcc          whenever exo's compile succeeds, `gcc -c` (conversion / qualifier /
               implicit-declaration diagnostics promoted to errors) must accept
               the .c + .h
  annot-judge  vf/annot.py, an independent, narrow judge over the declarations
               of root and all callees; a program it classifies as definitely
               inconsistent (in one of the ways the property lists) must not
               compile
"""

import re

from exo.core.LoopIR import LoopIR, T

from .. import irutil, annot, cbuild
from ..common import shash, CaseTimeout
from ..gen_prog import Knobs, GenProgram, HEADER, gen_program
from ..gen_sched import Session, apply_step, random_step, D_node
from ..stream import StreamProfile, run_stream, Monitor, mk_case, sstr
from ..stream_driver import replay_through

PROP = "C15"
LEVEL = "exploration"
RULE = (
    "modules as source text from four families: (1) gen_program programs (p_call 0.3/0.5, 1-2 callees, p_alloc 0.4-0.6, "
    "also hostile spellings) whose precision / memory / window annotations are re-drawn per argument and allocation in root "
    "and callees; (2) call-depth-2 templates root -> mid -> leaf with annotations drawn per site from {f32,f64,i8,i32,R} x "
    "{DRAM,DRAM_STACK,DRAM_STATIC,AVX2} x window-ness; (3) x86 instruction callees (mm256 load/store/fmadd/mul) called with "
    "buffers of right and wrong memory / precision; (4) hostile emission shapes (nested unary minus, literal-only index "
    "arithmetic with / and % in indices, loop bounds and window bounds, names colliding with backend / C / libc names); then "
    "up to 4 random set_precision / set_memory / set_window steps on root arguments and allocations, and call_eqv towards a "
    "callee re-annotated by such steps; every state is compiled (compile_procs_to_strings), judged by vf/annot.py and, when "
    "exo accepts, checked with gcc -c; distinct by the alpha fingerprint of root + callees (shape, types, memories)"
)
ASSUMPTIONS = [
    "gcc 12 -std=gnu11 -c with -Werror=incompatible-pointer-types/int-conversion/discarded-qualifiers/implicit-function-declaration stands for 'a standard C compiler accepts'",
    "an assignment whose right-hand side has another precision than its destination is not an inconsistency (exo converts with an explicit cast; tests/test_precision.py::test_good_prec1)",
    "R is an unknown precision for the judge: it never demands a rejection because of R",
    "a rejection by any exception of exo's compile counts as 'rejected at compile time'",
]

PRECS = ["f32", "f64", "i8", "i32", "R"]
MEMS = ["DRAM", "DRAM_STACK", "DRAM_STATIC", "AVX2"]
EXTRA_IMPORTS = (
    "from exo.libs.memories import AVX2\n"
    "from exo.platforms.x86 import (mm256_loadu_ps, mm256_storeu_ps, mm256_fmadd_ps, mm256_mul_ps,\n"
    "    mm256_setzero_ps, mm256_loadu_pd, mm256_storeu_pd, mm256_mul_pd)\n\n"
)
HEAD = HEADER + EXTRA_IMPORTS

ANNOT_OPS = {"set_precision": 3.0, "set_memory": 3.0, "set_window": 2.0, "inline": 0.6}

C_KEYWORDS = ["int", "double", "register", "static", "const", "float", "void", "char", "long", "short", "auto", "unsigned",
              "struct", "sizeof", "switch", "goto", "default", "do", "case", "enum", "extern", "inline", "volatile", "typedef",
              "union", "restrict", "signed"]
LIBC_NAMES = ["free", "malloc"]
HELPER_NAMES = ["exo_floor_div", "EXO_ASSUME", "int_fast32_t"]
BACKEND_NAMES = ["ctxt", "ctxt_1", "i_1", "x_1", "_x", "n_1", "i_2"]


# ----------------------------------------------------------------------------
# family 1: gen_program + re-drawn annotations in the text
def _split_params(s):
    out, depth, cur = [], 0, ""
    for ch in s:
        if ch in "[(":
            depth += 1
        elif ch in "])":
            depth -= 1
        if ch == "," and depth == 0:
            out.append(cur.strip())
            cur = ""
        else:
            cur += ch
    if cur.strip():
        out.append(cur.strip())
    return out


_PARAM = re.compile(r"^(\w+): (\[)?(f32|f64|i8|i32|R)(\])?(\[.*\])?(?: @ (\w+))?$")
_ALLOC = re.compile(r"^(\s+)(\w+): (f32|f64|i8|i32|R)(\[.*\])?(?: @ (\w+))?$")
_DEF = re.compile(r"^def (\w+)\((.*)\):$")


def _redraw(rng, prec, mem, win, dims, p, param):
    nch = 0
    if rng.random() < p:
        prec = rng.choice(PRECS)
        nch += 1
    if rng.random() < p:
        mem = rng.choice(MEMS)
        nch += 1
    if param and dims and rng.random() < p:
        win = not win
        nch += 1
    return prec, mem, win, nch


def _fmt(name, prec, mem, win, dims):
    t = f"[{prec}]{dims}" if (win and dims) else f"{prec}{dims or ''}"
    return f"{name}: {t}" + (f" @ {mem}" if mem else "")


def mutate_annotations(rng, text, p):
    """re-draw annotations of arguments and allocations of every procedure of a
    generated module (text level: the front end sees the result as written)"""
    out = []
    nch = 0
    for line in text.split("\n"):
        m = _DEF.match(line)
        if m:
            ps = []
            for prm in _split_params(m.group(2)):
                pm = _PARAM.match(prm)
                if not pm:
                    ps.append(prm)
                    continue
                name, lb, prec, rb, dims, mem = pm.groups()
                prec, mem, win, k = _redraw(rng, prec, mem, bool(lb), dims, p, True)
                nch += k
                ps.append(_fmt(name, prec, mem, win, dims))
            out.append(f"def {m.group(1)}({', '.join(ps)}):")
            continue
        a = _ALLOC.match(line)
        if a:
            ind, name, prec, dims, mem = a.groups()
            prec, mem, _, k = _redraw(rng, prec, mem, False, dims, p, False)
            nch += k
            out.append(ind + _fmt(name, prec, mem, False, dims))
            continue
        out.append(line)
    return "\n".join(out), nch


def gen_annotated(rng):
    kn = Knobs(
        p_call=rng.choice([0.3, 0.5]),
        ncallees=rng.choice([1, 2]),
        p_alloc=rng.choice([0.4, 0.6]),
        precision="f32",
        hostile_names=rng.random() < 0.3,
        max_stmts=rng.choice([5, 8]),
        p_extern=rng.choice([0.0, 0.1]),
    )
    gp = gen_program(rng, kn)
    text = gp.text.replace(HEADER, HEAD, 1)
    text, nch = mutate_annotations(rng, text, rng.choice([0.0, 0.06, 0.12, 0.25]))
    return GenProgram(text, gp.root, gp.callees, gp.configs, {"family": "annotated", "redrawn": nch})


# ----------------------------------------------------------------------------
# family 2: call depth 2
def _ty(prec, dims, win):
    if not dims:
        return prec
    d = ", ".join(dims)
    return f"[{prec}][{d}]" if win else f"{prec}[{d}]"


class _Sites:
    def __init__(self, rng, base, p, default_mem=None):
        self.rng = rng
        self.base = base
        self.p = p
        self.default_mem = default_mem

    def decl(self, name, dims, param=True, mem_default=None, win=False):
        """one declaration site: the program's base precision / the site's default
        memory / the window-ness the call structure needs, each re-drawn with
        probability ~p (so that most programs are consistent and a few sites deviate)"""
        r = self.rng
        prec = self.base if r.random() >= self.p else r.choice(PRECS)
        mem = mem_default if r.random() >= self.p * 1.3 else r.choice(MEMS)
        if param and dims:
            if r.random() < self.p * 1.5:
                win = not win
        else:
            win = False
        return f"{name}: {_ty(prec, dims, win)}" + (f" @ {mem}" if mem else ""), win


def gen_depth2(rng):
    base = rng.choice(["f32", "f32", "f32", "f64", "i32", "i8"])
    sym = rng.random() < 0.35
    D = "n" if sym else rng.choice(["8", "8", "8", "4", "16"])
    p = rng.choice([0.0, 0.02, 0.05, 0.12])
    S = _Sites(rng, base, p)
    cw = rng.random() < 0.8  # callee parameters are windows (the usual library style)
    szp = ["n: size"] if sym else []
    sza = ["n"] if sym else []
    L = []
    w = L.append

    # ---- leaf
    kinds = ["copy", "axpy", "scale", "tmp"]
    if D == "8" and base == "f32":
        kinds += ["vec"]
    lk = rng.choice(kinds)
    d_decl, d_win = S.decl("d", [D], win=cw)
    s_decl, s_win = S.decl("s", [D], win=cw)
    lparams = szp + [d_decl, s_decl]
    scalar = lk == "scale"
    if scalar:
        lparams.append(S.decl("c", [])[0])
    w("@proc")
    w(f"def leaf({', '.join(lparams)}):")
    if lk == "vec":
        w("    assert stride(d, 0) == 1")
        w("    assert stride(s, 0) == 1")
        w("    " + S.decl("v", ["8"], param=False, mem_default="AVX2")[0])
        w("    mm256_loadu_ps(v, s)")
        if rng.random() < 0.2:
            w("    d[0] = v[0]" if rng.random() < 0.5 else "    v[1] = s[1]")
        w("    mm256_storeu_ps(d, v)")
    elif lk == "tmp":
        w(f"    for i in seq(0, {D}):")
        w("        " + S.decl("t", [], param=False)[0])
        w("        t = s[i]")
        w("        d[i] = t + s[i]")
    else:
        w(f"    for i in seq(0, {D}):")
        w({"copy": "        d[i] = s[i]", "axpy": "        d[i] += s[i] * 2.0", "scale": "        d[i] = s[i] * c"}[lk])
    w("")

    def call_leaf(ind, a, b, pre):
        """lines calling leaf(a, b[, c])"""
        out = []
        args = sza + [a, b]
        if scalar:
            cn = f"c{len(pre)}"
            pre.append(cn)
            out.append(ind + S.decl(cn, [], param=False)[0])
            out.append(ind + f"{cn} = 2.0")
            args.append(cn)
        out.append(ind + f"leaf({', '.join(args)})")
        return out

    # ---- mid
    a_decl, _ = S.decl("a", [D], win=cw)
    b_decl, _ = S.decl("b", [D], win=cw)
    w("@proc")
    w(f"def mid({', '.join(szp + [a_decl, b_decl])}):")
    pre = []
    pieces = rng.sample(["names", "win", "tmp", "direct", "winstmt"], rng.choice([1, 2, 2, 3]))
    if not ({"names", "win", "tmp", "winstmt"} & set(pieces)):
        pieces.append("names")
    if "direct" not in pieces and rng.random() < 0.4:
        pieces.insert(rng.randrange(len(pieces) + 1), "direct")
    for pc in pieces:
        if pc == "names":
            L.extend(call_leaf("    ", "a", "b", pre))
        elif pc == "win":
            if rng.random() < 0.5:
                L.extend(call_leaf("    ", f"a[0:{D}]", "b", pre))
            else:
                L.extend(call_leaf("    ", "a", f"b[0:{D}]", pre))
        elif pc == "tmp":
            tn = f"t{len(pre)}"
            pre.append(tn)
            w("    " + S.decl(tn, [D], param=False)[0])
            w(f"    for i in seq(0, {D}):")
            w(f"        {tn}[i] = b[i]")
            L.extend(call_leaf("    ", "a", tn, pre))
        elif pc == "direct":
            w(f"    for i in seq(0, {D}):")
            w("        " + rng.choice(["a[i] = a[i] + b[i]", "a[i] += b[i] * 2.0", "a[i] = -b[i]", "a[i] = b[i] * b[i] + 1.0"]))
        elif pc == "winstmt":
            wn = f"w{len(pre)}"
            pre.append(wn)
            w(f"    {wn} = b[0:{D}]")
            L.extend(call_leaf("    ", "a", wn, pre))
    w("")

    # ---- root
    x_decl, _ = S.decl("x", [D])
    y_decl, _ = S.decl("y", [D])
    A_decl, _ = S.decl("A", ["4", D])
    w("@proc")
    w(f"def root({', '.join(szp + [x_decl, y_decl, A_decl])}):")
    pre = []
    pieces = rng.sample(["mid", "midrow", "leaf", "tmp", "direct", "leafrow"], rng.choice([1, 2, 2, 3]))
    if not ({"mid", "midrow", "tmp"} & set(pieces)):
        pieces.append(rng.choice(["mid", "midrow"]))
    if "direct" not in pieces and rng.random() < 0.4:
        pieces.insert(rng.randrange(len(pieces) + 1), "direct")
    for pc in pieces:
        if pc == "mid":
            w(f"    mid({', '.join(sza + ['x', 'y'])})")
        elif pc == "midrow":
            w("    for k in seq(0, 4):")
            w(f"        mid({', '.join(sza + ['x', f'A[k, 0:{D}]'])})")
        elif pc == "leaf":
            L.extend(call_leaf("    ", "y", "x", pre))
        elif pc == "tmp":
            tn = f"tmp{len(pre)}"
            pre.append(tn)
            w("    " + S.decl(tn, [D], param=False)[0])
            w(f"    for i in seq(0, {D}):")
            w(f"        {tn}[i] = y[i]")
            w(f"    mid({', '.join(sza + [tn, 'x'])})")
        elif pc == "direct":
            w(f"    for i in seq(0, {D}):")
            w("        " + rng.choice(["x[i] = x[i] * y[i]", "y[i] += x[i]", "x[i] = y[i] + A[1, i]", "y[i] = select(x[i], y[i], A[0, i], 1.0)"]))
        elif pc == "leafrow":
            w("    for k in seq(0, 4):")
            L.extend(call_leaf("        ", f"A[k, 0:{D}]", "y", pre))
    return GenProgram(HEAD + "\n".join(L) + "\n", "root", ["leaf", "mid"], [], {"family": "depth2", "leaf": lk})


# ----------------------------------------------------------------------------
# family 3: instruction callees
def gen_instr(rng):
    pd = rng.random() < 0.25
    base, W = ("f64", "4") if pd else ("f32", "8")
    sfx = "pd" if pd else "ps"
    p = rng.choice([0.0, 0.03, 0.08, 0.2])
    S = _Sites(rng, base, p)
    L = []
    w = L.append
    x_decl, xw = S.decl("x", [W])
    y_decl, yw = S.decl("y", [W])
    w("@proc")
    w(f"def kern({x_decl}, {y_decl}):")
    w("    assert stride(x, 0) == 1")
    w("    assert stride(y, 0) == 1")
    w("    " + S.decl("t", [W], param=False, mem_default="AVX2")[0])
    w("    " + S.decl("u", [W], param=False, mem_default="AVX2")[0])
    w(f"    mm256_loadu_{sfx}(t, x)")
    w(f"    mm256_loadu_{sfx}(u, y)")
    w("    " + S.decl("r", [W], param=False, mem_default="AVX2")[0])
    if not pd and rng.random() < 0.5:
        w("    mm256_setzero_ps(r)")
        w("    mm256_fmadd_ps(r, t, u)")
    else:
        w(f"    mm256_mul_{sfx}(r, u, t)")
    w(f"    mm256_storeu_{sfx}(y, r)")
    if rng.random() < 0.2:
        w(f"    for i in seq(0, {W}):")
        w("        " + rng.choice(["y[i] = u[i]", "u[i] = x[i]", "u[i] += x[i]", "y[i] = t[i] * 2.0"]))
    w("")
    # (exo's front end cannot prove the instructions' stride assertions through a
    # call whose arguments are window expressions, so the root passes whole buffers)
    X_decl, _ = S.decl("X", [W])
    Y_decl, _ = S.decl("Y", [W])
    w("@proc")
    w(f"def root({X_decl}, {Y_decl}):")
    if rng.random() < 0.4:
        w("    " + S.decl("v", [W], param=False, mem_default=rng.choice([None, None, "DRAM_STACK", "AVX2"]))[0])
        w(f"    for i in seq(0, {W}):")
        w("        v[i] = X[i]")
        w("    kern(v, Y)")
    else:
        w("    kern(X, Y)")
    if rng.random() < 0.3:
        w(f"    for i in seq(0, {W}):")
        w("        " + rng.choice(["Y[i] = X[i] + Y[i]", "Y[i] += X[i] * 2.0"]))
    return GenProgram(HEAD + "\n".join(L) + "\n", "root", ["kern"], [], {"family": "instr"})


# ----------------------------------------------------------------------------
# family 4: hostile emission shapes
def cexpr(rng, v):
    """a literal-only index expression whose (floor) value is v >= 0"""
    k = rng.choice([0, 0, 0, 0, 1, 2, 2, 3, 3, 4, 5, 6])
    if k == 0:
        return str(v)
    if k == 1:
        b = rng.choice([2, 3, 4])
        return f"{v * b + rng.randrange(b)} / {b}"
    if k == 2:
        b = rng.choice([x for x in (4, 5, 7, 16, 17) if x > v] or [v + 1])
        return f"{v + b * rng.choice([0, 1, 2])} % {b}"
    if k == 3:
        a, b = rng.choice([(2, 3), (3, 3), (2, 8), (4, 5)])
        if a * b >= v:
            return f"{a} * {b} - {a * b - v}"
        return f"{a} * {b} + {v - a * b}"
    if k == 4:
        c = rng.choice([2, 3])
        tot = v * c + rng.randrange(c)
        a = rng.randrange(tot + 1)
        return f"({a} + {tot - a}) / {c}"
    if k == 5:
        b = rng.choice([2, 4])
        return f"{v * b + 1} / {b}" if b > 1 else str(v)
    return f"{v + 6} - 12 / 2"


def _hostile_names(rng):
    roll = rng.random()
    pool = list(BACKEND_NAMES)
    rng.shuffle(pool)
    names = {"X": pool[0], "Y": pool[1], "A": pool[2], "T": pool[3], "I": rng.choice(["i", "i", "i_1", "ctxt", "j"])}
    if names["I"] in (names["X"], names["Y"], names["A"], names["T"]):
        names["I"] = "i"
    special = None
    if roll < 0.10:
        special = ("c_keyword", rng.choice(C_KEYWORDS))
    elif roll < 0.16:
        special = ("libc", rng.choice(LIBC_NAMES))
    elif roll < 0.22:
        special = ("helper", rng.choice(HELPER_NAMES))
    elif roll < 0.45:
        names = {"X": "x", "Y": "y", "A": "A", "T": "t", "I": "i"}
    if special:
        names[rng.choice(["X", "Y", "T", "I"])] = special[1]
    return names, (special[0] if special else None)


def gen_hostile(rng):
    N, special = _hostile_names(rng)
    X, Y, A, Tn, I = N["X"], N["Y"], N["A"], N["T"], N["I"]
    base = rng.choice(["f32", "f32", "f32", "f64", "i32", "i8"])
    L = []
    w = L.append
    w("@proc")
    w(f"def lw(n: size, d: [{base}][n]):")
    w("    for i in seq(0, n):")
    w("        d[i] = 1.0")
    w("")
    w("@proc")
    w(f"def root({X}: {base}[16], {Y}: {base}[16], {A}: {base}[4, 8]):")
    ce = lambda v: cexpr(rng, v)
    menu = ["cidx", "cloop", "cwin", "usub", "usub", "litdiv", "negdiv", "tmp", "twod"]
    for st in [rng.choice(menu) for _ in range(rng.choice([1, 2, 3, 4]))]:
        if st == "cidx":
            w(f"    {Y}[{ce(rng.randrange(16))}] = {X}[{ce(rng.randrange(16))}] + {X}[{ce(rng.randrange(16))}]")
        elif st == "cloop":
            lo = rng.randrange(3)
            hi = rng.randrange(lo + 1, 9)
            k = rng.randrange(8)
            w(f"    for {I} in seq({ce(lo)}, {ce(hi)}):")
            w(f"        {Y}[{I}] = {X}[{I} + {ce(k)}]")
        elif st == "cwin":
            a = rng.randrange(7)
            K = rng.randrange(1, 7)
            w(f"    lw({ce(K)}, {X}[{ce(a)}:{ce(a + K)}])")
        elif st == "usub":
            a, b = f"{X}[{I}]", f"{Y}[{I}]"
            e = rng.choice([
                f"-(-{a})", f"-(-({a} * 2.0))", f"{a} - (-{a})", f"-(-1.0) * {a}", f"-(-(-{a}))", f"-{a} * -{b}",
                f"2.0 * -(-{a})", f"-(-{a}) + -(-{b})", f"-(-(1.0 + {a}))", f"{a} + -(-2.0)",
            ])
            w(f"    for {I} in seq(0, 8):")
            w(f"        {Y}[{I}] {rng.choice(['=', '=', '+='])} {e}")
        elif st == "litdiv":
            a = f"{X}[{I}]"
            e = rng.choice([f"{a} / 2.0", "3.0 / 2.0", f"({a} + 1.0) / 4.0", f"7.0 / 2.0 * {a}", f"{a} / (1.0 / 2.0)", f"-(3.0 / 2.0) * {a}"])
            w(f"    for {I} in seq(0, 8):")
            w(f"        {Y}[{I}] = {e}")
        elif st == "negdiv":
            ix = rng.choice([f"({I} - 3) / 2 + 2", f"({I} + 5) % 4", f"(0 - 3) / 2 + 2 + {I}", f"{I} / 2 + 7 / 2", f"({I} - 8) % 4", f"{I} + 6 / 4", f"-(-{I})", f"8 - -(-{I})"])
            w(f"    for {I} in seq(0, 8):")
            w(f"        {Y}[{I}] = {X}[{ix}]")
        elif st == "tmp":
            w(f"    {Tn}: {base}[{rng.choice(['8', '9 / 2 * 2', '2 * 4'])}]{rng.choice(['', '', ' @ DRAM_STACK'])}")
            w(f"    for {I} in seq(0, 8):")
            w(f"        {Tn}[{I}] = {X}[{I}]")
            w(f"    for {I} in seq(0, 8):")
            w(f"        {Y}[{I}] = {Tn}[{I}]")
        elif st == "twod":
            if rng.random() < 0.5:
                w(f"    {A}[{ce(rng.randrange(4))}, {ce(rng.randrange(8))}] = {X}[{ce(rng.randrange(16))}]")
            else:
                r = rng.randrange(4)
                a = rng.randrange(4)
                w(f"    lw(4, {A}[{ce(r)}, {ce(a)}:{ce(a + 4)}])")
    return GenProgram(HEAD + "\n".join(L) + "\n", "root", ["lw"], [], {"family": "hostile", "special": special})


def gen_externs(rng):
    """one library using type-specialised externs (relu, select, fmaxf, sin ...) at one or two
    precisions, directly and through a callee; set_precision steps then mix them further"""
    p1 = rng.choice(["f32", "f32", "f64"])
    p2 = rng.choice(["f32", "f64", "f64"])
    ext = lambda a, b: rng.choice([f"relu({a})", f"select({a}, {b}, {a}, {b})", f"relu({a}) + relu({b})", f"fmaxf({a}, {b})" if True else a, f"relu(relu({a}))", f"sin({a})"])
    L = []
    w = L.append
    w("@proc")
    w(f"def leafx(n: size, d: {p2}[n], s: {p2}[n]):")
    w("    for i in seq(0, n):")
    e = ext("s[i]", "d[i]")
    if "fmaxf" in e and p2 != "f32":
        e = "relu(s[i])"
    w(f"        d[i] = {e}")
    w("")
    w("@proc")
    w(f"def root(n: size, x: {p1}[n], y: {p1}[n], u: {p2}[n], v: {p2}[n]):")
    w("    for i in seq(0, n):")
    e = ext("x[i]", "y[i]")
    if "fmaxf" in e and p1 != "f32":
        e = "relu(x[i])"
    w(f"        y[i] = {e}")
    if rng.random() < 0.7:
        w("    leafx(n, u, v)")
    else:
        w("    for i in seq(0, n):")
        w(f"        u[i] = relu(v[i])")
    return GenProgram(HEAD + "\n".join(L) + "\n", "root", ["leafx"], [], {"family": "externs"})


def gen_alias_chain(rng):
    """window statements cut from arguments / allocations and from each other (y = x[..]; z = y[..]),
    used directly (read / write / reduce), in arithmetic with other buffers and as call arguments;
    precisions and memories drawn per declaration, and changed again afterwards by the
    set_precision / set_memory / set_window steps: every use through an alias has to be judged with
    the annotations of the buffer it is cut from"""
    px = rng.choice(["f32", "f32", "f64", "i8", "R"])
    po = rng.choice(["f32", "f32", "f64", px])
    pl = rng.choice(["f32", "f64", px])
    mx = rng.choice(["DRAM", "DRAM", "AVX2", "DRAM_STACK", "DRAM_STATIC"])
    as_alloc = rng.random() < 0.4
    L = []
    w = L.append
    w("@proc")
    w(f"def leafa(n: size, d: [{pl}][n], s: [{pl}][n]):")
    w("    for i in seq(0, n):")
    w("        d[i] = s[i]")
    w("")
    w("@proc")
    if as_alloc:
        w(f"def root(out: {po}[8], inp: {px}[8]):")
        w(f"    x: {px}[8] @ {mx}")
        if mx != "AVX2":
            w("    for i in seq(0, 8):")
            w("        x[i] = inp[i]")
    else:
        w(f"def root(out: {po}[8], inp: {px}[8], x: {px}[8] @ {mx}):")
    w(f"    y = x[{rng.choice(['0:6', '0:8', '1:7'])}]")
    deep = rng.random() < 0.6
    if deep:
        w(f"    z = y[{rng.choice(['1:5', '0:4', '1:5'])}]")
    a = "z" if deep else "y"
    uses = [
        f"    for i in seq(0, 4):\n        out[i] = {a}[i]",
        f"    for i in seq(0, 4):\n        {a}[i] = out[i]",
        f"    for i in seq(0, 4):\n        {a}[i] += out[i]",
        f"    for i in seq(0, 4):\n        out[i] = {a}[i] + out[i]",
        f"    leafa(4, out[0:4], {a}[0:4])",
        f"    leafa(2, out[0:2], y[1:3])",
        f"    leafa(4, {a}[0:4], out[4:8])",
        f"    out[0] = x[0] + {a}[1]",
    ]
    for u in rng.sample(uses, rng.choice([1, 2, 3])):
        w(u)
    return GenProgram(HEAD + "\n".join(L) + "\n", "root", ["leafa"], [], {"family": "alias_chain"})


def gen_name_nest(rng):
    """vf/ctemplates.t_name_nest: same-named variables of caller, callee and callee's callee that
    inlining brings into nested scopes (emitted identifiers must stay distinct)"""
    from ..ctemplates import t_name_nest

    gp = t_name_nest(rng)
    gp.meta["family"] = "name_nest"
    return gp


FAMILIES = [("name_nest", gen_name_nest, 0.06), ("annotated", gen_annotated, 0.28), ("depth2", gen_depth2, 0.26), ("instr", gen_instr, 0.10), ("hostile", gen_hostile, 0.16), ("externs", gen_externs, 0.07), ("alias_chain", gen_alias_chain, 0.13)]


def make_templates(ctx):
    names = [f[0] for f in FAMILIES]
    fns = {f[0]: f[1] for f in FAMILIES}
    wts = [f[2] for f in FAMILIES]

    def gen(rng):
        fam = rng.choices(names, weights=wts)[0]
        gp = fns[fam](rng)
        ctx.stat(f"family.{fam}")
        return gp

    return gen


# ----------------------------------------------------------------------------
# gcc diagnostics -> coarse mechanism classes
_GCC_KINDS = [
    ("array subscript is not an integer", "non-integer subscript"),
    ("conflicting types", "conflicting types"),
    ("incompatible pointer", "incompatible pointer"),
    ("incompatible type", "incompatible type"),
    ("undeclared", "undeclared"),
    ("implicit declaration", "implicit declaration"),
    ("expected expression", "expected expression"),
    ("invalid operands", "invalid operands"),
    ("discards", "discards qualifier"),
    ("redefinition", "redefinition"),
    ("redeclar", "redeclaration"),
    ("read-only", "write to const"),
    ("lvalue required", "lvalue required"),
    ("makes pointer from integer", "int conversion"),
    ("makes integer from pointer", "int conversion"),
    ("is not a function", "called object is not a function"),
    ("two or more data types", "declaration specifiers"),
    ("expected", "syntax"),
    ("invalid type argument", "invalid type argument"),
    ("subscripted value", "subscripted value is not an array"),
    ("too few arguments", "argument count"),
    ("too many arguments", "argument count"),
    ("request for member", "request for member"),
    ("array size missing", "array size missing"),
    ("storage size of", "storage size unknown"),
    ("assignment to expression with array type", "assignment to array"),
]

_ERR = re.compile(r"^(t\.[ch]):(\d+):(\d+): error: (.*)$", re.M)


def classify_gcc(stderr, c_text, h_text):
    """(kind, message, offending source line) of the first gcc error"""
    m = _ERR.search(stderr)
    if not m:
        mm = re.search(r"error: (.*)", stderr)
        msg = mm.group(1) if mm else stderr.strip().split("\n")[0][:200]
        line = ""
    else:
        msg = m.group(4)
        src = (c_text if m.group(1) == "t.c" else h_text).split("\n")
        ln = int(m.group(2)) - 1
        line = src[ln] if 0 <= ln < len(src) else ""
    kind = None
    for pat, k in _GCC_KINDS:
        if pat in msg:
            kind = k
            break
    if kind is None:
        kind = "other: " + " ".join(re.sub(r"[‘'`].*?[’'`]", "_", msg).split()[:4])
    return kind, msg, line


_WIN_NOTE = re.compile(r"expected [‘'`]struct (exo_win_\w+?)(c?)[’'`] but argument is of type [‘'`]struct (exo_win_\w+?)(c?)[’'`]")


def gcc_feature(kind, msg, line, ir, findings, stderr=""):
    """the emission mechanism behind a gcc rejection (stable, no random values)"""
    if kind == "non-integer subscript":
        return "const_div_folded_to_float"
    if kind in ("array size missing", "storage size unknown") and re.search(r"\w\[\];", line):
        return "scalar_alloc_in_array_memory"
    if kind == "request for member" and ".strides[" in line:
        return "stride_of_renamed_buffer"
    if kind == "incompatible type":
        m = _WIN_NOTE.search(stderr[stderr.find("error:"):].split("error:", 2)[1] if "error:" in stderr else "")
        if m and m.group(1) == m.group(3) and m.group(2) != m.group(4):
            return "window_struct_constness"
    if kind == "implicit declaration" and _nested_extern(ir):
        return "nested_extern_helper_missing"
    if "--" in line and "for (" not in line and ("decrement" in msg or kind in ("lvalue required", "write to const")):
        return "nested_usub"
    quoted = set(re.findall(r"[‘'`](\w+)[’'`]", msg))
    words = set(re.findall(r"\w+", line))
    names = _all_names(ir)
    syntaxish = kind in ("syntax", "declaration specifiers", "expected expression")
    if (quoted & names & set(C_KEYWORDS)) or (syntaxish and words & names & set(C_KEYWORDS)):
        return "c_keyword_name"
    if quoted & names & set(LIBC_NAMES):
        return "libc_name"
    if (quoted & names & set(HELPER_NAMES)) or (syntaxish and words & names & set(HELPER_NAMES)):
        return "backend_helper_name"
    if any(f["kind"] == "window_to_dense" for f in findings):
        return "window_to_dense_accepted"
    if _vector_args(ir):
        return "vector_memory_argument"
    return "other"


def _procs_of(ir):
    out, seen = [], set()

    def walk(p):
        if id(p) in seen:
            return
        seen.add(id(p))
        out.append(p)
        for c in irutil.callees(p):
            walk(c)

    walk(ir)
    return out


def _all_names(ir):
    names = set()
    for p in _procs_of(ir):
        if p.instr is not None:
            continue
        names.add(str(p.name))
        for a in p.args:
            names.add(str(a.name))
        for _, s in irutil.all_stmts(p):
            if isinstance(s, (LoopIR.Alloc, LoopIR.WindowStmt)):
                names.add(str(s.name))
            elif isinstance(s, LoopIR.For):
                names.add(str(s.iter))
    return names


def _nested_extern(ir):
    """an extern application among the arguments of another extern application"""
    for p in _procs_of(ir):
        if p.instr is not None:
            continue
        for _, st in irutil.all_stmts(p):
            for _, _, e in irutil.stmt_exprs(st):
                for _, sub in irutil.sub_exprs(e):
                    if isinstance(sub, LoopIR.Extern):
                        for a in sub.args:
                            if any(isinstance(x, LoopIR.Extern) for _, x in irutil.sub_exprs(a)):
                                return True
    return False


def _vector_args(ir):
    from exo.core.memory import DRAM

    for p in _procs_of(ir):
        if p.instr is not None:
            continue
        for a in p.args:
            if a.type.is_numeric() and a.mem is not None and not issubclass(a.mem, DRAM):
                return True
    return False


# ----------------------------------------------------------------------------
class C15Monitor(Monitor):
    name = "c15"
    prop = "C15"

    def __init__(self, ctx, replay=False, p_variant=0.35):
        super().__init__(ctx)
        self.replay = replay
        self.p_variant = p_variant
        self.gcc_cache = {}
        self.nwork = 0
        self.reset()

    def reset(self):
        self.seen_fp = set()
        self.fired = set()
        self.first_seen = {}  # (kind, proc, detail) -> operation after which the judge first reported it

    # -- the two monitors on one compile attempt -----------------------------
    def check(self, sess, proc, via):
        ctx = self.ctx
        ir = proc._loopir_proc
        fp = irutil.fingerprint(ir, alpha=True)
        if fp in self.seen_fp:
            ctx.stat("state.repeated")
            return
        self.seen_fp.add(fp)
        ctx.stat("evaluations")
        ctx.stat("compile.attempts")
        ctx.stat(f"compile.attempts.via.{via.split(':')[0]}")
        if ":" in via:
            ctx.stat(f"callee_variant.{via.split(':')[1]}")
        try:
            findings, info, jst = annot.judge(ir)
        except CaseTimeout:
            raise
        except Exception as e:
            ctx.inconclusive("judge_error:" + type(e).__name__)
            findings, info, jst = [], [], {"procs": 0, "calls": 0}
        kinds = annot.kinds_of(findings)
        depth = annot.call_depth(ir)
        ctx.stat(f"call_depth.{min(depth, 3)}")
        if info:
            ctx.stat("judge.info.assign_cast")
        exc = None
        c_text = h_text = None
        try:
            c_text, h_text = cbuild.compile_exo([proc])
        except CaseTimeout:
            raise
        except (KeyboardInterrupt, SystemExit, MemoryError):
            raise
        except BaseException as e:  # whatever exo raises is a rejection
            exc = e
        ctx.distinct(fp, nontrivial=len(annot.annotation_vector(ir)) >= 2)
        if kinds:
            ctx.stat("judge.inconsistent")
            for k in kinds:
                ctx.stat(f"judge.inconsistent.{k}")
        else:
            ctx.stat("judge.consistent")
        for f in findings:
            self.first_seen.setdefault((f["kind"], f["proc"], f["detail"]), via.split(":")[0])

        if exc is not None:
            en = type(exc).__name__
            ctx.stat("compile.rejected")
            ctx.stat(f"compile.reject.{en}")
            if kinds:
                ctx.stat("judge.inconsistent.rejected_by_exo")
                for k in kinds:
                    ctx.stat(f"judge.inconsistent.{k}.rejected_by_exo")
            else:
                ctx.stat("judge.consistent.rejected_by_exo(conservative)")
                ctx.stat(f"conservative.{en}")
            self.sample(sess, proc, via, kinds, findings, f"rejected: {en}: {str(exc)[:160]}", None)
            return

        ctx.stat("compile.succeeded")
        # (b) judge
        for k in kinds:
            ctx.stat(f"judge.inconsistent.{k}.accepted_by_exo")
            key = ("annot-judge", k)
            if key in self.fired:
                continue
            self.fired.add(key)
            f = next(x for x in findings if x["kind"] == k)
            # the mechanism: the operation that brought the inconsistency in ("source": as written;
            # "call_eqv": through a callee re-annotated by set_* steps)
            sig = {"prop": "C15", "monitor": "annot-judge", "kind": k, "introduced_by": self.first_seen[(f["kind"], f["proc"], f["detail"])]}
            case = mk_case(sess, sess.steps, "annot-judge", None, {
                "kind": k, "finding": dict(f), "all_findings": [dict(x) for x in findings][:8],
                "proc": sstr(proc, 3000), "annotations": annot.annotation_vector(ir)[:40],
                "c_excerpt": c_text[-2500:],
            })
            ctx.violation(sig, case)
            ctx.stat(f"viol.annot-judge.{k}")
        # (a) gcc
        if not ctx.params.get("gcc", True):  # debugging aid: judge only
            return
        h = shash(c_text + "\0" + h_text)
        if h in self.gcc_cache:
            ok, err = self.gcc_cache[h]
            ctx.stat("gcc.cached")
        else:
            self.nwork += 1
            try:
                # acceptance only: no optimiser, no debug info (the later flags win)
                ok, err = cbuild.gcc_syntax_check(c_text, h_text, ctx.scratch / f"gcc{self.nwork % 4}", extra_flags=("-O0", "-g0"))
            except CaseTimeout:
                raise
            except Exception as e:
                ctx.inconclusive("gcc_error:" + type(e).__name__)
                return
            self.gcc_cache[h] = (ok, err)
            ctx.stat("gcc.checks")
        if ok:
            ctx.stat("gcc.accepted")
            self.sample(sess, proc, via, kinds, findings, "accepted", "accepted")
            return
        ctx.stat("gcc.rejected")
        kind, msg, line = classify_gcc(err, c_text, h_text)
        feat = gcc_feature(kind, msg, line, ir, findings, err)
        key = ("gcc", kind, feat)
        if key in self.fired:
            return
        self.fired.add(key)
        sig = {"prop": "C15", "monitor": "gcc", "kind": kind, "feature": feat}
        case = mk_case(sess, sess.steps, "gcc", None, {
            "kind": kind, "feature": feat, "gcc_message": msg, "c_line": line.strip()[:300],
            "gcc_stderr": err[:1500], "proc": sstr(proc, 3000), "c_excerpt": c_text[-2500:],
        })
        ctx.violation(sig, case)
        ctx.stat(f"viol.gcc.{kind}")

    def sample(self, sess, proc, via, kinds, findings, exo, gcc):
        ctx = self.ctx
        if ctx._nsamples >= 3:
            return
        # keep the three samples of a shard different in outcome
        tag = (exo.split(":")[0], bool(kinds))
        if tag in getattr(self, "_sampled", set()):
            return
        self._sampled = getattr(self, "_sampled", set()) | {tag}
        ctx.sample({
            "state_reached_by": via, "steps": [{"op": s["op"], "args": [a.get("v", a.get("name", a.get("path"))) for a in s["args"]]} for s in sess.steps],
            "proc": sstr(proc, 1200), "annotations": annot.annotation_vector(proc._loopir_proc)[:16],
            "exo": exo, "gcc": gcc, "judge": kinds or "consistent", "judge_findings": [dict(f) for f in findings][:3],
        })

    # -- stream callbacks ---------------------------------------------------------
    def on_program(self, sess):
        self.reset()
        self.check(sess, sess.cur, "source")
        if self.replay:
            return
        rng = self.ctx.rng
        if rng.random() < self.p_variant:
            self.callee_variant(sess, rng)

    def callee_variant(self, sess, rng):
        """re-annotate a callee with set_* steps and point a call of the root at it (call_eqv)"""
        ctx = self.ctx
        ir = sess.cur._loopir_proc
        local = sess.local_procs()
        calls = [(p, s) for p, s in irutil.all_stmts(ir) if isinstance(s, LoopIR.Call) and s.f.instr is None and str(s.f.name) in local]
        if not calls:
            return
        path, cs = rng.choice(calls)
        base = str(cs.f.name)
        sub = Session(sess.mod, base, sess.text)
        steps = []
        for _ in range(rng.choice([1, 1, 2])):
            st = random_step(sub, rng, ANNOT_OPS)
            if st is None:
                continue
            r = apply_step(sub, st)
            if r.status == "accepted":
                steps.append(st)
        if not steps:
            return
        vname = f"{base}__v"
        try:
            sess.derive_variant(vname, base, steps)
        except CaseTimeout:
            raise
        except Exception:
            ctx.stat("variant.derive_failed")
            return
        step = {"op": "call_eqv", "args": [D_node(path), {"k": "proc", "name": vname}], "kw": {}}
        r = apply_step(sess, step)
        ctx.stat("variant.attempted")
        if r.status != "accepted":
            ctx.stat(f"variant.rejected.{type(r.exc).__name__}")
            return
        ctx.stat("variant.accepted")
        self.check(sess, sess.cur, "call_eqv:" + "+".join(s["op"] for s in steps))

    def after_step(self, sess, step, old, result):
        if result.status != "accepted":
            return
        if step["op"] == "call_eqv" and not self.replay:
            return  # applied and checked by callee_variant
        via = step["op"]
        if step["op"] == "call_eqv":
            pre = getattr(sess, "prelude", None) or []
            via = "call_eqv:" + "+".join(s["op"] for p in pre for s in p["steps"])
        self.check(sess, result.proc, via)


# ----------------------------------------------------------------------------
def plan(tier, seed):
    quick = tier == "quick"
    # count-based budget (modules per shard); soft_s is only a generous cap for a loaded machine.
    # A module costs ~1.3 s on an idle core (front end 0.3 s, up to 6 compiles, gcc -c 0.1-0.4 s each):
    # quick ~40 s per shard, thorough ~9 min.
    return {
        "nshards": 16,
        "params": {"soft_s": 1200 if quick else 3000, "nprograms": 28 if quick else 112, "script_len": 4},
        "hard_timeout_s": 2400 if quick else 6000,
    }


def shard(ctx):
    prof = StreamProfile(script_len=ctx.params.get("script_len", 4), op_weights=dict(ANNOT_OPS), templates=make_templates(ctx))
    prof.template_prob = 1.0
    run_stream(ctx, prof, [C15Monitor(ctx)], case_timeout=150)


MIN_GCC = 150
MIN_KIND = 30


def finish(agg, tier):
    st = agg.stats
    inc = []
    gcc_n = st.get("gcc.checks", 0)
    if gcc_n < MIN_GCC:
        inc.append(f"only {gcc_n} successful compiles were checked by gcc (need {MIN_GCC})")
    per_kind = {}
    for k in annot.KINDS:
        n = st.get(f"judge.inconsistent.{k}", 0)
        per_kind[k] = {
            "reached": n,
            "rejected_by_exo": st.get(f"judge.inconsistent.{k}.rejected_by_exo", 0),
            "accepted_by_exo": st.get(f"judge.inconsistent.{k}.accepted_by_exo", 0),
        }
        if n < MIN_KIND:
            inc.append(f"judge reached only {n} programs inconsistent by {k} (need {MIN_KIND})")
    if st.get("call_depth.2", 0) + st.get("call_depth.3", 0) < MIN_KIND:
        inc.append("fewer than 30 compiles at call depth >= 2")
    cov = {
        "compiles": {
            "attempted": st.get("compile.attempts", 0),
            "succeeded": st.get("compile.succeeded", 0),
            "rejected": st.get("compile.rejected", 0),
            "rejected_by_exception": {k[len("compile.reject."):]: v for k, v in sorted(st.items()) if k.startswith("compile.reject.")},
            "reached_via": {k[len("compile.attempts.via."):]: v for k, v in sorted(st.items()) if k.startswith("compile.attempts.via.")},
            "call_depth": {k[len("call_depth."):]: v for k, v in sorted(st.items()) if k.startswith("call_depth.")},
        },
        "gcc": {"checks": gcc_n, "cached_repeats": st.get("gcc.cached", 0), "accepted": st.get("gcc.accepted", 0), "rejected": st.get("gcc.rejected", 0)},
        "judge": {
            "consistent": st.get("judge.consistent", 0),
            "inconsistent": st.get("judge.inconsistent", 0),
            "inconsistent_rejected_by_exo": st.get("judge.inconsistent.rejected_by_exo", 0),
            "by_kind": per_kind,
            "consistent_but_rejected_by_exo(conservative)": st.get("judge.consistent.rejected_by_exo(conservative)", 0),
            "assign_cast_states(info only)": st.get("judge.info.assign_cast", 0),
        },
        "families": {k[len("family."):]: v for k, v in sorted(st.items()) if k.startswith("family.")},
        "modules": {"generated": st.get("programs.generated", 0), "accepted_by_front_end": st.get("programs.accepted", 0)},
    }
    return {"evaluations": st.get("evaluations", 0), "coverage": cov, "inconclusive": inc}


def replay(case):
    want_mon = case.get("monitor")
    want_kind = case.get("kind")
    want_feat = case.get("feature")

    def match(sig):
        if want_mon and sig.get("monitor") != want_mon:
            return False
        if want_kind and sig.get("kind") != want_kind:
            return False
        if want_feat and sig.get("feature") != want_feat:
            return False
        return True

    return replay_through(case, lambda ctx, c: [C15Monitor(ctx, replay=True)], match=match)
