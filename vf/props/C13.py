"""C13  Range analysis bounds contain every attainable value.

Runtime monitoring of the real range analysis of exo
(`exo.rewrite.range_analysis`, `exo.stdlib.range_analysis`) at four places:

 (1) icontract postconditions on every public operator of `IndexRange`
     (+ `partial_eval_with_range`): sampled members of the operands must map to
     members of the result; an exhaustive 5x5 box of operand ranges (with
     unbounded ends) is part of every run;
 (2) `index_range_analysis` / `constant_bound` / `IndexRangeEnvironment.*`
     called on generated (expression, environment) pairs, synthetic ones and
     ones taken from the loops of generated procedures;
 (3) `infer_range` / `bounds_inference` on cursors of generated procedures,
     judged by executing the enclosing loops on concrete sizes;
 (4) in situ: the same wrappers stay installed while generated procedures are
     compiled, simplified and folded, so every decision taken there is judged.

The oracle (vf/rangeoracle.py) only evaluates expressions on concrete integers.
"""

from __future__ import annotations

import copy
import importlib.util
import itertools
import json
import sys
import tempfile
import time
from pathlib import Path

from vf import common
from vf import rangeoracle as ro

PROP = "C13"
LEVEL = "exploration"
RULE = (
    "cases: (O) one application of an IndexRange operator to concrete operand ranges "
    "(exhaustive 5x5 box incl. unbounded ends x 5 base combinations, plus random hostile operands); "
    "(P) one (index expression of depth<=4 over <=3 variables, environment) pair handed to "
    "constant_bound/index_range_analysis/check_expr_bound(s)/add_loop_iter; (U) one infer_range / "
    "bounds_inference call on a cursor of a generated procedure; (I) one generated procedure x "
    "{compile, simplify, fold}. Distinct = distinct JSON of the case; non-trivial = at least one concrete "
    "member/valuation was judged against a result that carries a finite bound or a True decision. "
    "Hashes prefixed S: are distinct expression shapes (not counted as non-trivial cases)."
)
ASSUMPTIONS = [
    "gamma(IndexRange(base, lo, hi)) = {base(sigma)+d | lo<=d<=hi}, both ends inclusive, None = unbounded; "
    "constant_bound's pair is inclusive",
    "index `/` and `%` are floor division / modulo by a positive literal (Python // and %)",
    "free (base) variables may take any integer, size-typed ones any positive integer",
    "unbounded sides and wide ranges are sampled (window next to the finite end plus far values), not enumerated",
    "a loop variable ranges over lo..hi-1 of its loop for argument values allowed by the asserts",
]

# --------------------------------------------------------------------------
# plan
# --------------------------------------------------------------------------
TIERS = {
    "quick": {
        "soft_s": 50,
        "ops_random": 1500,
        "pairs": 400,
        "programs": 21,
        "exh_exprs": False,
    },
    "thorough": {
        "soft_s": 700,
        "ops_random": 60000,
        "pairs": 7000,
        "programs": 330,
        "exh_exprs": True,
    },
}


def plan(tier, seed):
    p = dict(TIERS.get(tier, TIERS["quick"]))
    return {
        "nshards": 16,
        "params": p,
        "hard_timeout_s": 1200 if tier == "quick" else 4800,
    }


# --------------------------------------------------------------------------
# generators: operands
# --------------------------------------------------------------------------
BOX = [None, -2, -1, 0, 1, 2]
BASE_PAIRS = [
    (None, None),
    (["v", "n"], None),
    (None, ["v", "n"]),
    (["v", "n"], ["v", "n"]),
    (["v", "n"], ["v", "m"]),
]
RICH_BASES = [
    None,
    None,
    ["v", "n"],
    ["v", "m"],
    ["*", ["v", "n"], ["c", 4]],
    ["+", ["v", "n"], ["v", "m"]],
    ["neg", ["v", "n"]],
    ["/", ["v", "n"], ["c", 2]],
    ["-", ["*", ["c", 3], ["v", "n"]], ["v", "m"]],
]


def exhaustive_op_cases():
    """the exhaustive sub-space: every pair of ranges with ends in {None,-2..2}
    (36 ranges incl. empty ones), 5 base combinations, scalars -3..3, divisors 1..4."""
    rngs = [(lo, hi) for lo in BOX for hi in BOX]
    for op in ("__add__", "__sub__", "__or__"):
        for ba, bb in BASE_PAIRS:
            for a in rngs:
                for b in rngs:
                    yield {"kind": "op", "op": op, "a": [ba, a[0], a[1]], "b": [bb, b[0], b[1]]}
    for base in (None, ["v", "n"]):
        for a in rngs:
            yield {"kind": "op", "op": "__neg__", "a": [base, a[0], a[1]], "b": None}
            for c in range(-3, 4):
                for op in ("__add__", "__radd__", "__sub__", "__rsub__", "__mul__", "__rmul__"):
                    yield {"kind": "op", "op": op, "a": [base, a[0], a[1]], "b": ["int", c]}
            for c in range(1, 5):
                for op in ("__floordiv__", "__mod__"):
                    yield {"kind": "op", "op": op, "a": [base, a[0], a[1]], "b": ["int", c]}


def rand_end(rng):
    r = rng.random()
    if r < 0.22:
        return None
    if r < 0.75:
        return rng.randint(-9, 9)
    if r < 0.9:
        return rng.randint(-130, 130)
    return rng.choice([-ro.BIG, ro.BIG, -(2**31), 2**31 - 1, 0])


def rand_range(rng, base=None):
    lo, hi = rand_end(rng), rand_end(rng)
    r = rng.random()
    if lo is not None and hi is not None:
        if r < 0.15:
            hi = lo  # zero width
        elif lo > hi and r < 0.9:
            lo, hi = hi, lo
    return [copy.deepcopy(base), lo, hi]


def rand_op_case(rng):
    op = rng.choice(
        [
            "__add__",
            "__sub__",
            "__or__",
            "__or__",
            "__neg__",
            "__mul__",
            "__rmul__",
            "__floordiv__",
            "__floordiv__",
            "__mod__",
            "__mod__",
            "__radd__",
            "__rsub__",
            "S__add__",
            "S__sub__",
        ]
    )
    ba = rng.choice(RICH_BASES)
    a = rand_range(rng, ba)
    if op == "__neg__":
        return {"kind": "op", "op": op, "a": a, "b": None}
    if op in ("__add__", "__sub__", "__or__"):
        r = rng.random()
        bb = ba if r < 0.45 else rng.choice(RICH_BASES)
        return {"kind": "op", "op": op, "a": a, "b": rand_range(rng, bb)}
    if op.startswith("S"):
        op = op[1:]
    if op in ("__floordiv__", "__mod__"):
        c = rng.randint(1, 8) if rng.random() < 0.9 else rng.choice([16, 64, 1000])
        if op == "__floordiv__" and rng.random() < 0.04:
            c = rng.choice([-1, -3])
    else:
        c = rng.randint(-8, 8) if rng.random() < 0.9 else rng.choice([-100, 100, 2**20])
    return {"kind": "op", "op": op, "a": a, "b": ["int", c]}


# --------------------------------------------------------------------------
# generators: expressions and environments
# --------------------------------------------------------------------------
def gen_expr(rng, names, depth):
    if depth <= 0 or rng.random() < 0.18:
        if rng.random() < 0.72:
            return ["v", rng.choice(names)]
        return ["c", rng.randint(-9, 9)]
    op = rng.choice(["+", "+", "-", "-", "-", "*", "*", "/", "/", "%", "%", "neg"])
    if op == "neg":
        return ["neg", gen_expr(rng, names, depth - 1)]
    if op in ("+", "-"):
        return [op, gen_expr(rng, names, depth - 1), gen_expr(rng, names, depth - 1 - rng.randint(0, 1))]
    if op == "*":
        c = rng.choice([-4, -3, -2, -1, 1, 2, 3, 4, 5, 8])
        e = gen_expr(rng, names, depth - 1)
        return ["*", ["c", c], e] if rng.random() < 0.5 else ["*", e, ["c", c]]
    return [op, gen_expr(rng, names, depth - 1), ["c", rng.randint(1, 8)]]


def gen_env(rng, names):
    env = {}
    for n in names:
        r = rng.random()
        if r < 0.12:
            continue  # free variable: stays in the base
        a = rng.randint(-7, 7)
        if r < 0.5:
            env[n] = [a, a + rng.randint(0, 7)]
        elif r < 0.58:
            env[n] = [a, a]
        elif r < 0.7:
            env[n] = [a, None]
        elif r < 0.78:
            env[n] = [None, a]
        elif r < 0.84:
            env[n] = [None, None]
        elif r < 0.92:
            env[n] = [0, rng.randint(0, 12)]
        else:
            b = rng.randint(-120, 120)
            env[n] = [min(b, b + rng.randint(0, 200)), b + 200]
    return env


def concrete_minmax(expr, env, rng):
    """brute-force min/max of the expression over a window of the environment
    (used to pick hostile thresholds for the boolean decisions)."""
    names = ro.expr_vars(expr)
    doms = []
    for n in names:
        if n in env:
            doms.append(ro.samples_of_range(env[n][0], env[n][1], 7))
        else:
            doms.append([-3, 0, 1, 4])
    vals = []
    for v in ro.box(doms, 300, rng):
        try:
            vals.append(ro.ev(expr, dict(zip(names, v))))
        except ro.Undefined:
            pass
    if not vals:
        return None
    return min(vals), max(vals)


def exhaustive_exprs():
    """all expressions of depth <= 2 over x, y with literal leaves -1, 2
    (`*` by a literal, `/` and `%` by 2 or 3)."""
    leaves = [["v", "x"], ["v", "y"], ["c", -1], ["c", 2]]
    vars_ = leaves[:2]
    consts = leaves[2:]

    def level(sub):
        out = []
        for op in ("+", "-"):
            for a in sub:
                for b in sub:
                    if a[0] == "c" and b[0] == "c":
                        continue
                    out.append([op, a, b])
        for c in consts:
            for e in sub:
                if e[0] == "c":
                    continue
                out.append(["*", c, e])
                out.append(["*", e, c])
        for op in ("/", "%"):
            for e in sub:
                if e[0] == "c":
                    continue
                for d in (2, 3):
                    out.append([op, e, ["c", d]])
        for e in sub:
            if e[0] != "c":
                out.append(["neg", e])
        return out

    d1 = level(leaves)
    d01 = leaves + d1
    d2 = level(d01)
    seen = set()
    for e in vars_ + d1 + d2:
        k = json.dumps(e)
        if k not in seen:
            seen.add(k)
            yield e


def box_envs(names):
    rngs = [(lo, hi) for lo in BOX for hi in BOX if lo is None or hi is None or lo <= hi]
    for combo in itertools.product(rngs, repeat=len(names)):
        yield {n: [r[0], r[1]] for n, r in zip(names, combo)}


# --------------------------------------------------------------------------
# generators: procedures (spec -> exo source)
# --------------------------------------------------------------------------
class Ids:
    def __init__(self):
        self.n = 0

    def __call__(self):
        self.n += 1
        return self.n


def gen_sizes(rng, names, min_ge=1):
    out = []
    for n in names:
        s = {"name": n, "ge": None, "le": None, "mod": None, "eq": None}
        r = rng.random()
        if r < 0.22:
            pass  # only N >= 1 (implicit): half-open
        elif r < 0.5:
            s["ge"] = rng.randint(2, 6)  # half-open, asserted lower bound only
        elif r < 0.75:
            s["ge"] = rng.randint(1, 5)
            s["le"] = s["ge"] + rng.randint(0, 9)
        elif r < 0.85:
            s["le"] = rng.randint(3, 12)
        elif r < 0.93:
            s["mod"] = rng.choice([2, 4])
            if rng.random() < 0.5:
                s["le"] = 16
        else:
            s["eq"] = rng.randint(2, 9)
        if min_ge > 1:
            if s["eq"] is not None:
                s["eq"] = max(s["eq"], min_ge)
            s["ge"] = max(s["ge"] or 1, min_ge)
            if s["le"] is not None:
                s["le"] = max(s["le"], s["ge"] + 1)
                if s["mod"]:
                    s["le"] = 16
        out.append(s)
    return out


def size_min(s):
    if s.get("eq"):
        return s["eq"]
    m = max(1, s.get("ge") or 1)
    if s.get("mod"):
        while m % s["mod"]:
            m += 1
    return m


def gen_f1(rng):
    """hostile index expressions in positions without side conditions:
    `for k in seq(E, E + 1): pass` and `if E > c: pass`."""
    ids = Ids()
    sizes = gen_sizes(rng, ["N", "M"][: rng.randint(1, 2)])
    iargs = ["q"] if rng.random() < 0.35 else []
    depth = rng.randint(1, 3)
    lvars = ["i", "j", "l"][:depth]
    if depth == 3 and rng.random() < 0.25:
        lvars[2] = lvars[1]  # the innermost loop shadows the name of the middle one
    info = []  # per loop: name, min value, (size, c0) if hi = size + c0
    probes = [0]

    def names_here(k):
        ns = [s["name"] for s in sizes] + iargs
        seen = []
        for nm, _, _ in info[:k]:
            if nm not in seen:
                seen.append(nm)
        return seen + ns if seen else ns

    def mk_probe(k):
        e = gen_expr(rng, names_here(k), rng.randint(1, 4))
        if rng.random() < 0.7:
            probes[0] += 1
            return {"id": ids(), "t": "probe", "v": f"k{probes[0]}", "e": e}
        return {
            "id": ids(),
            "t": "cond",
            "e": e,
            "cmp": rng.choice([">", "==", "<"]),
            "c": rng.randint(-3, 5),
        }

    def mk_loop(k):
        name = lvars[k]
        sz = rng.choice(sizes)
        smin = size_min(sz)
        N = ["v", sz["name"]]
        outer = info[k - 1] if k > 0 else None
        forms = ["const", "const", "size", "size", "sizediv"]
        if outer and outer[0] != name:  # a bound must not mention the name it shadows
            forms += ["tri", "tri", "upto"]
            if outer[2] is not None:
                forms += ["from_outer"]
        f = rng.choice(forms)
        hiN = None
        if f == "const":
            a = rng.randint(-3, 3)
            lo, hi, mn = ["c", a], ["c", a + rng.randint(0, 6)], a
        elif f == "size":
            a = rng.choice([0, 0, 0, 1, -2, 2])
            c = rng.randint(max(a - smin, -2), 3)
            lo, mn = ["c", a], a
            hi = N if c == 0 else ["+", N, ["c", c]]
            hiN = (sz["name"], c)
        elif f == "sizediv":
            lo, mn = ["c", 0], 0
            hi = ["+", ["/", N, ["c", rng.choice([2, 3, 4])]], ["c", 1]]
        elif f == "tri":
            o = ["v", outer[0]]
            lo, mn = o, outer[1]
            hi = ["+", o, ["c", rng.randint(0, 5)]]
        elif f == "upto":
            o = ["v", outer[0]]
            c = rng.randint(max(0, -outer[1]), max(0, -outer[1]) + 3)
            lo, mn = ["c", 0], 0
            hi = ["+", o, ["c", c]]
        else:  # from_outer: seq(o, S + c) with o < S + c0
            o = ["v", outer[0]]
            sname, c0 = outer[2]
            c = rng.randint(c0 - 1, c0 + 2)
            lo, mn = o, outer[1]
            hi = ["+", ["v", sname], ["c", c]]
            hiN = (sname, c)
        info.append((name, mn, hiN))
        body = []
        if k + 1 < depth:
            if rng.random() < 0.35:
                body.append(mk_probe(k + 1))
            body.append(mk_loop(k + 1))
        else:
            for _ in range(rng.randint(2, 4)):
                body.append(mk_probe(k + 1))
        return {"id": ids(), "t": "for", "v": name, "lo": lo, "hi": hi, "body": body}

    body = [mk_loop(0)]
    return {
        "family": "F1",
        "sizes": sizes,
        "iargs": iargs,
        "bargs": [],
        "bufs": [],
        "allocs": [],
        "body": body,
    }


def gen_f2(rng):
    """buffer accesses (in bounds by construction) for bounds_inference and folding."""
    ids = Ids()
    sizes = gen_sizes(rng, ["N"], min_ge=5)
    N = ["v", "N"]
    dim = ["+", N, ["c", 40]]
    spec = {
        "family": "F2",
        "sizes": sizes,
        "iargs": [],
        "bargs": ["c0"],
        "bufs": [{"name": "inp", "dim": dim}, {"name": "out", "dim": dim}],
        "allocs": [{"id": ids(), "name": "x", "dim": dim}],
        "body": [],
    }

    def off(v, a):
        return v if a == 0 else ["+", v, ["c", a]]

    def asg_w(idx, src_idx):
        return {"id": ids(), "t": "asg", "buf": "x", "idx": idx, "reads": [["inp", src_idx]]}

    def asg_r(out_idx, xs):
        return {"id": ids(), "t": "asg", "buf": "out", "idx": out_idx, "reads": [["x", e] for e in xs]}

    def inner_stmts(v, allow_nest, lvl):
        out = []
        for _ in range(rng.randint(1, 3)):
            r = rng.random()
            if r < 0.35:
                out.append(asg_w(off(v, rng.randint(0, 6)), v))
            elif r < 0.6:
                out.append(asg_r(v, [off(v, rng.randint(0, 6)) for _ in range(rng.randint(1, 3))]))
            elif r < 0.7:
                out.append(asg_w(["c", rng.randint(0, 8)], ["c", 0]))
            elif allow_nest:
                out.append(loop(lvl + 1, v))
            else:
                out.append(asg_w(off(v, rng.randint(0, 6)), v))
        return out

    def loop(lvl, outer=None):
        name = ["i", "j", "l"][lvl]
        V = ["v", name]
        forms = ["const", "size", "sizem4", "sizediv"]
        if outer is not None:
            forms = ["tri", "tri", "size", "const"]
        f = rng.choice(forms)
        if f == "const":
            a = rng.randint(0, 2)
            lo, hi = ["c", a], ["c", a + rng.randint(1, 6)]
        elif f == "size":
            lo, hi = ["c", 0], N
        elif f == "sizem4":
            lo, hi = ["c", 0], ["-", N, ["c", 4]]
        elif f == "sizediv":
            lo, hi = ["c", 0], ["/", N, ["c", 4]]
            body = []
            ii = ["v", "j"]
            t = ["+", ["*", ["c", 4], V], ii]
            inner = [asg_w(off(t, rng.randint(0, 4)), t)]
            if rng.random() < 0.6:
                inner.append(asg_r(t, [off(t, rng.randint(0, 4)) for _ in range(2)]))
            body.append({"id": ids(), "t": "for", "v": "j", "lo": ["c", 0], "hi": ["c", 4], "body": inner})
            return {"id": ids(), "t": "for", "v": name, "lo": lo, "hi": hi, "body": body}
        else:  # tri
            lo, hi = outer, ["+", outer, ["c", rng.randint(1, 4)]]
        return {
            "id": ids(),
            "t": "for",
            "v": name,
            "lo": lo,
            "hi": hi,
            "body": inner_stmts(V, lvl < 1, lvl),
        }

    def block(allow_if=True):
        r = rng.random()
        if r < 0.2:
            return asg_w(["c", rng.randint(0, 8)], ["c", rng.randint(0, 8)])
        if r < 0.32:
            return asg_r(["c", rng.randint(0, 8)], [["c", rng.randint(0, 8)]])
        if r < 0.45 and allow_if:
            return {
                "id": ids(),
                "t": "ifb",
                "b": "c0",
                "body": [block(False) for _ in range(rng.randint(1, 2))],
                "orelse": [block(False) for _ in range(rng.randint(1, 2))],
            }
        return loop(0)

    spec["body"] = [block() for _ in range(rng.randint(1, 4))]
    return spec


def corpus():
    """hand-written procedures (as specs) that exercise the join of half-open
    ranges, shadowed iterator names and folding after a loop / an if."""
    N = ["v", "N"]
    dim = ["+", N, ["c", 40]]
    sz = [{"name": "N", "ge": 5, "le": None, "mod": None, "eq": None}]

    def f2(body, ids):
        return {
            "family": "F2",
            "sizes": copy.deepcopy(sz),
            "iargs": [],
            "bargs": ["c0"],
            "bufs": [{"name": "inp", "dim": dim}, {"name": "out", "dim": dim}],
            "allocs": [{"id": 1, "name": "x", "dim": dim}],
            "body": body,
        }

    i, j = ["v", "i"], ["v", "j"]
    # bounds_inference over an inner loop with a symbolic (half-open) bound and a constant access
    yield f2(
        [
            {
                "id": 2,
                "t": "for",
                "v": "i",
                "lo": ["c", 0],
                "hi": ["c", 4],
                "body": [
                    {
                        "id": 3,
                        "t": "for",
                        "v": "j",
                        "lo": ["c", 0],
                        "hi": N,
                        "body": [
                            {"id": 4, "t": "asg", "buf": "x", "idx": j, "reads": [["inp", j]]},
                            {"id": 5, "t": "asg", "buf": "x", "idx": ["c", 3], "reads": [["inp", ["c", 0]]]},
                        ],
                    }
                ],
            }
        ],
        None,
    )
    # fold after a loop whose accesses carry an offset
    yield f2(
        [
            {
                "id": 2,
                "t": "for",
                "v": "i",
                "lo": ["c", 0],
                "hi": ["c", 8],
                "body": [{"id": 3, "t": "asg", "buf": "x", "idx": ["+", i, ["c", 4]], "reads": [["inp", i]]}],
            },
            {"id": 4, "t": "asg", "buf": "out", "idx": ["c", 0], "reads": [["x", ["c", 4]], ["inp", ["c", 1]]]},
        ],
        None,
    )
    # fold after an if whose branches have an unbounded and a constant window
    yield f2(
        [
            {
                "id": 2,
                "t": "ifb",
                "b": "c0",
                "body": [
                    {
                        "id": 3,
                        "t": "for",
                        "v": "i",
                        "lo": ["c", 0],
                        "hi": N,
                        "body": [{"id": 4, "t": "asg", "buf": "x", "idx": i, "reads": [["inp", i]]}],
                    }
                ],
                "orelse": [{"id": 5, "t": "asg", "buf": "x", "idx": ["c", 2], "reads": [["inp", ["c", 2]]]}],
            },
            {"id": 6, "t": "asg", "buf": "out", "idx": ["c", 0], "reads": [["x", ["c", 2]], ["inp", ["c", 1]]]},
        ],
        None,
    )
    # an inner loop that shadows the name of an enclosing loop inside the scope
    yield {
        "family": "F1",
        "sizes": [{"name": "N", "ge": None, "le": None, "mod": None, "eq": None}],
        "iargs": [],
        "bargs": [],
        "bufs": [],
        "allocs": [],
        "body": [
            {
                "id": 1,
                "t": "for",
                "v": "l",
                "lo": ["c", 0],
                "hi": ["c", 2],
                "body": [
                    {
                        "id": 2,
                        "t": "for",
                        "v": "i",
                        "lo": ["c", 0],
                        "hi": ["c", 4],
                        "body": [
                            {
                                "id": 3,
                                "t": "for",
                                "v": "i",
                                "lo": ["c", 0],
                                "hi": ["c", 8],
                                "body": [
                                    {"id": 4, "t": "probe", "v": "k1", "e": ["-", ["*", ["c", 2], i], ["c", 3]]},
                                    {"id": 5, "t": "cond", "e": ["/", ["-", i, ["c", 5]], ["c", 2]], "cmp": ">", "c": 0},
                                ],
                            }
                        ],
                    }
                ],
            }
        ],
    }
    # the procedures of tests/test_range_analysis.py (tiled accesses, presumed-correct usage)
    io, ii = ["v", "i"], ["v", "j"]
    t = ["+", ["*", ["c", 4], io], ii]
    yield f2(
        [
            {
                "id": 2,
                "t": "for",
                "v": "i",
                "lo": ["c", 0],
                "hi": ["/", N, ["c", 4]],
                "body": [
                    {
                        "id": 3,
                        "t": "for",
                        "v": "j",
                        "lo": ["c", 0],
                        "hi": ["c", 4],
                        "body": [
                            {"id": 4, "t": "asg", "buf": "x", "idx": t, "reads": [["inp", t]]},
                            {
                                "id": 5,
                                "t": "asg",
                                "buf": "out",
                                "idx": t,
                                "reads": [["x", t], ["x", ["+", t, ["c", 1]]]],
                            },
                        ],
                    }
                ],
            }
        ],
        None,
    )


def ex(e):
    return ro.expr_str(e)


def render(spec):
    args = []
    for s in spec["sizes"]:
        args.append(f"{s['name']}: size")
    for q in spec["iargs"]:
        args.append(f"{q}: index")
    for b in spec["bargs"]:
        args.append(f"{b}: bool")
    for b in spec["bufs"]:
        args.append(f"{b['name']}: i8[{ex(b['dim'])}]")
    lines = [
        "from __future__ import annotations",
        "from exo import proc",
        "",
        "",
        "@proc",
        f"def p({', '.join(args)}):",
    ]
    for s in spec["sizes"]:
        if s.get("eq"):
            lines.append(f"    assert {s['name']} == {s['eq']}")
        if s.get("ge") and s["ge"] > 1:
            lines.append(f"    assert {s['name']} >= {s['ge']}")
        if s.get("le"):
            lines.append(f"    assert {s['name']} <= {s['le']}")
        if s.get("mod") and s["mod"] > 1:
            lines.append(f"    assert {s['name']} % {s['mod']} == 0")
    for a in spec["allocs"]:
        lines.append(f"    {a['name']}: i8[{ex(a['dim'])}]")

    def stmts(ss, ind):
        pad = "    " * ind
        if not ss:
            lines.append(pad + "pass")
        for s in ss:
            t = s["t"]
            if t == "for":
                lines.append(f"{pad}for {s['v']} in seq({ex(s['lo'])}, {ex(s['hi'])}):")
                stmts(s["body"], ind + 1)
            elif t == "probe":
                lines.append(f"{pad}for {s['v']} in seq({ex(s['e'])}, {ex(s['e'])} + 1):")
                lines.append(pad + "    pass")
            elif t == "cond":
                lines.append(f"{pad}if {ex(s['e'])} {s['cmp']} {s['c']}:")
                lines.append(pad + "    pass")
            elif t == "asg":
                rhs = " + ".join(f"{b}[{ex(e)}]" for b, e in s["reads"]) or "1.0"
                lines.append(f"{pad}{s['buf']}[{ex(s['idx'])}] = {rhs}")
            elif t == "ifb":
                lines.append(f"{pad}if {s['b']}:")
                stmts(s["body"], ind + 1)
                if s.get("orelse"):
                    lines.append(f"{pad}else:")
                    stmts(s["orelse"], ind + 1)
            else:
                raise ValueError(t)

    stmts(spec["body"], 1)
    return "\n".join(lines) + "\n"


_LOAD_N = [0]


def load_proc(src, scratch):
    _LOAD_N[0] += 1
    name = f"c13gen_{_LOAD_N[0]}"
    path = Path(scratch) / f"{name}.py"
    path.write_text(src)
    sp = importlib.util.spec_from_file_location(name, str(path))
    mod = importlib.util.module_from_spec(sp)
    try:
        sp.loader.exec_module(mod)
    finally:
        sys.modules.pop(name, None)
    return mod.p


def map_cursors(spec, p):
    """spec statement id -> API cursor (the spec mirrors the procedure body)."""
    out = {}
    anc = {}
    top = list(p.body())
    k = len(spec["allocs"])
    for a, c in zip(spec["allocs"], top[:k]):
        out[a["id"]] = c

    def walk(ss, cs, parents):
        for s, c in zip(ss, cs):
            out[s["id"]] = c
            anc[s["id"]] = list(parents)
            if s["t"] == "for":
                walk(s["body"], list(c.body()), parents + [s["id"]])
            elif s["t"] == "ifb":
                walk(s["body"], list(c.body()), parents)
                if s.get("orelse"):
                    walk(s["orelse"], list(c.orelse()), parents)

    walk(spec["body"], top[k:], [])
    return out, anc


def all_stmts(spec):
    def rec(ss):
        for s in ss:
            yield s
            if s["t"] == "for":
                yield from rec(s["body"])
            elif s["t"] == "ifb":
                yield from rec(s["body"])
                yield from rec(s.get("orelse") or [])

    yield from rec(spec["body"])


def read_cursors(ec):
    from exo.API_cursors import BinaryOpCursor, ReadCursor, UnaryMinusCursor

    if isinstance(ec, ReadCursor):
        return [ec] if len(list(ec.idx())) > 0 else []
    if isinstance(ec, BinaryOpCursor):
        return read_cursors(ec.lhs()) + read_cursors(ec.rhs())
    if isinstance(ec, UnaryMinusCursor):
        return read_cursors(ec.arg())
    return []


def target_cursor(stmt, c, tkind, nread=0):
    if tkind == "probe_lo":
        return c.lo()
    if tkind == "probe_hi":
        return c.hi()
    if tkind == "cond_lhs":
        return c.cond().lhs()
    if tkind == "asg_idx":
        return c.idx()[0]
    if tkind == "read_idx":
        return read_cursors(c.rhs())[nread].idx()[0]
    raise ValueError(tkind)


def targets_of(spec):
    for s in all_stmts(spec):
        if s["t"] == "probe":
            yield s, "probe_lo", 0
        elif s["t"] == "cond":
            yield s, "cond_lhs", 0
        elif s["t"] == "asg":
            yield s, "asg_idx", 0
            for j in range(len(s["reads"])):
                yield s, "read_idx", j


# --------------------------------------------------------------------------
# user-level case runner
# --------------------------------------------------------------------------
def run_user_case(case, scratch):
    """{"kind":"user","fn":..,"spec":..,...}: build the procedure, find the cursors,
    call the real stdlib function with the monitors installed."""
    ro.install()
    import exo.stdlib.range_analysis as sra

    ro.MON.drain()
    prev = (ro.MON.light, ro.MON.origin)
    ro.MON.light = False
    ro.MON.origin = None
    try:
        p = load_proc(render(case["spec"]), scratch)
        cur, anc = map_cursors(case["spec"], p)
        if case["fn"] == "infer_range":
            st = next(s for s in all_stmts(case["spec"]) if s["id"] == case["target"])
            if case["scope"] not in anc[case["target"]]:
                return []
            tc = target_cursor(st, cur[case["target"]], case["tkind"], case.get("nread", 0))
            sra.infer_range(tc, cur[case["scope"]])
        else:
            sra.bounds_inference(
                cur[case["scope"]], case["buf"], case.get("dimn", 0), include=list(case["include"])
            )
    finally:
        ro.MON.light, ro.MON.origin = prev
    return ro.MON.drain()


def run_program_case(case, scratch):
    """{"kind":"program","spec":..,"actions":[["compile"],["simplify"],["fold",size]]}:
    the in-situ observation of one procedure, replayed."""
    ro.install()
    from exo.stdlib.scheduling import resize_dim, simplify

    ro.MON.drain()
    prev = (ro.MON.light, ro.MON.origin)
    ro.MON.light = False
    out = []
    try:
        ro.MON.enabled = False
        try:
            p = load_proc(render(case["spec"]), scratch)
        finally:
            ro.MON.enabled = True
        cur, _ = map_cursors(case["spec"], p)
        for act in case.get("actions") or [["compile"], ["simplify"]]:
            ro.MON.origin = {"action": act[0]}
            try:
                if act[0] == "compile":
                    p.c_code_str()
                elif act[0] == "simplify":
                    simplify(p)
                elif act[0] == "fold":
                    alloc = cur[case["spec"]["allocs"][0]["id"]]
                    resize_dim(p, alloc, 0, int(act[1]), 0, fold=True)
            except Exception:  # noqa: a rejection by exo is conservative
                ro.MON.stats["replay_action_rejected"] += 1
            out += ro.MON.drain()
    finally:
        ro.MON.light, ro.MON.origin = prev
    return out


def user_candidates(case):
    """spec-level shrinking: delete statements, replace a loop by its body, then
    the generic expression/integer shrinks."""
    spec = case["spec"]

    def paths(ss, p):
        for i, s in enumerate(ss):
            yield p + (i,), s
            if s["t"] == "for":
                yield from paths(s["body"], p + (i, "body"))
            elif s["t"] == "ifb":
                yield from paths(s["body"], p + (i, "body"))
                yield from paths(s.get("orelse") or [], p + (i, "orelse"))

    def get(o, p):
        for k in p:
            o = o[k]
        return o

    for p, s in list(paths(spec["body"], ("body",))):
        if s["id"] in (case.get("target"), case.get("scope")):
            continue
        sp = copy.deepcopy(spec)
        lst = get(sp, p[:-1])
        del lst[p[-1]]
        yield dict(case, spec=sp)
    for p, s in list(paths(spec["body"], ("body",))):
        if s["t"] in ("for", "ifb") and s["id"] != case.get("scope"):
            sp = copy.deepcopy(spec)
            lst = get(sp, p[:-1])
            lst[p[-1] : p[-1] + 1] = copy.deepcopy(s["body"])
            yield dict(case, spec=sp)
            if s["t"] == "ifb" and s.get("orelse"):
                sp = copy.deepcopy(spec)
                lst = get(sp, p[:-1])
                lst[p[-1] : p[-1] + 1] = copy.deepcopy(s["orelse"])
                yield dict(case, spec=sp)
    for i, s in enumerate(spec["sizes"]):
        for key in ("ge", "le", "mod", "eq"):
            if s.get(key) is not None:
                sp = copy.deepcopy(spec)
                sp["sizes"][i][key] = None
                yield dict(case, spec=sp)
    yield from ro.candidates(case)


def shrink_user(case, sig, scratch, budget=90):
    def fails(c):
        return any(ro.sig_of(f) == sig for f in run_user_case(c, scratch))

    improved = True
    while improved and budget > 0:
        improved = False
        for cand in user_candidates(case):
            budget -= 1
            if budget <= 0:
                break
            try:
                ok = fails(cand)
            except Exception:  # noqa
                ok = False
            if ok:
                case = cand
                improved = True
                break
    return case


# --------------------------------------------------------------------------
# emission of findings
# --------------------------------------------------------------------------
class Emitter:
    def __init__(self, ctx):
        self.ctx = ctx
        self.seen = set()
        self.samples = 0

    def emit(self, f, user_case=None):
        ctx = self.ctx
        sig = ro.sig_of(f)
        key = common.jhash(sig)
        ctx.stat("monitor_fired")
        ctx.stat("fired:" + f["monitor"])
        if key in self.seen:
            ctx.stat("violations_same_sig_not_repeated")
            return
        self.seen.add(key)
        case = user_case if user_case is not None else f.get("case")
        if case is None:
            ctx.stat("finding_without_case")
            return
        origin = f.get("origin")
        saved = (ro.MON.origin, ro.MON.light)
        ro.MON.origin = None
        text = f["witness"]["text"]
        try:
            if case["kind"] == "user":
                small = shrink_user(case, sig, ctx.scratch)
                fs = [g for g in run_user_case(small, ctx.scratch) if ro.sig_of(g) == sig]
                if fs:
                    case, text = small, fs[0]["witness"]["text"]
                case = dict(case, src=render(case["spec"]))
            elif case["kind"] in ("op", "expr", "decision", "loop_iter", "partial_eval"):

                def fails(c):
                    return ro.in_domain(c) and any(ro.sig_of(g) == sig for g in ro.run_case(c))

                if not ro.in_domain(case):
                    ctx.stat("finding_case_outside_shrink_domain")  # e.g. an empty operand range
                elif fails(case):
                    small = ro.shrink(case, fails)
                    fs = [g for g in ro.run_case(small) if ro.sig_of(g) == sig]
                    if fs:
                        case, text = small, fs[0]["witness"]["text"]
                else:
                    ctx.stat("finding_not_reproduced_standalone")
        except Exception:  # noqa
            ctx.stat("shrink_error")
        finally:
            ro.MON.origin, ro.MON.light = saved
            ro.MON.drain()
        case = dict(case, witness=text)
        if origin:
            case["origin"] = {
                "action": origin.get("action"),
                "src": (origin.get("src") or "")[:4000],
            }
        ctx.violation(sig, case)


# --------------------------------------------------------------------------
# the shard
# --------------------------------------------------------------------------
def _nontrivial_op(case):
    a = case["a"]
    if a[1] is not None and a[2] is not None and a[1] > a[2]:
        return False
    b = case.get("b")
    if b is not None and not ro.is_expr(b) and case["op"] != "__or__":
        if b[1] is not None and b[2] is not None and b[1] > b[2]:
            return False
    return True


def phase_ops(ctx, em, deadline):
    rng = ctx.rng
    n = 0
    ro.MON.strict = True
    # exhaustive box: this shard's slice
    for i, case in enumerate(exhaustive_op_cases()):
        if i % ctx.nshards != ctx.shard:
            continue
        fs = ro.run_case(case)
        n += 1
        ctx.stat("obs1_exhaustive_box_cases")
        for f in fs:
            em.emit(f)
    ctx.stat("obs1_exhaustive_box_complete", 1)
    want = int(ctx.params.get("ops_random", 1000))
    k = 0
    floor = min(want, int(ctx.params.get("min_ops_random", 300)))  # done regardless of the clock
    while k < want and (k < floor or time.time() < deadline):
        case = rand_op_case(rng)
        fs = ro.run_case(case)
        k += 1
        n += 1
        ctx.stat("obs1_random_cases")
        if k <= 1500:
            ctx.distinct("O:" + common.jhash(case), _nontrivial_op(case))
        if k == 3:
            ctx.sample({"obs": 1, "case": case, "findings": [f["witness"]["text"] for f in fs]})
        for f in fs:
            em.emit(f)
    if k < want:
        ctx.stat("obs1_stopped_by_soft_cap")
    ro.MON.strict = False
    ctx.stat("evaluations", n)
    ctx.stat("obs1_evaluations", n)


def _run_pair(ctx, em, expr, env, rng):
    """one (expression, environment) pair through every entry point."""
    n = 0
    base = {"expr": expr, "env": env}
    cases = [dict(kind="expr", fn="constant_bound", **base)]
    mm = concrete_minmax(expr, env, rng)
    lo_t = [0]
    hi_t = [rng.randint(1, 9)]
    if mm:
        lo_t += [mm[0], mm[0] + 1]
        hi_t += [mm[1], mm[1] + 1]
    lo_c = rng.choice(lo_t)
    hi_c = rng.choice(hi_t)
    cases.append(dict(kind="decision", fn="check_expr_bound", args=[["int", lo_c], "<=", expr], env=env))
    cases.append(
        dict(kind="decision", fn="check_expr_bound", args=[expr, rng.choice(["<", "<="]), ["int", hi_c]], env=env)
    )
    cases.append(
        dict(
            kind="decision",
            fn="check_expr_bounds",
            args=[["int", lo_c], "<=", expr, "<", ["int", hi_c]],
            env=env,
        )
    )
    if mm and mm[0] == mm[1]:
        cases.append(dict(kind="decision", fn="check_expr_bound", args=[expr, "==", ["int", mm[0]]], env=env))
    if rng.random() < 0.5:
        cases.append(dict(kind="loop_iter", lo=expr, hi=["+", expr, ["c", rng.randint(1, 4)]], env=env))
    else:
        cases.append(dict(kind="loop_iter", lo=["c", rng.randint(-2, 2)], hi=expr, env=env))
    for c in cases:
        fs = ro.run_case(c)
        n += 1
        for f in fs:
            em.emit(f)
    return n, cases[0]


def phase_pairs(ctx, em, deadline):
    rng = ctx.rng
    want = int(ctx.params.get("pairs", 200))
    k = 0
    n = 0
    floor = min(want, int(ctx.params.get("min_pairs", 60)))
    while k < want and (k < floor or time.time() < deadline):
        nv = rng.randint(1, 3)
        names = ["x", "y", "z"][:nv]
        expr = gen_expr(rng, names, rng.randint(1, 4))
        if expr[0] in ("c",):
            continue
        env = gen_env(rng, ro.expr_vars(expr))
        before = ro.MON.stats["valuations"]
        m, c0 = _run_pair(ctx, em, expr, env, rng)
        k += 1
        n += m
        judged = ro.MON.stats["valuations"] - before
        ctx.distinct("P:" + common.jhash(c0), judged > 0)
        ctx.distinct("S:" + common.shash(ro.expr_shape(expr)), False)
        ctx.stat("obs2_synthetic_pairs")
        if k == 2:
            ctx.sample({"obs": 2, "expr": ro.expr_str(expr), "env": env, "calls": m})
    if k < want:
        ctx.stat("obs2_stopped_by_soft_cap")
    ctx.stat("evaluations", n)
    ctx.stat("obs2_evaluations", n)


def phase_exhaustive_exprs(ctx, em, deadline):
    """thorough tier: every depth<=2 expression over x, y under every pair of box
    ranges (half-open and unknown included); this shard's slice of expressions."""
    x = ro.X()
    ra = x.ra
    ro.MON.ops_enabled = False
    done = 0
    total = 0
    n = 0
    try:
        for i, expr in enumerate(exhaustive_exprs()):
            total += 1
            if i % ctx.nshards != ctx.shard:
                continue
            if time.time() > deadline:
                ctx.stat("obs2_exhaustive_stopped_by_soft_cap")
                ctx.inconclusive("exhaustive_expression_subspace_incomplete")
                break
            names = ro.expr_vars(expr)
            symtab = {}
            node = ro.to_loopir(expr, symtab)
            for envd in box_envs(names):
                env = {symtab[nm]: tuple(r) for nm, r in envd.items()}
                try:
                    ra.constant_bound(node, env)
                except (AssertionError, TypeError, ValueError, ZeroDivisionError, AttributeError):
                    ctx.stat("analysis_exception")
                n += 1
                if ro.MON.findings:
                    for f in ro.MON.drain():
                        em.emit(f)
            done += 1
            ctx.distinct("S:" + common.shash(ro.expr_shape(expr)), False)
            ctx.distinct("X:" + common.jhash(expr), True)
    finally:
        ro.MON.ops_enabled = True
    ctx.stat("obs2_exhaustive_exprs", done)
    ctx.stat("obs2_exhaustive_pairs", n)
    ctx.stat("evaluations", n)
    ctx.stat("obs2_evaluations", n)


def _delta(before):
    d = {}
    for k, v in ro.MON.counts.items():
        if v - before.get(k, 0):
            d[k] = v - before.get(k, 0)
    return d


def _walk_env(ctx, em, spec, p, rng):
    """(2b) the environment of the real loops: IndexRangeEnvironment is driven the
    way the compiler drives it and queried at every generated expression."""
    x = ro.X()
    ra = x.ra
    IRE = ra.IndexRangeEnvironment
    L = x.LoopIR
    ir = p._loopir_proc
    env = IRE(ir, fast=False)
    n = 0

    def q(e):
        nonlocal n
        if not isinstance(e, L.expr) or not e.type.is_indexable():
            return
        ra.constant_bound(e, env.env)
        env.check_expr_bound(0, IRE.leq, e)
        c = rng.randint(1, 9)
        env.check_expr_bound(e, IRE.lt, c)
        env.check_expr_bounds(0, IRE.leq, e, IRE.lt, c)
        n += 4

    def stmts(ss):
        for s in ss:
            if isinstance(s, L.For):
                q(s.lo)
                q(s.hi)
                env.enter_scope()
                env.add_loop_iter(s.iter, s.lo, s.hi)
                stmts(s.body)
                env.exit_scope()
            elif isinstance(s, L.If):
                if isinstance(s.cond, L.BinOp):
                    q(s.cond.lhs)
                env.enter_scope()
                stmts(s.body)
                env.exit_scope()
                env.enter_scope()
                stmts(s.orelse)
                env.exit_scope()
            elif isinstance(s, (L.Assign, L.Reduce)):
                for e in s.idx:
                    q(e)

    stmts(ir.body)
    return n


def _process_program(ctx, em, spec, rng, deadline, sample=False, fold_sizes=None):
    """one procedure through observation points (2b), (3) and (4)."""
    import exo.stdlib.range_analysis as sra
    from exo.stdlib.scheduling import resize_dim, simplify

    src = render(spec)
    ro.MON.enabled = False
    try:
        p = load_proc(src, ctx.scratch)
    except Exception as e:  # noqa: exo rejected the program (bounds check, typing)
        ctx.stat("gen_rejected_by_exo")
        ctx.stat("gen_rejected:" + type(e).__name__)
        return False
    finally:
        ro.MON.enabled = True
    fam = spec["family"]
    ctx.stat("programs_built")
    ctx.stat("programs_" + fam)
    ctx.distinct("G:" + common.jhash(spec), True)
    if sample:
        ctx.sample({"obs": "2b/3/4", "program": src})
    ro.MON.light = True
    cur, anc = map_cursors(spec, p)

    # ---- (2b) environments from real loop bounds
    ro.MON.origin = {"action": "direct:IndexRangeEnvironment", "src": src}
    try:
        m = _walk_env(ctx, em, spec, p, rng)
        ctx.stat("obs2_proc_queries", m)
        ctx.stat("obs2_evaluations", m)
        ctx.stat("evaluations", m)
    except Exception as e:  # noqa
        ctx.stat("obs2_proc_exception:" + type(e).__name__)
    for f in ro.MON.drain():
        em.emit(f)

    # ---- (3) user level
    ro.MON.origin = {"action": "user:stdlib.range_analysis", "src": src}
    for st, tkind, j in targets_of(spec):
        if time.time() > deadline + 20:
            break
        scopes = anc.get(st["id"]) or []
        if not scopes or st["id"] not in cur:
            continue
        try:
            tc = target_cursor(st, cur[st["id"]], tkind, j)
        except Exception:  # noqa
            ctx.stat("obs3_target_lookup_failed")
            continue
        for sc in scopes:
            try:
                sra.infer_range(tc, cur[sc])
                ctx.stat("obs3_infer_range_calls")
                ctx.stat("evaluations")
            except Exception as e:  # noqa
                ctx.stat("obs3_infer_range_exception:" + type(e).__name__)
            for f in ro.MON.drain():
                if f["monitor"] == "stdlib.infer_range":
                    uc = {
                        "kind": "user",
                        "fn": "infer_range",
                        "spec": spec,
                        "target": st["id"],
                        "tkind": tkind,
                        "nread": j,
                        "scope": sc,
                    }
                    em.emit(f, uc)
                else:
                    em.emit(f)
    if spec["family"] == "F2":
        for st in all_stmts(spec):
            if st["t"] != "for" or st["id"] not in cur:
                continue
            for inc in (["R"], ["W"], ["R", "W"]):
                try:
                    sra.bounds_inference(cur[st["id"]], "x", 0, include=inc)
                    ctx.stat("obs3_bounds_inference_calls")
                    ctx.stat("evaluations")
                except Exception as e:  # noqa
                    ctx.stat("obs3_bounds_inference_exception:" + type(e).__name__)
                for f in ro.MON.drain():
                    if f["monitor"] == "stdlib.bounds_inference":
                        uc = {
                            "kind": "user",
                            "fn": "bounds_inference",
                            "spec": spec,
                            "scope": st["id"],
                            "buf": "x",
                            "dimn": 0,
                            "include": inc,
                        }
                        em.emit(f, uc)
                    elif f["monitor"] == "stdlib.infer_range":
                        ctx.stat("obs3_nested_infer_range_finding")
                    else:
                        em.emit(f)

    # ---- (4) in situ
    def insitu(action, fn):
        ro.MON.origin = {"action": action, "src": src}
        b4 = dict(ro.MON.counts)
        out = None
        try:
            out = fn()
            ctx.stat(f"obs4_{action}_ok")
        except Exception as e:  # noqa
            ctx.stat(f"obs4_{action}_rejected:{type(e).__name__}")
        for name, v in _delta(b4).items():
            ctx.stat(f"obs4:{action}:{name}", v)
            if not name.startswith("IndexRange.__"):
                ctx.stat("obs4_evaluations", v)
                ctx.stat("evaluations", v)
        for f in ro.MON.drain():
            em.emit(f)
        return out

    insitu("compile", lambda: p.c_code_str())
    insitu("simplify", lambda: simplify(p))
    if spec["family"] == "F2":
        alloc = cur[spec["allocs"][0]["id"]]
        for size in fold_sizes or rng.sample([1, 2, 3, 4, 5, 6, 8, 12], 3):
            folded = insitu("fold", lambda: resize_dim(p, alloc, 0, size, 0, fold=True))
            if folded is not None:
                ctx.stat("obs4_fold_accepted")
                f2 = insitu("simplify_folded", lambda: simplify(folded))
                insitu("compile_folded", lambda: (f2 or folded).c_code_str())
                break
    # ---- (5) process history: procedures that share argument symbols (derived with add_assertion /
    # rename / simplify) but have different preconditions are analysed in one process, the one
    # with the *stronger* precondition first -- an answer carried over from it (anything remembered
    # per symbol instead of per procedure) is too narrow for the original.  Judged by the same
    # arg_range / constant_bound / check_expr_bound monitors as (4).
    try:
        ro.MON.enabled = False
        try:
            q = load_proc(src, ctx.scratch)  # fresh symbols, nothing analysed yet
        finally:
            ro.MON.enabled = True
        from exo.stdlib.scheduling import rename

        derived = None
        for s_ in rng.sample(spec["sizes"], len(spec["sizes"])):
            base = size_min(s_)
            for k_ in rng.sample([1, 2, 3, 5], 4):
                lo_ = base + k_ * (s_.get("mod") or 1)
                if s_.get("eq") or (s_.get("le") and lo_ > s_["le"]):
                    continue
                try:
                    derived = q.add_assertion(f"{s_['name']} >= {lo_}")
                    break
                except Exception:  # noqa
                    ctx.stat("obs5_add_assertion_rejected")
            if derived is not None:
                break
        if derived is not None:
            ctx.stat("obs5_histories")
            insitu("hist_compile_derived", lambda: derived.c_code_str())
            insitu("hist_simplify_derived", lambda: simplify(derived))
            insitu("hist_compile_original", lambda: q.c_code_str())
            insitu("hist_simplify_original", lambda: simplify(q))
            insitu("hist_compile_renamed", lambda: rename(q, "p_renamed").c_code_str())
        else:
            ctx.stat("obs5_no_strengthening")
    except Exception as e:  # noqa
        ctx.stat("obs5_exception:" + type(e).__name__)
    ro.MON.light = False
    ro.MON.origin = None
    return True


def phase_programs(ctx, em, deadline):
    rng = ctx.rng
    ro.install()
    if ctx.shard == 0:
        # fixed regression corpus (deterministic; keeps known mechanisms observed on every run)
        for spec in corpus():
            _process_program(ctx, em, spec, rng, float("inf"), fold_sizes=[1, 2, 3, 4, 5, 6, 8])
            ctx.stat("corpus_programs")
    want = int(ctx.params.get("programs", 20))
    k = 0
    built = 0
    floor = min(want, int(ctx.params.get("min_programs", 6)))
    tries = 0
    while k < want and (built < floor or time.time() < deadline) and tries < 4 * want + 20:
        tries += 1
        k += 1
        forced = built < floor
        if forced:
            spec = gen_f2(rng) if built % 2 else gen_f1(rng)  # both families, whatever the clock says
        else:
            spec = gen_f2(rng) if rng.random() < 0.45 else gen_f1(rng)
        dl = float("inf") if forced else deadline
        if _process_program(ctx, em, spec, rng, dl, sample=(built == 0)):
            built += 1
    if k < want:
        ctx.stat("programs_stopped_by_soft_cap")


def shard(ctx):
    ro.install()
    ro.MON.rng.seed((ctx.seed * 7919 + ctx.shard) & 0xFFFFFFFF)
    em = Emitter(ctx)
    t0 = ctx.t0
    soft = float(ctx.params.get("soft_s", 60))
    exh = bool(ctx.params.get("exh_exprs"))
    # the effort is split over the observation points (soft caps only stop generation)
    f_ops, f_pairs, f_exh = (0.12, 0.2, 0.3) if exh else (0.14, 0.3, 0.0)
    phase_ops(ctx, em, t0 + soft * f_ops)
    phase_pairs(ctx, em, t0 + soft * (f_ops + f_pairs))
    if exh:
        phase_exhaustive_exprs(ctx, em, t0 + soft * (f_ops + f_pairs + f_exh))
    phase_programs(ctx, em, t0 + soft)
    for name, v in ro.MON.counts.items():
        ctx.stat("mon:" + name, v)
    for name, v in ro.MON.stats.items():
        ctx.stat("oracle:" + name, v)
    for e in ro.MON.errors[:2]:
        ctx.sample({"monitor_error": e}, limit=6)


# --------------------------------------------------------------------------
# finish
# --------------------------------------------------------------------------
MINIMA = {
    # observation point -> (stat key, minimum per run); all hold with a wide margin on the unchanged tree
    "obs1 operator postconditions": ("obs1_evaluations", 5000),
    "obs2 (expression, environment) pairs": ("obs2_evaluations", 2000),
    "obs3 infer_range": ("mon:stdlib.infer_range", 200),
    "obs3 bounds_inference": ("mon:stdlib.bounds_inference", 60),
    "obs4 compile: check_expr_bound decisions": (
        "obs4:compile:IndexRangeEnvironment.check_expr_bound",
        300,
    ),
    "obs4 compile: add_loop_iter": ("obs4:compile:IndexRangeEnvironment.add_loop_iter", 60),
    "obs4 simplify: check_expr_bound(s) decisions": ("__simplify_decisions__", 40),
    "obs4 fold: index_range_analysis": ("obs4:fold:index_range_analysis", 100),
    "obs4 fold: IndexRange.__or__": ("obs4:fold:IndexRange.__or__", 40),
    "obs4 fold: partial_eval_with_range": ("obs4:fold:IndexRange.partial_eval_with_range", 20),
}


def finish(agg, tier):
    st = agg.stats
    st["__simplify_decisions__"] = (
        st.get("obs4:simplify:IndexRangeEnvironment.check_expr_bound", 0)
        + st.get("obs4:simplify:IndexRangeEnvironment.check_expr_bounds", 0)
        + st.get("obs4:simplify_folded:IndexRangeEnvironment.check_expr_bound", 0)
        + st.get("obs4:simplify_folded:IndexRangeEnvironment.check_expr_bounds", 0)
    )
    inconc = []
    per_obs = {}
    for what, (key, minimum) in MINIMA.items():
        v = int(st.get(key, 0))
        per_obs[what] = v
        if v == 0:
            inconc.append(f"{what}: zero evaluations")
        elif v < minimum:
            inconc.append(f"{what}: only {v} evaluations (< {minimum})")
    del st["__simplify_decisions__"]
    operators = {
        k[len("mon:IndexRange.") :]: v for k, v in st.items() if k.startswith("mon:IndexRange.")
    }
    for op in (
        "__add__",
        "__radd__",
        "__neg__",
        "__sub__",
        "__rsub__",
        "__mul__",
        "__rmul__",
        "__floordiv__",
        "__mod__",
        "__or__",
    ):
        if not operators.get(op):
            inconc.append(f"obs1 operator {op}: zero postcondition evaluations")
    if st.get("oracle:monitor_error", 0) > 0:
        inconc.append(f"{st['oracle:monitor_error']} monitor-internal errors (validation skipped)")
    shapes = sum(1 for h in agg.distinct if str(h).startswith("S:"))
    box_done = int(st.get("obs1_exhaustive_box_complete", 0))
    cov = {
        "per_observation_point": per_obs,
        "operator_postcondition_evaluations": operators,
        "operator_member_checks": int(st.get("oracle:op_member_checks", 0)),
        "expr_env_pairs": int(
            st.get("obs2_synthetic_pairs", 0)
            + st.get("obs2_exhaustive_pairs", 0)
            + st.get("obs2_proc_queries", 0) // 4
        ),
        "valuations_enumerated": int(st.get("oracle:valuations", 0)),
        "conservative_answers": {
            "fully_unbounded": int(st.get("oracle:conservative_none", 0)),
            "half_unbounded": int(st.get("oracle:conservative_half_none", 0)),
            "decision_false": int(st.get("oracle:decision_false_conservative", 0)),
            "decision_true_judged": int(st.get("oracle:decision_true", 0)),
            "operator_result_unbounded": int(st.get("oracle:op_conservative_unbounded", 0)),
        },
        "distinct_expression_shapes": shapes,
        "programs_built": int(st.get("programs_built", 0)),
        "monitor_fired": int(st.get("monitor_fired", 0)),
        "exhaustive_subspace": {
            "operators": {
                "what": "all pairs of ranges with lo,hi in {None,-2..2} x 5 base combinations for + - |; "
                "neg; scalars -3..3 for + - *; divisors/moduli 1..4; zero and symbolic base",
                "cases": int(st.get("obs1_exhaustive_box_cases", 0)),
                "complete": box_done == 16,
            },
            "expressions": {
                "what": "all expressions of depth<=2 over x,y (literals -1,2; / and % by 2,3) under all pairs "
                "of ranges with ends in {None,-2..2} (thorough tier only)",
                "exprs": int(st.get("obs2_exhaustive_exprs", 0)),
                "pairs": int(st.get("obs2_exhaustive_pairs", 0)),
                "complete": tier == "thorough"
                and st.get("obs2_exhaustive_exprs", 0) > 0
                and not st.get("obs2_exhaustive_stopped_by_soft_cap", 0),
            },
        },
    }
    if box_done != 16:
        inconc.append("exhaustive operator box not completed by every shard")
    return {
        "evaluations": int(st.get("evaluations", 0)),
        "coverage": cov,
        "inconclusive": inconc,
    }


# --------------------------------------------------------------------------
# replay
# --------------------------------------------------------------------------
def replay(case):
    ro.install()
    kind = case.get("kind")
    scratch = Path(tempfile.mkdtemp(prefix="vf_C13_replay_"))
    try:
        if kind == "user":
            fs = run_user_case(case, scratch)
            fs = [f for f in fs if f["monitor"] == "stdlib." + case["fn"]] or fs
        elif kind == "program":
            fs = run_program_case(case, scratch)
        elif kind == "arg_range":
            fs = []
            if case.get("src"):
                p = load_proc(case["src"], scratch)
                ir = p._loopir_proc
                ra = ro.X().ra
                for a in ir.args:
                    if str(a.name) == case["arg"]:
                        ro.MON.drain()
                        ra.arg_range_analysis(ir, a, fast=bool(case.get("fast")))
                        fs = ro.MON.drain()
        else:
            fs = ro.run_case(case)
            want = {
                "op": "IndexRange." + str(case.get("op")),
                "partial_eval": "IndexRange.partial_eval_with_range",
                "expr": case.get("fn"),
                "decision": "IndexRangeEnvironment." + str(case.get("fn")),
                "loop_iter": "IndexRangeEnvironment.add_loop_iter",
            }.get(kind)
            top = [f for f in fs if f["monitor"] == want]
            fs = top or fs
    finally:
        import shutil

        shutil.rmtree(scratch, ignore_errors=True)
    if not fs:
        return {"reproduced": False, "sig": None, "detail": "monitor did not fire"}
    f = fs[0]
    return {"reproduced": True, "sig": ro.sig_of(f), "detail": f["witness"]["text"]}
