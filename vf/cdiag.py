"""Mechanism-level diagnosis of a C-harness finding from the emitted C text and the IR."""

import re

from exo.core.LoopIR import LoopIR

from . import irutil


def diagnose_c(ir, res):
    d = {}
    c = res.c_text or ""
    # C remainder/division emitted on an operand that is not provably non-negative
    d["c_mod"] = bool(re.search(r"[^/]%[^\n]*", c.split("int main")[0])) and "exo_floor" not in c
    feats = set()
    for _, s in irutil.all_stmts(ir):
        if isinstance(s, LoopIR.WindowStmt):
            feats.add("winstmt")
        for _, _, e in irutil.stmt_exprs(s):
            for _, sub in irutil.sub_exprs(e):
                if isinstance(sub, LoopIR.BinOp) and sub.op in ("%", "/") and sub.type.is_indexable():
                    feats.add("idx_divmod")
                if isinstance(sub, LoopIR.USub):
                    feats.add("usub")
    d["features"] = sorted(feats)
    return d
