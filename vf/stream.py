"""The scheduling stream: generated programs x random scripts, every accepted
(and rejected) operation observed by the monitors of the enabled properties.

One engine serves C01, C04, C06, C07, C10, C12, C17, C19 (each driver enables
its own monitors and biases the generator); a *case* is replayable:
  {"text": module source, "root": name, "steps": [...], "upto": k,
   "monitor": name, "input": InputSpec json | None, ...}
"""

import time
import traceback

from exo.core.LoopIR import LoopIR, T

from . import irutil, equiv
from .common import shash, jhash
from .gen_prog import gen_program, load_program, Knobs
from .gen_sched import (
    Session,
    apply_step,
    random_step,
    is_unsafe_step,
    SIG_CHANGING,
    all_op_names,
)
from .gen_input import InputSpec


# ----------------------------------------------------------------------------
def ir_features(ir):
    """coarse, mechanism-level features of a procedure (for signatures)"""
    f = set()
    winnames = {}
    for path, s in irutil.all_stmts(ir):
        if isinstance(s, LoopIR.WindowStmt):
            f.add("winstmt")
            winnames[s.name] = s.rhs.name
        elif isinstance(s, LoopIR.Call):
            f.add("call")
        elif isinstance(s, LoopIR.WriteConfig):
            f.add("cfgwrite")
        elif isinstance(s, LoopIR.For) and isinstance(s.loop_mode, LoopIR.Par):
            f.add("par")
        for _, _, e in irutil.stmt_exprs(s):
            for _, sub in irutil.sub_exprs(e):
                if isinstance(sub, LoopIR.ReadConfig):
                    f.add("cfgread")
    return sorted(f)


def sstr(p, n=4000):
    try:
        return str(p)[:n]
    except Exception as e:  # the printer itself failed (yapf) -- C17's business
        return f"<unprintable: {type(e).__name__}>"


def step_brief(step):
    return {"op": step["op"], "kw": step.get("kw") or {}}


def mk_case(sess, upto_steps, monitor, spec=None, extra=None):
    c = {
        "text": sess.text,
        "root": sess.root_name,
        "steps": list(upto_steps),
        "monitor": monitor,
        "input": spec.to_json() if isinstance(spec, InputSpec) else spec,
    }
    if extra:
        c.update(extra)
    return c


def rebuild(case, scratch):
    """re-create the session of a case up to (not including) its last step;
    returns (session, last_step)"""
    mod = load_program(case["text"], scratch, tag="replay")
    sess = Session(mod, case["root"], case["text"])
    steps = case["steps"]
    for st in steps[:-1]:
        r = apply_step(sess, st)
        if r.status != "accepted":
            raise RuntimeError(f"replay diverged at {st['op']}: {r.exc!r}")
    return sess, (steps[-1] if steps else None)


# ----------------------------------------------------------------------------
class Monitor:
    """base class; a monitor sees every step of the stream"""

    name = "monitor"
    prop = None

    def __init__(self, ctx):
        self.ctx = ctx

    def on_program(self, sess):
        pass

    def before_step(self, sess, step):
        pass

    def after_step(self, sess, step, old, result):
        """result.status in accepted/rejected; old = procedure the op was applied to"""
        pass

    def on_end(self, sess):
        pass


class EquivMonitor(Monitor):
    """C01: accepted, not-unsafe rewrite must preserve final state on valid inputs"""

    name = "equiv"
    prop = "C01"

    def __init__(self, ctx, ninputs=6, end_to_end=True, kinds=("diff",)):
        super().__init__(ctx)
        self.ninputs = ninputs
        self.end_to_end = end_to_end
        self.kinds = kinds
        self.root_idx = 0
        self.chain_ok = True

    def on_program(self, sess):
        self.root_idx = 0
        self.chain_ok = True

    def after_step(self, sess, step, old, result):
        ctx = self.ctx
        if result.status != "accepted":
            return
        op = step["op"]
        if is_unsafe_step(step) or op in SIG_CHANGING:
            # restart the chain with a new root
            self.root_idx = len(sess.procs) - 1
            self.chain_ok = True
            ctx.stat("equiv.exempt")
            return
        old_ir = old._loopir_proc
        new_ir = result.proc._loopir_proc
        if old_ir is new_ir:
            ctx.stat("equiv.identity")
            return
        connected, mf = equiv.reported_mod_fields(old_ir, new_ir)
        j = equiv.judge(old_ir, new_ir, ctx.rng, self.ninputs, mf)
        ctx.stat("evaluations")
        ctx.stat(f"op.judged.{op}")
        ctx.stat("inputs.judged", j["judged"])
        ctx.stat("inputs.skipped", j["skipped"])
        if j["verdict"] == "vacuous":
            ctx.stat("equiv.vacuous")
            for k, v in (j.get("reasons") or {}).items():
                ctx.stat("vacuous." + k, v)
            return
        h = jhash([irutil.fingerprint(old_ir, alpha=True), step_brief(step), irutil.fingerprint(new_ir, alpha=True)])
        ctx.distinct(h, nontrivial=True)
        if ctx._nsamples < 2:
            ctx.sample(
                {
                    "op": op,
                    "kw": step.get("kw"),
                    "before": sstr(old, 1500),
                    "after": sstr(result.proc, 1500),
                    "inputs_judged": j["judged"],
                    "verdict": j["verdict"],
                },
                limit=2,
            )
        if j["verdict"] in self.kinds:
            self.chain_ok = False
            sig = {
                "prop": "C01",
                "monitor": "equiv",
                "kind": j["verdict"],
                "op": op,
                "features": ir_features(old_ir),
            }
            diag = diagnose(op, old_ir, new_ir, step, sess)
            if diag:
                sig["diag"] = diag
            case = mk_case(
                sess,
                sess.steps,
                "equiv",
                j["spec"],
                {"witness": j["witness"], "before": sstr(old), "after": sstr(result.proc)},
            )
            ctx.violation(sig, case)
            ctx.stat(f"viol.equiv.{op}")
            return
        # end-to-end against the root of the chain (composition)
        if self.end_to_end and self.chain_ok and len(sess.procs) - 1 - self.root_idx >= 2:
            root_ir = sess.procs[self.root_idx]._loopir_proc
            _, mf2 = equiv.reported_mod_fields(root_ir, new_ir)
            j2 = equiv.judge(root_ir, new_ir, ctx.rng, max(2, self.ninputs // 2), mf2)
            ctx.stat("equiv.e2e")
            if j2["verdict"] in self.kinds:
                self.chain_ok = False
                self.attribute_chain(sess, j2)


    def attribute_chain(self, sess, j2):
        """an end-to-end difference is blamed on the first step of the chain whose
        input and output procedure differ on the witness input"""
        ctx = self.ctx
        spec = j2["spec"]
        procs = sess.procs
        for i in range(self.root_idx, len(procs) - 1):
            a, b = procs[i]._loopir_proc, procs[i + 1]._loopir_proc
            if a is b:
                continue
            _, mf = equiv.reported_mod_fields(a, b)
            c = equiv.compare_on(a, b, spec, mf)
            if c.status in ("same",):
                continue
            step = sess.steps[i]
            op = step["op"]
            if c.status == "diff":
                kind = "diff"
            elif c.status == "skip_old":
                # the chain's own intermediate is not event-free on an input that is
                # valid for the root: the step that produced it broke safety (C04)
                kind = "chain_intermediate_unsafe"
                step = sess.steps[i - 1] if i > self.root_idx else step
                op = step["op"]
            else:
                kind = c.status
            sig = {
                "prop": "C01",
                "monitor": "equiv",
                "kind": kind if kind in ("diff",) else f"e2e:{kind}",
                "op": op,
                "features": ir_features(a),
                "via": "e2e",
            }
            diag = diagnose(op, a, b, step, sess)
            if diag:
                sig["diag"] = diag
            upto = i + 1 if kind == "diff" or c.status != "skip_old" else i
            case = mk_case(
                sess,
                sess.steps[:upto],
                "equiv",
                spec,
                {"witness": c.detail if not hasattr(c.detail, "as_dict") else c.detail.as_dict(), "before": sstr(procs[upto - 1]), "after": sstr(procs[upto])},
            )
            if kind == "diff":
                ctx.violation(sig, case)
                ctx.stat(f"viol.equiv.{op}")
            else:
                ctx.stat(f"e2e.unattributed.{kind}")
            return
        ctx.stat("e2e.unattributed.none")


class SafetyMonitor(Monitor):
    """C04: accepted rewrite keeps the IR well-scoped, safe, initialised, compilable"""

    name = "safety"
    prop = "C04"

    def __init__(self, ctx, ninputs=6, compile_every=4):
        super().__init__(ctx)
        self.ninputs = ninputs
        self.compile_every = compile_every
        self.n = 0

    def after_step(self, sess, step, old, result):
        ctx = self.ctx
        if result.status != "accepted":
            return
        op = step["op"]
        old_ir = old._loopir_proc
        new_ir = result.proc._loopir_proc
        if old_ir is new_ir:
            return
        self.n += 1
        ctx.stat("evaluations")
        ctx.stat(f"op.judged.{op}")
        h = jhash([irutil.fingerprint(old_ir, alpha=True), step_brief(step)])
        # (a) scopes / binders / arity -- holds for unsafe-flagged ops too
        probs_old = irutil.validate(old_ir)
        probs = irutil.validate(new_ir)
        ctx.stat("validate.calls")
        if probs and not probs_old:
            sig = {
                "prop": "C04",
                "monitor": "validate",
                "kind": probs[0]["kind"],
                "op": op,
                "features": ir_features(old_ir),
            }
            ctx.violation(
                sig,
                mk_case(sess, sess.steps, "validate", None, {"problems": probs, "after": sstr(result.proc, 3000)}),
            )
            ctx.stat(f"viol.validate.{op}")
            ctx.distinct(h)
            return
        # sub-procedures created by the op must be well-formed too
        if result.extra:
            for x in result.extra:
                if hasattr(x, "_loopir_proc"):
                    p2 = irutil.validate(x._loopir_proc)
                    if p2:
                        sig = {"prop": "C04", "monitor": "validate-subproc", "kind": p2[0]["kind"], "op": op, "features": ir_features(old_ir)}
                        ctx.violation(sig, mk_case(sess, sess.steps, "validate", None, {"problems": p2}))
        if is_unsafe_step(step):
            ctx.stat("safety.exempt_unsafe")
            ctx.distinct(h)
            return
        # (b)+(c) events / poison in p' on inputs where p is clean
        if op in SIG_CHANGING:
            # different signature: judged by C19's oracle
            ctx.distinct(h)
            return
        j = equiv.judge(old_ir, new_ir, ctx.rng, self.ninputs, equiv.reported_mod_fields(old_ir, new_ir)[1])
        ctx.stat("inputs.judged", j["judged"])
        if j["verdict"] == "vacuous":
            ctx.stat("safety.vacuous")
        else:
            ctx.distinct(h)
        if j["verdict"] in ("new_event", "poison"):
            ev = (j["witness"] or {}).get("event") or {}
            kind = ev.get("kind") or (j["witness"] or {}).get("aborted") or j["verdict"]
            sig = {
                "prop": "C04",
                "monitor": "safety",
                "kind": "poison" if j["verdict"] == "poison" else f"event:{kind}",
                "op": op,
                "features": ir_features(old_ir),
            }
            diag = diagnose(op, old_ir, new_ir, step, sess)
            if diag:
                sig["diag"] = diag
            ctx.violation(
                sig,
                mk_case(sess, sess.steps, "safety", j["spec"], {"witness": j["witness"], "before": sstr(old), "after": sstr(result.proc)}),
            )
            ctx.stat(f"viol.safety.{op}")
            return
        # (d) compiles, or is rejected only by documented backend checks
        if self.compile_every and self.n % self.compile_every == 0:
            self.try_compile(sess, step, old, result)

    DOCUMENTED = ("TypeError", "MemGenError", "ConfigError", "SchedulingError", "NotImplementedError")

    def try_compile(self, sess, step, old, result):
        ctx = self.ctx
        ctx.stat("compile.attempts")
        try:
            result.proc.c_code_str()
            ctx.stat("compile.ok")
        except Exception as e:
            name = type(e).__name__
            ctx.stat(f"compile.reject.{name}")
            if name in self.DOCUMENTED:
                return
            # was the *old* procedure compilable?  if it failed the same way the
            # rewrite is not to blame
            try:
                old.c_code_str()
            except Exception as e2:
                if type(e2).__name__ == name:
                    return
            tb = traceback.extract_tb(e.__traceback__)
            where = f"{tb[-1].filename.split('/')[-1]}:{tb[-1].name}" if tb else "?"
            sig = {
                "prop": "C04",
                "monitor": "compile",
                "kind": f"{name}@{where}",
                "op": step["op"],
                "features": ir_features(old._loopir_proc),
            }
            ctx.violation(sig, mk_case(sess, sess.steps, "compile", None, {"error": repr(e)[:500], "after": sstr(result.proc, 3000)}))


# ----------------------------------------------------------------------------
def diagnose(op, old_ir, new_ir, step, sess):
    """mechanism-level diagnosis attached to a signature (JSON-able, no random
    values).  Filled in per op as triage proceeds; used by kf_matchers."""
    try:
        from . import diagnosers

        fn = getattr(diagnosers, "d_" + op.replace(".", "_"), None)
        if fn is None:
            return diagnosers.generic(op, old_ir, new_ir, step, sess)
        return fn(old_ir, new_ir, step, sess)
    except Exception as e:
        return {"diag_error": type(e).__name__}


# ----------------------------------------------------------------------------
class StreamProfile:
    def __init__(
        self,
        knobs_fn=None,
        op_weights=None,
        script_len=8,
        nprograms=10**9,
        stale_prob=0.15,
        templates=None,
    ):
        self.knobs_fn = knobs_fn or (lambda rng: Knobs())
        self.op_weights = op_weights
        self.script_len = script_len
        self.nprograms = nprograms
        self.stale_prob = stale_prob
        self.templates = templates  # optional fn(rng) -> GenProgram
        self.template_prob = 0.5


def _run_program(ctx, profile, monitors, rng, nprog):
    try:
        if profile.templates and rng.random() < profile.template_prob:
            gp = profile.templates(rng)
        else:
            gp = gen_program(rng, profile.knobs_fn(rng))
    except Exception:
        ctx.stat("gen.error")
        return
    ctx.stat("programs.generated")
    try:
        mod = load_program(gp.text, ctx.scratch)
    except Exception as e:
        ctx.stat("programs.rejected")
        ctx.stat(f"programs.rejected.{type(e).__name__}")
        return
    ctx.stat("programs.accepted")
    sess = Session(mod, gp.root, gp.text)
    sess.origin = {"seed": ctx.seed, "shard": ctx.shard, "nprog": nprog}
    for m in monitors:
        m.on_program(sess)
    for k in range(profile.script_len):
        if ctx.out_of_time():
            break
        step = random_step(sess, rng, profile.op_weights)
        if step is None:
            ctx.stat("steps.noargs")
            continue
        old = sess.cur
        for m in monitors:
            m.before_step(sess, step)
        r = apply_step(sess, step)
        ctx.stat("steps.attempted")
        ctx.stat(f"op.attempted.{step['op']}")
        if r.status == "accepted":
            ctx.stat("steps.accepted")
            ctx.stat(f"op.accepted.{step['op']}")
        else:
            ctx.stat("steps.rejected")
            ctx.stat(f"reject.{type(r.exc).__name__}")
        for m in monitors:
            try:
                m.after_step(sess, step, old, r)
            except RecursionError:
                ctx.inconclusive("monitor_recursion")
            except Exception as e:
                ctx.inconclusive(f"monitor_error:{m.name}:{type(e).__name__}")
                if ctx.params.get("debug"):
                    traceback.print_exc()
    for m in monitors:
        m.on_end(sess)


_WARM = [False]


def warm_up(ctx):
    """import and initialise everything once in the parent, so that forked
    children do not pay for it again (op table, stdlib imports, solver start-up)"""
    if _WARM[0]:
        return
    _WARM[0] = True
    import random

    all_op_names()
    try:
        from .gen_sched import ops

        gp = gen_program(random.Random(12345), Knobs(p_config=0.3))
        mod = load_program(gp.text, ctx.scratch, tag="warm")
        sess = Session(mod, gp.root, gp.text)
        rng = random.Random(1)
        for _ in range(6):
            st = random_step(sess, rng)
            if st:
                apply_step(sess, st)
        sess.cur.c_code_str()
        str(sess.cur)
    except Exception:
        pass
    import gc

    gc.collect()
    gc.freeze()  # children do not traverse (and copy) the parent's heap in their GCs


def run_stream(ctx, profile: StreamProfile, monitors, case_timeout=30):
    """generate programs until the soft deadline / program cap.

    Hang protection without fork (z3 starts up slowly in a forked child): a
    global z3 timeout turns a pathological query into a rejection, SIGALRM
    interrupts python-level loops (the case is then inconclusive), and the
    master's shard watchdog is the last resort."""
    import random, signal
    from .common import CaseTimeout

    try:
        import z3

        z3.set_param("timeout", 20000)
    except Exception:
        pass

    def on_alarm(signum, frame):
        raise CaseTimeout()

    signal.signal(signal.SIGALRM, on_alarm)
    nprog = 0
    while nprog < profile.nprograms and not ctx.out_of_time():
        nprog += 1
        rng = random.Random((ctx.seed * 1000003 + ctx.shard * 7919 + nprog * 104729) & 0xFFFFFFFF)
        ctx.rng = rng
        signal.setitimer(signal.ITIMER_REAL, case_timeout)
        try:
            _run_program(ctx, profile, monitors, rng, nprog)
        except CaseTimeout:
            ctx.inconclusive("case_watchdog")
        except RecursionError:
            ctx.inconclusive("case_recursion")
        finally:
            signal.setitimer(signal.ITIMER_REAL, 0)
        if nprog % 5 == 0:
            ctx.flush_stats()
    return nprog
