"""The scheduling stream: generated programs x random scripts, every accepted
(and rejected) operation observed by the monitors of the enabled properties.

One engine serves C01, C04, C06, C07, C10, C12, C17, C19 (each driver enables
its own monitors and biases the generator); a *case* is replayable:
  {"text": module source, "root": name, "steps": [...], "upto": k,
   "monitor": name, "input": InputSpec json | None, ...}
"""

import time
import traceback

from exo.core.LoopIR import LoopIR, T

from . import irutil, equiv
from .common import shash, jhash, CaseTimeout
from .gen_prog import gen_program, load_program, Knobs
from .gen_sched import (
    Session,
    apply_step,
    random_step,
    is_unsafe_step,
    SIG_CHANGING,
    all_op_names,
)
from .gen_input import InputSpec


# ----------------------------------------------------------------------------
def ir_features(ir):
    """coarse, mechanism-level features of a procedure (for signatures)"""
    f = set()
    winnames = {}
    for path, s in irutil.all_stmts(ir):
        if isinstance(s, LoopIR.WindowStmt):
            f.add("winstmt")
            winnames[s.name] = s.rhs.name
        elif isinstance(s, LoopIR.Call):
            f.add("call")
        elif isinstance(s, LoopIR.WriteConfig):
            f.add("cfgwrite")
        elif isinstance(s, LoopIR.For) and isinstance(s.loop_mode, LoopIR.Par):
            f.add("par")
        for _, _, e in irutil.stmt_exprs(s):
            for _, sub in irutil.sub_exprs(e):
                if isinstance(sub, LoopIR.ReadConfig):
                    f.add("cfgread")
    return sorted(f)


def sstr(p, n=4000):
    try:
        return str(p)[:n]
    except Exception as e:  # the printer itself failed (yapf) -- C17's business
        return f"<unprintable: {type(e).__name__}>"


def step_brief(step):
    return {"op": step["op"], "kw": step.get("kw") or {}}


def mk_case(sess, upto_steps, monitor, spec=None, extra=None):
    c = {
        "text": sess.text,
        "root": sess.root_name,
        "steps": list(upto_steps),
        "monitor": monitor,
        "input": spec.to_json() if isinstance(spec, InputSpec) else spec,
    }
    if getattr(sess, "prelude", None):
        c["prelude"] = sess.prelude
    if extra:
        c.update(extra)
    return c


def rebuild(case, scratch):
    """re-create the session of a case up to (not including) its last step;
    returns (session, last_step)"""
    mod = load_program(case["text"], scratch, tag="replay")
    sess = Session(mod, case["root"], case["text"])
    steps = case["steps"]
    for st in steps[:-1]:
        r = apply_step(sess, st)
        if r.status != "accepted":
            raise RuntimeError(f"replay diverged at {st['op']}: {r.exc!r}")
    return sess, (steps[-1] if steps else None)


# ----------------------------------------------------------------------------
class Monitor:
    """base class; a monitor sees every step of the stream"""

    name = "monitor"
    prop = None

    def __init__(self, ctx):
        self.ctx = ctx

    def on_program(self, sess):
        pass

    def before_step(self, sess, step):
        pass

    def after_step(self, sess, step, old, result):
        """result.status in accepted/rejected; old = procedure the op was applied to"""
        pass

    def on_end(self, sess):
        pass


def transitions(step, old, result):
    """primitive applications performed by a step: list of
    (op, p_in, p_out, call record | None, index into result.calls | None, unsafe)"""
    out = []
    for k, c in enumerate(result.calls or []):
        if c.accepted and c.proc_in is not None and hasattr(c.proc_in, "_loopir_proc"):
            out.append((c.op, c.proc_in, c.proc_out, c, k, c.is_unsafe()))
    if not out and result.status == "accepted":
        out.append((step["op"], old, result.proc, None, None, is_unsafe_step(step)))
    return out


class EquivMonitor(Monitor):
    """C01: accepted, not-unsafe rewrite must preserve final state on valid inputs.

    Judged per *primitive application* (the hooked client boundary), so that a
    stdlib composition is attributed to the primitive that went wrong, and end to
    end against the root of the chain."""

    name = "equiv"
    prop = "C01"

    def __init__(self, ctx, ninputs=6, end_to_end=True, kinds=("diff",), forced_spec=None):
        super().__init__(ctx)
        self.ninputs = ninputs
        self.end_to_end = end_to_end
        self.kinds = kinds
        self.root_idx = 0
        self.chain_ok = True
        self.forced_spec = forced_spec
        self.last_step = False

    def on_program(self, sess):
        self.root_idx = 0
        self.chain_ok = True

    def emit(self, sess, steps, op, via, kind, p_in, p_out, call, inner, spec, witness, e2e=False):
        ctx = self.ctx
        old_ir, new_ir = p_in._loopir_proc, p_out._loopir_proc
        sig = {"prop": "C01", "monitor": "equiv", "kind": kind, "op": op, "features": ir_features(old_ir)}
        if via and via != op:
            sig["via"] = via
        if e2e:
            sig["found_by"] = "e2e"
        diag = diagnose(op, old_ir, new_ir, call)
        if diag:
            sig["diag"] = diag
        case = mk_case(sess, steps, "equiv", spec, {"witness": witness, "inner": inner, "inner_op": op, "before": sstr(p_in), "after": sstr(p_out)})
        ctx.violation(sig, case)
        ctx.stat(f"viol.equiv.{op}")

    def judge_transition(self, sess, steps, step, tr, specs=None):
        """returns True when a violation was emitted"""
        ctx = self.ctx
        op, p_in, p_out, call, inner, unsafe = tr
        old_ir, new_ir = p_in._loopir_proc, p_out._loopir_proc
        if old_ir is new_ir:
            ctx.stat("equiv.identity")
            return False
        if unsafe:
            ctx.stat("equiv.exempt")
            return False
        connected, mf = equiv.reported_mod_fields(old_ir, new_ir)
        j = equiv.judge(old_ir, new_ir, ctx.rng, self.ninputs, mf, specs=specs)
        ctx.stat("evaluations")
        ctx.stat(f"op.judged.{op}")
        ctx.stat("inputs.judged", j["judged"])
        ctx.stat("inputs.skipped", j["skipped"])
        if j["verdict"] == "vacuous":
            ctx.stat("equiv.vacuous")
            for k, v in (j.get("reasons") or {}).items():
                ctx.stat("vacuous." + k, v)
            return False
        h = jhash([irutil.fingerprint(old_ir, alpha=True), op, irutil.fingerprint(new_ir, alpha=True)])
        ctx.distinct(h, nontrivial=True)
        if ctx._nsamples < 2:
            ctx.sample({"op": op, "via": step["op"], "before": sstr(p_in, 1500), "after": sstr(p_out, 1500), "inputs_judged": j["judged"], "verdict": j["verdict"]}, limit=2)
        if j["verdict"] in self.kinds:
            self.emit(sess, steps, op, step["op"], j["verdict"], p_in, p_out, call, inner, j["spec"], j["witness"])
            return True
        return False

    def after_step(self, sess, step, old, result):
        ctx = self.ctx
        if result.status != "accepted" and not result.calls:
            return
        op = step["op"]
        if op in SIG_CHANGING:
            self.root_idx = len(sess.procs) - 1
            self.chain_ok = True
            ctx.stat("equiv.exempt")
            return
        trs = transitions(step, old, result)
        steps = sess.steps if result.status == "accepted" else sess.steps + [step]
        bad = False
        any_unsafe = False
        for tr in trs:
            any_unsafe = any_unsafe or tr[5]
            specs = [self.forced_spec] if (self.forced_spec is not None and self.last_step) else None
            if self.judge_transition(sess, steps, step, tr, specs=specs):
                bad = True
                break
        if result.status != "accepted":
            return
        if any_unsafe:
            self.root_idx = len(sess.procs) - 1
            self.chain_ok = True
            return
        if bad:
            self.chain_ok = False
            return
        # end-to-end against the root of the chain (composition)
        if self.end_to_end and self.chain_ok and len(sess.procs) - 1 - self.root_idx >= 2:
            root_ir = sess.procs[self.root_idx]._loopir_proc
            new_ir = result.proc._loopir_proc
            _, mf2 = equiv.reported_mod_fields(root_ir, new_ir)
            j2 = equiv.judge(root_ir, new_ir, ctx.rng, max(2, self.ninputs // 2), mf2)
            ctx.stat("equiv.e2e")
            if j2["verdict"] in self.kinds:
                self.chain_ok = False
                self.attribute_chain(sess, j2)

    def attribute_chain(self, sess, j2):
        """an end-to-end difference is blamed on the first primitive application of
        the chain whose input and output differ on the witness input"""
        ctx = self.ctx
        spec = j2["spec"]
        procs = sess.procs
        for i in range(self.root_idx, len(procs) - 1):
            a, b = procs[i]._loopir_proc, procs[i + 1]._loopir_proc
            if a is b:
                continue
            _, mf = equiv.reported_mod_fields(a, b)
            c = equiv.compare_on(a, b, spec, mf)
            if c.status == "same":
                continue
            step = sess.steps[i]
            if c.status != "diff":
                # an intermediate procedure is not event-free on an input that is valid
                # for the root: a safety matter (C04), not attributed here
                ctx.stat(f"e2e.unattributed.{c.status}")
                return
            # find the guilty primitive inside the step
            calls = sess.calls_of[i + 1] if hasattr(sess, "calls_of") and i + 1 < len(sess.calls_of) else []
            for k, cl in enumerate(calls or []):
                if not cl.accepted or cl.is_unsafe():
                    continue
                x, y = cl.proc_in._loopir_proc, cl.proc_out._loopir_proc
                if x is y:
                    continue
                _, mf3 = equiv.reported_mod_fields(x, y)
                try:
                    c3 = equiv.compare_on(x, y, spec, mf3)
                except Exception:
                    continue
                if c3.status == "diff":
                    self.emit(sess, sess.steps[: i + 1], cl.op, step["op"], "diff", cl.proc_in, cl.proc_out, cl, k, spec, c3.detail, e2e=True)
                    return
            self.emit(sess, sess.steps[: i + 1], step["op"], step["op"], "diff", procs[i], procs[i + 1], None, None, spec, c.detail, e2e=True)
            return
        ctx.stat("e2e.unattributed.none")


class SafetyMonitor(Monitor):
    """C04: accepted rewrite keeps the IR well-scoped, safe, initialised, compilable"""

    name = "safety"
    prop = "C04"

    def __init__(self, ctx, ninputs=6, compile_every=4, forced_spec=None):
        super().__init__(ctx)
        self.ninputs = ninputs
        self.compile_every = compile_every
        self.n = 0
        self.forced_spec = forced_spec
        self.last_step = False

    def emit(self, sess, steps, step, monitor, kind, tr, spec, extra):
        ctx = self.ctx
        op, p_in, p_out, call, inner, unsafe = tr
        sig = {"prop": "C04", "monitor": monitor, "kind": kind, "op": op, "features": ir_features(p_in._loopir_proc)}
        if step["op"] != op:
            sig["via"] = step["op"]
        diag = diagnose(op, p_in._loopir_proc, p_out._loopir_proc, call)
        if monitor == "validate" and getattr(self, "_oos", None):
            from .diagnosers import binder_kind

            diag = dict(diag or {})
            diag["oos_binder"] = binder_kind(p_in._loopir_proc, self._oos)
        if diag:
            sig["diag"] = diag
        d = {"inner": inner, "inner_op": op, "before": sstr(p_in, 3000), "after": sstr(p_out, 3000)}
        d.update(extra or {})
        ctx.violation(sig, mk_case(sess, steps, monitor, spec, d))
        ctx.stat(f"viol.{monitor}.{op}")

    def after_step(self, sess, step, old, result):
        ctx = self.ctx
        if result.status != "accepted" and not result.calls:
            return
        steps = sess.steps if result.status == "accepted" else sess.steps + [step]
        for tr in transitions(step, old, result):
            if self.judge_transition(sess, steps, step, tr):
                break

    def judge_transition(self, sess, steps, step, tr):
        ctx = self.ctx
        op, p_in, p_out, call, inner, unsafe = tr
        old_ir, new_ir = p_in._loopir_proc, p_out._loopir_proc
        if old_ir is new_ir:
            return False
        self.n += 1
        ctx.stat("evaluations")
        ctx.stat(f"op.judged.{op}")
        h = jhash([irutil.fingerprint(old_ir, alpha=True), op, irutil.fingerprint(new_ir, alpha=True)])
        # (a) scopes / binders / arity -- holds for unsafe-flagged ops too
        probs_old = irutil.validate(old_ir)
        probs = irutil.validate(new_ir)
        ctx.stat("validate.calls")
        if probs and not probs_old:
            self._oos = probs[0].get("sym")
            self.emit(sess, steps, step, "validate", probs[0]["kind"], tr, None, {"problems": probs})
            ctx.distinct(h)
            return True
        # sub-procedures created by the op must be well-formed too
        extra = (call.extra if call is not None else None) or ()
        if probs_old:
            extra = ()  # the input was already ill-scoped (an earlier step's finding): nothing to attribute here
        for x in extra:
            if hasattr(x, "_loopir_proc"):
                p2 = irutil.validate(x._loopir_proc)
                if p2:
                    self.emit(sess, steps, step, "validate-subproc", p2[0]["kind"], tr, None, {"problems": p2, "subproc": sstr(x, 2500)})
                    return True
        if unsafe:
            ctx.stat("safety.exempt_unsafe")
            ctx.distinct(h)
            return False
        if op in SIG_CHANGING:
            # different signature / narrowed inputs: judged by C19's oracle
            ctx.distinct(h)
            return False
        # (b)+(c) events / poison in p' on inputs where p is clean
        specs = [self.forced_spec] if (self.forced_spec is not None and self.last_step) else None
        j = equiv.judge(old_ir, new_ir, ctx.rng, self.ninputs, equiv.reported_mod_fields(old_ir, new_ir)[1], specs=specs)
        ctx.stat("inputs.judged", j["judged"])
        if j["verdict"] == "vacuous":
            ctx.stat("safety.vacuous")
        else:
            ctx.distinct(h)
            if ctx._nsamples < 2:
                ctx.sample({"op": op, "via": step["op"], "before": sstr(p_in, 1200), "after": sstr(p_out, 1200), "inputs_judged": j["judged"], "validator": "ok", "verdict": j["verdict"]}, limit=2)
        if j["verdict"] in ("new_event", "poison"):
            ev = (j["witness"] or {}).get("event") or {}
            kind = ev.get("kind") or (j["witness"] or {}).get("aborted") or j["verdict"]
            self.emit(sess, steps, step, "safety", "poison" if j["verdict"] == "poison" else f"event:{kind}", tr, j["spec"], {"witness": j["witness"]})
            return True
        # (d) compiles, or is rejected only by documented backend checks
        if self.compile_every and self.n % self.compile_every == 0:
            return self.try_compile(sess, steps, step, tr)
        return False

    DOCUMENTED = ("TypeError", "MemGenError", "ConfigError", "SchedulingError", "NotImplementedError")

    def try_compile(self, sess, steps, step, tr):
        ctx = self.ctx
        op, p_in, p_out, call, inner, unsafe = tr
        ctx.stat("compile.attempts")
        try:
            p_out.c_code_str()
            ctx.stat("compile.ok")
            return False
        except CaseTimeout:
            raise
        except Exception as e:
            name = type(e).__name__
            ctx.stat(f"compile.reject.{name}")
            if name in self.DOCUMENTED:
                return False
            # was the *old* procedure compilable?  if it failed the same way the
            # rewrite is not to blame
            try:
                p_in.c_code_str()
            except CaseTimeout:
                raise
            except Exception as e2:
                # the input did not compile either (a defect of an earlier step, judged there): how
                # exactly the compiler trips over it afterwards is not this operation's doing
                ctx.stat("compile.input_already_uncompilable")
                return False
            tb = traceback.extract_tb(e.__traceback__)
            where = f"{tb[-1].filename.split('/')[-1]}:{tb[-1].name}" if tb else "?"
            self.emit(sess, steps, step, "compile", f"{name}@{where}", tr, None, {"error": repr(e)[:500]})
            return True


# ----------------------------------------------------------------------------
def diagnose(op, old_ir, new_ir, call):
    """mechanism-level diagnosis attached to a signature (JSON-able, no random
    values).  `call` is the hooks.CallRecord of the primitive (processed
    arguments).  Filled in per op as triage proceeds; used by kf_matchers."""
    try:
        from . import diagnosers

        d = diagnosers.generic(op, old_ir, new_ir, call) or {}
        fn = getattr(diagnosers, "d_" + op.replace(".", "_"), None)
        if fn is not None and call is not None:
            d.update(fn(old_ir, new_ir, call) or {})
        return d
    except Exception as e:
        return {"diag_error": type(e).__name__}


# ----------------------------------------------------------------------------
class StreamProfile:
    def __init__(
        self,
        knobs_fn=None,
        op_weights=None,
        script_len=8,
        nprograms=10**9,
        stale_prob=0.15,
        templates=None,
    ):
        self.knobs_fn = knobs_fn or (lambda rng: Knobs())
        self.op_weights = op_weights
        self.script_len = script_len
        self.nprograms = nprograms
        self.stale_prob = stale_prob
        self.templates = templates  # optional fn(rng) -> GenProgram
        self.template_prob = 0.5


def _run_program(ctx, profile, monitors, rng, nprog):
    try:
        rot = getattr(profile, "rotation", None)
        rot_n = getattr(profile, "rotation_n", 3)
        if rot and nprog <= rot_n:
            # the first programs of every shard walk through the template families in rotation, so that
            # every family is present in every run whatever the random mix
            gp = rot[(ctx.shard * rot_n + nprog - 1) % len(rot)](rng)
            ctx.stat("programs.rotation")
        elif profile.templates and rng.random() < profile.template_prob:
            gp = profile.templates(rng)
        else:
            gp = gen_program(rng, profile.knobs_fn(rng))
    except Exception:
        ctx.stat("gen.error")
        return
    ctx.stat("programs.generated")
    try:
        mod = load_program(gp.text, ctx.scratch)
    except Exception as e:
        ctx.stat("programs.rejected")
        ctx.stat(f"programs.rejected.{type(e).__name__}")
        return
    ctx.stat("programs.accepted")
    sess = Session(mod, gp.root, gp.text)
    sess.origin = {"seed": ctx.seed, "shard": ctx.shard, "nprog": nprog}
    for m in monitors:
        m.on_program(sess)
    for k in range(profile.script_len):
        if ctx.out_of_time():
            break
        prefer = (getattr(gp, "meta", None) or {}).get("prefer_ops")
        seq = (getattr(gp, "meta", None) or {}).get("op_sequence")
        if seq and len(sess.steps) < len(seq) and k < 3 * len(seq) and rng.random() < 0.75:
            # multi-step templates: the k-th accepted step should be this primitive
            step = random_step(sess, rng, {seq[len(sess.steps)]: 1.0})
        elif prefer and k < 2 and rng.random() < 0.6:
            # templates name the primitives whose preconditions they were written to stress
            step = random_step(sess, rng, {o: 1.0 for o in prefer})
        else:
            step = random_step(sess, rng, profile.op_weights)
        if step is None:
            ctx.stat("steps.noargs")
            continue
        old = sess.cur
        for m in monitors:
            m.before_step(sess, step)
        r = apply_step(sess, step)
        if not hasattr(sess, "calls_of"):
            sess.calls_of = [None]
        if r.status == "accepted":
            sess.calls_of.append(r.calls)
        ctx.stat("steps.attempted")
        ctx.stat(f"op.attempted.{step['op']}")
        if r.status == "accepted":
            ctx.stat("steps.accepted")
            ctx.stat(f"op.accepted.{step['op']}")
        else:
            ctx.stat("steps.rejected")
            ctx.stat(f"reject.{type(r.exc).__name__}")
        for m in monitors:
            try:
                m.after_step(sess, step, old, r)
            except RecursionError:
                ctx.inconclusive("monitor_recursion")
            except Exception as e:
                ctx.inconclusive(f"monitor_error:{m.name}:{type(e).__name__}")
                if ctx.params.get("debug"):
                    traceback.print_exc()
    for m in monitors:
        m.on_end(sess)


_WARM = [False]


def warm_up(ctx):
    """import and initialise everything once in the parent, so that forked
    children do not pay for it again (op table, stdlib imports, solver start-up)"""
    if _WARM[0]:
        return
    _WARM[0] = True
    import random

    all_op_names()
    try:
        from .gen_sched import ops

        gp = gen_program(random.Random(12345), Knobs(p_config=0.3))
        mod = load_program(gp.text, ctx.scratch, tag="warm")
        sess = Session(mod, gp.root, gp.text)
        rng = random.Random(1)
        for _ in range(6):
            st = random_step(sess, rng)
            if st:
                apply_step(sess, st)
        sess.cur.c_code_str()
        str(sess.cur)
    except Exception:
        pass
    import gc

    gc.collect()
    gc.freeze()  # children do not traverse (and copy) the parent's heap in their GCs


def run_stream(ctx, profile: StreamProfile, monitors, case_timeout=30):
    """generate programs until the soft deadline / program cap.

    Hang protection without fork (z3 starts up slowly in a forked child): a
    global z3 timeout turns a pathological query into a rejection, SIGALRM
    interrupts python-level loops (the case is then inconclusive), and the
    master's shard watchdog is the last resort."""
    import random, signal
    from .common import CaseTimeout

    try:
        import z3

        z3.set_param("timeout", 20000)
    except Exception:
        pass

    def on_alarm(signum, frame):
        raise CaseTimeout()

    signal.signal(signal.SIGALRM, on_alarm)
    nprog = 0
    cap = min(profile.nprograms, int(ctx.params.get("nprograms", 10**9)))
    while nprog < cap and not ctx.out_of_time():
        nprog += 1
        rng = random.Random((ctx.seed * 1000003 + ctx.shard * 7919 + nprog * 104729) & 0xFFFFFFFF)
        ctx.rng = rng
        signal.setitimer(signal.ITIMER_REAL, case_timeout)
        try:
            _run_program(ctx, profile, monitors, rng, nprog)
        except CaseTimeout:
            ctx.inconclusive("case_watchdog")
        except RecursionError:
            ctx.inconclusive("case_recursion")
        finally:
            signal.setitimer(signal.ITIMER_REAL, 0)
        if nprog % 5 == 0:
            ctx.flush_stats()
    return nprog
