"""E4: in-process observation points on the real exo functions (guard EXO_VERIF=1).

Nothing in /repo is edited: every observation point is a Python attribute that
is wrapped from here.  Hooks are transparent: they never raise into the code
under observation and add no frame that exo's own stack inspection counts
(`match_pattern` inspects frames only while arguments are processed, i.e.
before `AtomicSchedulingOp.func` runs).
"""

import os

GUARD = "EXO_VERIF"


class CallRecord:
    __slots__ = ("op", "proc_in", "args", "kwargs", "proc_out", "extra", "exc", "depth", "seq", "aux")

    def __init__(self, op, proc_in, args, kwargs, depth, seq):
        self.op = op
        self.proc_in = proc_in
        self.args = args
        self.kwargs = kwargs
        self.proc_out = None
        self.extra = None
        self.exc = None
        self.depth = depth
        self.seq = seq
        self.aux = None  # scratch for pre/post observers (e.g. fingerprints taken before the call)

    @property
    def accepted(self):
        return self.proc_out is not None

    def is_unsafe(self):
        from .gen_sched import UNSAFE_OPS

        if self.op in UNSAFE_OPS:
            return True
        for k, v in self.kwargs.items():
            if k.startswith("unsafe_disable_check") and v:
                return True
        return False


class Recorder:
    def __init__(self):
        self.calls = []
        self.depth = 0
        self.seq = 0
        self.enabled = True
        self.total = 0
        # optional observers run around every primitive call (never raise into exo)
        self.pre = None
        self.post = None

    def clear(self):
        self.calls = []

    def take(self):
        c, self.calls = self.calls, []
        return c


REC = Recorder()
_installed = [False]


def enabled():
    return os.environ.get(GUARD, "") == "1"


def install_call_recorder():
    """wrap the raw function of every AtomicSchedulingOp: the client boundary of
    every primitive (and of every composition built from primitives)"""
    if _installed[0] or not enabled():
        return REC
    import inspect

    import exo.API_scheduling as AS
    from exo.API import Procedure

    for name in dir(AS):
        op = getattr(AS, name)
        if not isinstance(op, AS.AtomicSchedulingOp):
            continue
        _wrap(op, name, Procedure, inspect)
    _installed[0] = True
    return REC


def _wrap(op, name, Procedure, inspect):
    raw = op.func
    try:
        params = list(inspect.signature(raw).parameters)
    except (TypeError, ValueError):
        params = []

    def recorded(*args, **kwargs):
        if not REC.enabled:
            return raw(*args, **kwargs)
        proc_in = args[0] if args else kwargs.get("proc")
        named = {}
        for i, a in enumerate(args[1:], start=1):
            named[params[i] if i < len(params) else f"arg{i}"] = a
        named.update(kwargs)
        REC.seq += 1
        REC.total += 1
        rec = CallRecord(name, proc_in, list(args[1:]), named, REC.depth, REC.seq)
        REC.calls.append(rec)
        if REC.pre is not None:
            try:
                REC.pre(rec)
            except Exception:
                pass
        REC.depth += 1
        try:
            res = raw(*args, **kwargs)
        except BaseException as e:
            rec.exc = e
            raise
        finally:
            REC.depth -= 1
            if REC.post is not None:
                try:
                    REC.post(rec)
                except Exception:
                    pass
        out = res
        if isinstance(res, tuple):
            out = res[0]
            rec.extra = res[1:]
        if isinstance(out, Procedure):
            rec.proc_out = out
        return res

    recorded.__name__ = getattr(raw, "__name__", name)
    recorded.__wrapped__ = raw
    op.func = recorded
