"""Program corpus / generator and pattern derivation for property C16.

* gen_program(rng, size)  -> source text of a module with a @config, two
  sub-procedures and a structurally rich procedure `main`.
* load_module(src, dir, name) imports it from a real file.
* to_pat_stmt / to_pat_expr  : LoopIR -> PatAST (see vf/refmatch.py)
* pat_to_str                 : PatAST -> pattern string (exo pattern syntax)
* holeify / mutate           : random generalisation / one-leaf mutation
"""

import copy
import importlib.util
import sys

HEADER = """from __future__ import annotations
from exo import proc, config, DRAM
from exo.libs.externs import sin, relu, select, fmaxf


def _c16_call_find(obj, pat, many):
    # exo looks for Extern objects in the frame that calls find(): this frame
    return obj.find(pat, many=many)


def _c16_call_find_all(obj, pat):
    return obj.find_all(pat)


@config
class Cfg:
    a: f32
    b: f32


@proc
def sub_copy(n: size, a: [f32][n], b: [f32][n]):
    for i in seq(0, n):
        b[i] = a[i]


@proc
def sub_acc(a: [f32][4], s: f32):
    for i in seq(0, 4):
        s += a[i]
        if i < 2:
            s += 1.0
        else:
            pass

"""

EXTERN_NAMES = ("sin", "relu", "select", "fmaxf")


# --------------------------------------------------------------------------- #
# program generator


class _Env:
    def __init__(self):
        self.bufs = {}  # name -> list of dims ('n' or int)
        self.scalars = []
        self.ivars = {}  # name -> ('n',) or ('c', lo, hi)   (hi inclusive)
        self.win_base = {}  # window name -> base buffer

    def child(self):
        e = _Env()
        e.bufs = dict(self.bufs)
        e.scalars = list(self.scalars)
        e.ivars = dict(self.ivars)
        e.win_base = dict(self.win_base)
        return e


class ProgGen:
    def __init__(self, rng, size=2):
        self.rng = rng
        self.size = size
        self.budget = 0

    # -- helpers -----------------------------------------------------------
    def ch(self, xs):
        return xs[self.rng.randrange(len(xs))]

    def p(self, x):
        return self.rng.random() < x

    def const(self):
        return self.ch(["0.0", "1.0", "2.0", "2.5", "3.0", "-3.0", "0.5", "-1.0"])

    # affine index over constant-range variables with value in [0, D-1]
    def cidx(self, env, D):
        cv = [(n, v[1], v[2]) for n, v in env.ivars.items() if v[0] == "c"]
        r = self.rng.random()
        if not cv or r < 0.15:
            return str(self.rng.randrange(0, min(D, 8)))
        n1, lo1, hi1 = self.ch(cv)
        forms = []
        forms.append((n1, lo1, hi1))
        c = self.rng.randrange(1, 4)
        forms.append((f"{n1} + {c}", lo1 + c, hi1 + c))
        forms.append((f"2 * {n1}", 2 * lo1, 2 * hi1))
        forms.append((f"2 * {n1} + {c}", 2 * lo1 + c, 2 * hi1 + c))
        if lo1 >= 1:
            forms.append((f"{n1} - 1", lo1 - 1, hi1 - 1))
        if len(cv) > 1:
            n2, lo2, hi2 = self.ch(cv)
            forms.append((f"{n1} + {n2}", lo1 + lo2, hi1 + hi2))
            forms.append((f"2 * {n1} + {n2}", 2 * lo1 + lo2, 2 * hi1 + hi2))
            forms.append((f"{n1} + {n2} + 1", lo1 + lo2 + 1, hi1 + hi2 + 1))
        forms = [f for f in forms if f[1] >= 0 and f[2] <= D - 1]
        if not forms:
            return str(self.rng.randrange(0, min(D, 8)))
        return self.ch(forms)[0]

    def nidx(self, env):
        nv = [n for n, v in env.ivars.items() if v[0] == "n"]
        if nv and self.p(0.85):
            return self.ch(nv)
        return str(self.rng.randrange(0, 8))

    def index(self, env, dims):
        return [self.nidx(env) if d == "n" else self.cidx(env, d) for d in dims]

    def access(self, env, name):
        dims = env.bufs[name]
        if not dims:
            return name
        return f"{name}[{', '.join(self.index(env, dims))}]"

    def any_buf(self, env):
        names = list(env.bufs) + list(env.scalars)
        return self.ch(names)

    def lval(self, env):
        name = self.any_buf(env)
        if name in env.bufs:
            return self.access(env, name)
        return name

    def dexpr(self, env, depth=0):
        r = self.rng.random()
        if depth >= 3 or r < 0.28:
            r2 = self.rng.random()
            if r2 < 0.3:
                return self.const()
            if r2 < 0.37:
                return "Cfg." + self.ch(["a", "b"])
            return self.lval(env)
        if r < 0.62:
            op = self.ch(["+", "-", "*", "/", "+", "*"])
            a = self.dexpr(env, depth + 1)
            b = self.dexpr(env, depth + 1)
            if op == "/":
                b = self.ch(["2.0", "4.0"])
            return f"({a} {op} {b})"
        if r < 0.72:
            return f"(-{self.dexpr(env, depth + 1)})"
        if r < 0.9:
            f = self.ch(["sin", "relu", "fmaxf", "sin"])
            if f == "fmaxf":
                return f"fmaxf({self.dexpr(env, depth + 1)}, {self.dexpr(env, depth + 1)})"
            return f"{f}({self.dexpr(env, depth + 1)})"
        args = ", ".join(self.dexpr(env, depth + 2) for _ in range(4))
        return f"select({args})"

    def cond(self, env, depth=0):
        cv = [(n, v) for n, v in env.ivars.items()]
        r = self.rng.random()
        if depth == 0 and r < 0.12 and env.bufs:
            cands = [b for b, d in env.bufs.items() if d and b not in env.win_base]
            if cands:
                b = self.ch(cands)
                return f"stride({b}, {self.rng.randrange(len(env.bufs[b]))}) == 1"
        if depth == 0 and r < 0.3 and cv:
            return f"({self.cond(env, 1)}) {self.ch(['and', 'or'])} ({self.cond(env, 1)})"
        if not cv or r > 0.9:
            return f"n {self.ch(['>', '>=', '=='])} {self.rng.randrange(8, 12)}"
        n1, _ = self.ch(cv)
        op = self.ch(["<", ">", "<=", ">=", "=="])
        r3 = self.rng.random()
        if r3 < 0.6 or len(cv) < 2:
            return f"{n1} {op} {self.rng.randrange(0, 4)}"
        n2, _ = self.ch(cv)
        if r3 < 0.8:
            return f"{n1} {op} {n2}"
        return f"{n1} + {n2} {op} {self.rng.randrange(1, 5)}"

    # -- statements ----------------------------------------------------------
    def block(self, env, depth, ind, minlen=1, maxlen=5):
        env = env.child()
        out = []
        n = self.rng.randrange(minlen, maxlen + 1)
        for _ in range(n):
            if self.budget <= 0 and out:
                break
            out.extend(self.stmt(env, depth, ind))
        if not out:
            out.append(ind + "pass")
        return out

    def stmt(self, env, depth, ind):
        self.budget -= 1
        r = self.rng.random()
        deep = depth >= 4
        if r < 0.22 and not deep:
            return self.loop(env, depth, ind)
        if r < 0.34 and not deep:
            return self.ifstmt(env, depth, ind)
        if r < 0.46:
            return self.alloc(env, ind)
        if r < 0.53:
            return self.call(env, ind)
        if r < 0.59:
            return self.window(env, ind)
        if r < 0.64 and env.ivars:
            return [f"{ind}{self.lval(env)} = {self.const()}"]
        if r < 0.64:
            # the value written to a config field must not depend (even through
            # buffers) on any loop iteration: constants only
            c1, c2 = self.const(), self.const()
            rhs = self.ch([c1, f"({c1} {self.ch(['+', '*', '-'])} {c2})", f"sin({c1})",
                           f"(-{c1})", f"fmaxf({c1}, {c2})"])
            return [f"{ind}Cfg.{self.ch(['a', 'b'])} = {rhs}"]
        if r < 0.68:
            return [ind + "pass"]
        if r < 0.8:
            return [f"{ind}{self.lval(env)} += {self.dexpr(env)}"]
        return [f"{ind}{self.lval(env)} = {self.dexpr(env)}"]

    def loop(self, env, depth, ind):
        name = self.ch(["i", "i", "i", "j", "j", "k", "ii", "io"])
        e2 = env.child()
        r = self.rng.random()
        cvars = [(n, v) for n, v in env.ivars.items() if v[0] == "c" and n != name]
        if r < 0.3:
            lo = self.ch(["0", "0", "1", "2"])
            rng_s = f"seq({lo}, n)"
            e2.ivars[name] = ("n",)
        elif r < 0.4 and cvars:
            o, v = self.ch(cvars)
            rng_s = f"seq(0, {o} + 1)"
            e2.ivars[name] = ("c", 0, v[2])
        else:
            lo, hi = self.ch([(0, 4), (0, 4), (1, 4), (0, 2), (1, 3), (0, 3)])
            rng_s = f"seq({lo}, {hi})"
            e2.ivars[name] = ("c", lo, hi - 1)
        body = self.block(e2, depth + 1, ind + "    ", 1, 4)
        return [f"{ind}for {name} in {rng_s}:"] + body

    def ifstmt(self, env, depth, ind):
        has_else = self.p(0.55)
        c = self.cond(env)
        # exo's bounds checker cannot negate `==`: no else branch then
        for _ in range(20):
            if not (has_else and "==" in c):
                break
            c = self.cond(env)
        if has_else and "==" in c:
            has_else = False
        out = [f"{ind}if {c}:"] + self.block(env, depth + 1, ind + "    ", 1, 3)
        if has_else:
            out += [f"{ind}else:"] + self.block(env, depth + 1, ind + "    ", 1, 3)
        return out

    def alloc(self, env, ind):
        r = self.rng.random()
        if r < 0.45:
            name = self.ch(["t", "t", "s", "acc"])
            env.scalars.append(name) if name not in env.scalars else None
            env.bufs.pop(name, None)
            env.win_base.pop(name, None)
            out = [f"{ind}{name}: f32"]
            if self.p(0.7):
                out.append(f"{ind}{name} = {self.dexpr(env, 2)}")
            return out
        name = self.ch(["b", "b", "c", "d", "tmp"])
        dims = self.ch([[16], [16], [4, 16], [8], ["n"], [16, 16], [4]])
        sz = []
        for d in dims:
            if d == "n":
                sz.append("n")
            elif d == 16 and self.p(0.2):
                sz.append("8 + 8")
            else:
                sz.append(str(d))
        if name in env.scalars:
            env.scalars.remove(name)
        env.win_base.pop(name, None)
        # windows onto a shadowed buffer stay valid in exo but we drop them
        for w, b in list(env.win_base.items()):
            if b == name:
                env.win_base.pop(w)
                env.bufs.pop(w, None)
        env.bufs[name] = list(dims)
        return [f"{ind}{name}: f32[{', '.join(sz)}]"]

    def window_of(self, env, name, want):
        """window expression of buffer `name` with one interval of length `want`
        (int or 'n'); None if impossible"""
        dims = env.bufs[name]
        cand = [
            i
            for i, d in enumerate(dims)
            if (d == want) or (want != "n" and d != "n" and d >= want)
        ]
        if not cand:
            return None
        k = self.ch(cand)
        parts = []
        for i, d in enumerate(dims):
            if i == k:
                if want == "n":
                    parts.append(self.ch(["0:n", ":"]))
                elif d == want and self.p(0.3):
                    parts.append(":")
                else:
                    lo = self.rng.randrange(0, d - want + 1)
                    parts.append(f"{lo}:{lo + want}")
            else:
                parts.append(self.nidx(env) if d == "n" else self.cidx(env, d))
        return f"{name}[{', '.join(parts)}]"

    def call(self, env, ind):
        names = [b for b, d in env.bufs.items() if d]
        self.rng.shuffle(names)
        if self.p(0.35) and env.scalars:
            for b in names:
                w = self.window_of(env, b, 4)
                if w:
                    return [f"{ind}sub_acc({w}, {self.ch(env.scalars)})"]
        want = self.ch([4, 8, 16, "n"])
        ws = []
        used = set()
        for b in names:
            base = env.win_base.get(b, b)
            if base in used:
                continue
            w = self.window_of(env, b, want)
            if w:
                ws.append(w)
                used.add(base)
            if len(ws) == 2:
                break
        if len(ws) == 2:
            return [f"{ind}sub_copy({want}, {ws[0]}, {ws[1]})"]
        return [f"{ind}{self.lval(env)} = {self.dexpr(env)}"]

    def window(self, env, ind):
        names = [b for b, d in env.bufs.items() if d and b not in env.win_base]
        if not names:
            return [ind + "pass"]
        b = self.ch(names)
        want = self.ch([4, 8, 16])
        w = self.window_of(env, b, want)
        if not w:
            return [ind + "pass"]
        free = [x for x in ("w", "w", "w2", "w3") if x not in env.bufs]
        if not free:
            return [ind + "pass"]
        wn = self.ch(free)
        env.bufs[wn] = [want]
        env.win_base[wn] = b
        out = [f"{ind}{wn} = {w}"]
        if self.p(0.6):
            out.append(f"{ind}{self.access(env, wn)} = {self.dexpr(env, 2)}")
        return out

    # -- whole program -------------------------------------------------------
    def program(self):
        env = _Env()
        args = ["n: size"]
        pool = [
            ("x", ["n"]),
            ("y", ["n", 16]),
            ("z", [16]),
            ("u", [16, 16]),
            ("v", [8]),
        ]
        self.rng.shuffle(pool)
        for name, dims in pool[: self.rng.randrange(2, 5)]:
            env.bufs[name] = dims
            args.append(f"{name}: f32[{', '.join(str(d) for d in dims)}]")
        if self.p(0.4):
            env.scalars.append("r")
            args.append("r: f32")
        self.budget = self.ch([3, 6, 10, 16, 24][: 2 + self.size])
        body = ["    assert n >= 8"] + self.block(env, 0, "    ", 2, 7)
        return HEADER + "@proc\ndef main(" + ", ".join(args) + "):\n" + "\n".join(body) + "\n"


def gen_program(rng, size=2):
    return ProgGen(rng, size).program()


_modcount = [0]


def load_module(src, directory, tag="p"):
    """Write src into a real file under `directory` and import it."""
    _modcount[0] += 1
    name = f"c16_{tag}_{_modcount[0]}"
    path = directory / f"{name}.py"
    path.write_text(src)
    spec = importlib.util.spec_from_file_location(name, str(path))
    mod = importlib.util.module_from_spec(spec)
    # the module stays in sys.modules while it is used: inspect.stack() (called by
    # every find) is several times slower for frames of unregistered modules
    sys.modules[name] = mod
    try:
        spec.loader.exec_module(mod)
    except BaseException:
        sys.modules.pop(name, None)
        raise
    return mod


def unload_module(mod):
    sys.modules.pop(getattr(mod, "__name__", ""), None)


# --------------------------------------------------------------------------- #
# LoopIR -> PatAST


def EH():
    return {"k": "ehole"}


def SH():
    return {"k": "shole"}


def to_pat_expr(e):
    from exo.core.LoopIR import LoopIR

    if isinstance(e, LoopIR.Read):
        return {"k": "read", "name": str(e.name), "idx": [to_pat_expr(i) for i in e.idx]}
    if isinstance(e, LoopIR.Const):
        v = e.val
        if not isinstance(v, bool) and isinstance(v, (int, float)) and v < 0:
            return {"k": "usub", "arg": {"k": "const", "val": -v}}
        return {"k": "const", "val": v}
    if isinstance(e, LoopIR.USub):
        return {"k": "usub", "arg": to_pat_expr(e.arg)}
    if isinstance(e, LoopIR.BinOp):
        return {"k": "binop", "op": str(e.op), "l": to_pat_expr(e.lhs), "r": to_pat_expr(e.rhs)}
    if isinstance(e, LoopIR.Extern):
        return {"k": "extern", "f": e.f.name(), "args": [to_pat_expr(a) for a in e.args]}
    if isinstance(e, LoopIR.ReadConfig):
        return {"k": "rconfig", "config": e.config.name(), "field": e.field}
    if isinstance(e, LoopIR.StrideExpr):
        return {"k": "stride", "name": str(e.name), "dim": e.dim}
    if isinstance(e, LoopIR.WindowExpr):
        return EH()  # windows cannot be written in a pattern
    raise ValueError(f"unknown expr {type(e)}")


def to_pat_stmt(s):
    from exo.core.LoopIR import LoopIR

    if isinstance(s, (LoopIR.Assign, LoopIR.Reduce)):
        return {
            "k": "assign" if isinstance(s, LoopIR.Assign) else "reduce",
            "name": str(s.name),
            "idx": [to_pat_expr(i) for i in s.idx],
            "rhs": to_pat_expr(s.rhs),
        }
    if isinstance(s, LoopIR.WindowStmt):
        return {"k": "assign", "name": str(s.name), "idx": [], "rhs": EH()}
    if isinstance(s, LoopIR.Pass):
        return {"k": "pass"}
    if isinstance(s, LoopIR.If):
        return {
            "k": "if",
            "cond": to_pat_expr(s.cond),
            "body": [to_pat_stmt(x) for x in s.body],
            "orelse": [to_pat_stmt(x) for x in s.orelse],
        }
    if isinstance(s, LoopIR.For):
        return {
            "k": "for",
            "iter": str(s.iter),
            "lo": to_pat_expr(s.lo),
            "hi": to_pat_expr(s.hi),
            "body": [to_pat_stmt(x) for x in s.body],
        }
    if isinstance(s, LoopIR.Alloc):
        sizes = []
        if isinstance(s.type, LoopIR.Tensor):
            sizes = [to_pat_expr(h) for h in s.type.hi]
        return {"k": "alloc", "name": str(s.name), "ty": str(s.type.basetype()), "sizes": sizes}
    if isinstance(s, LoopIR.Call):
        return {"k": "call", "f": s.f.name, "args": [to_pat_expr(a) for a in s.args]}
    if isinstance(s, LoopIR.WriteConfig):
        return {"k": "wconfig", "config": s.config.name(), "field": s.field, "rhs": to_pat_expr(s.rhs)}
    raise ValueError(f"unknown stmt {type(s)}")


# --------------------------------------------------------------------------- #
# PatAST -> pattern string


def _const_str(v):
    if isinstance(v, bool):
        return "True" if v else "False"
    return repr(v)


def expr_str(p, top=True):
    k = p["k"]
    if k == "ehole":
        return "_"
    if k == "const":
        return _const_str(p["val"])
    if k == "read":
        if p["idx"]:
            return f"{p['name']}[{', '.join(expr_str(i) for i in p['idx'])}]"
        return p["name"]
    if k == "usub":
        s = f"-{expr_str(p['arg'], False)}"
        return s if top else f"({s})"
    if k == "binop":
        s = f"{expr_str(p['l'], False)} {p['op']} {expr_str(p['r'], False)}"
        return s if top else f"({s})"
    if k == "extern":
        return f"{p['f']}({', '.join(expr_str(a) for a in p['args'])})"
    if k == "rconfig":
        return f"{p['config']}.{p['field']}"
    if k == "stride":
        return f"stride({p['name']}, {'_' if p['dim'] is None else p['dim']})"
    raise ValueError(k)


def _simple(p):
    return p["k"] not in ("if", "for")


def stmt_lines(p, ind=""):
    k = p["k"]
    if k == "shole":
        return [ind + "_"]
    if k == "pass":
        return [ind + "pass"]
    if k in ("assign", "reduce"):
        lhs = p["name"]
        if p["idx"]:
            lhs += f"[{', '.join(expr_str(i) for i in p['idx'])}]"
        return [f"{ind}{lhs} {'=' if k == 'assign' else '+='} {expr_str(p['rhs'])}"]
    if k == "alloc":
        ty = p.get("ty")
        sizes = p.get("sizes") or []
        if sizes:
            t = f"{ty or '_'}[{', '.join(expr_str(s) for s in sizes)}]"
        else:
            t = ty or "_"
        return [f"{ind}{p['name']} : {t}"]
    if k == "call":
        a = "_" if p["args"] == "hole" else ", ".join(expr_str(x) for x in p["args"])
        return [f"{ind}{p['f']}({a})"]
    if k == "wconfig":
        return [f"{ind}{p['config']}.{p['field']} = {expr_str(p['rhs'])}"]
    if k == "for":
        if p["lo"]["k"] == "ehole" and p["hi"]["k"] == "ehole":
            head = f"{ind}for {p['iter']} in _:"
        else:
            head = f"{ind}for {p['iter']} in seq({expr_str(p['lo'])}, {expr_str(p['hi'])}):"
        return [head] + block_lines(p["body"], ind + "    ")
    if k == "if":
        out = [f"{ind}if {expr_str(p['cond'])}:"] + block_lines(p["body"], ind + "    ")
        if p["orelse"]:
            out += [f"{ind}else:"] + block_lines(p["orelse"], ind + "    ")
        return out
    raise ValueError(k)


def block_lines(ps, ind):
    out = []
    for p in ps:
        out.extend(stmt_lines(p, ind))
    return out


def pat_to_str(past, rng=None):
    """Pattern string of a PatAST.  Simple statement sequences are joined with
    ';' (sometimes, when rng says so, with newlines); a compound statement
    whose body is one simple statement is sometimes written on one line."""
    if isinstance(past, dict):
        return expr_str(past)
    if all(_simple(p) for p in past):
        if rng is None or rng.random() < 0.7:
            return " ; ".join(stmt_lines(p)[0] for p in past)
        return "\n".join(stmt_lines(p)[0] for p in past)
    if len(past) == 1 and past[0]["k"] in ("for", "if"):
        p = past[0]
        inline_ok = (
            len(p["body"]) == 1
            and _simple(p["body"][0])
            and not p.get("orelse")
        )
        if inline_ok and (rng is None or rng.random() < 0.7):
            lines = stmt_lines(p)
            return lines[0] + " " + lines[1].strip()
    return "\n".join(block_lines(past, ""))


# --------------------------------------------------------------------------- #
# generalisation and mutation


def _collapse_holes(ps):
    out = []
    for p in ps:
        if p["k"] == "shole" and out and out[-1]["k"] == "shole":
            continue
        out.append(p)
    return out


def holeify_expr(p, rng, pr, top=False):
    k = p["k"]
    if k == "ehole":
        return p
    if not top and rng.random() < pr:
        return EH()
    q = dict(p)
    if k == "read":
        if p["idx"] and rng.random() < 0.3:
            q["idx"] = [EH()]
        else:
            q["idx"] = [holeify_expr(i, rng, pr) for i in p["idx"]]
        if rng.random() < 0.03 and not top and q["idx"]:
            q["name"] = "_"  # `_[i]`; a bare `_` would be an expression hole
    elif k == "usub":
        q["arg"] = holeify_expr(p["arg"], rng, pr)
    elif k == "binop":
        q["l"] = holeify_expr(p["l"], rng, pr)
        q["r"] = holeify_expr(p["r"], rng, pr)
    elif k == "extern":
        if rng.random() < 0.3:
            q["args"] = [EH()]
        else:
            q["args"] = [holeify_expr(a, rng, pr) for a in p["args"]]
    elif k == "stride":
        if rng.random() < 0.3:
            q["dim"] = None
    return q


def holeify_stmt(p, rng, pr):
    k = p["k"]
    q = dict(p)
    nameh = rng.random() < 0.04
    if k in ("assign", "reduce"):
        if p["idx"] and rng.random() < 0.45:
            q["idx"] = [EH()]
        else:
            q["idx"] = [holeify_expr(i, rng, pr) for i in p["idx"]]
        q["rhs"] = EH() if rng.random() < 0.45 else holeify_expr(p["rhs"], rng, pr, top=True)
        if nameh:
            q["name"] = "_"
    elif k == "alloc":
        r = rng.random()
        if r < 0.6:
            q["ty"], q["sizes"] = None, []
        elif r < 0.75:
            q["sizes"] = []
        else:
            q["sizes"] = [holeify_expr(s, rng, pr) for s in p["sizes"]]
            if rng.random() < 0.3:
                q["ty"] = None
        if nameh:
            q["name"] = "_"
    elif k == "call":
        if rng.random() < 0.7:
            q["args"] = "hole"
        else:
            q["args"] = [holeify_expr(a, rng, max(pr, 0.4)) for a in p["args"]]
        if nameh:
            q["f"] = "_"
    elif k == "wconfig":
        q["rhs"] = EH() if rng.random() < 0.6 else holeify_expr(p["rhs"], rng, pr, top=True)
    elif k == "for":
        if rng.random() < 0.65:
            q["lo"], q["hi"] = EH(), EH()
        else:
            q["lo"] = holeify_expr(p["lo"], rng, pr, top=True)
            q["hi"] = holeify_expr(p["hi"], rng, pr, top=True)
            if rng.random() < 0.2:
                q["hi"] = EH()
        q["body"] = holeify_block(p["body"], rng, pr, 0.5)
        if nameh:
            q["iter"] = "_"
    elif k == "if":
        q["cond"] = EH() if rng.random() < 0.5 else holeify_expr(p["cond"], rng, pr, top=True)
        q["body"] = holeify_block(p["body"], rng, pr, 0.45)
        if p["orelse"]:
            r = rng.random()
            if r < 0.3:
                q["orelse"] = []
            else:
                q["orelse"] = holeify_block(p["orelse"], rng, pr, 0.4)
    return q


def holeify_block(ps, rng, pr, p_all):
    if rng.random() < p_all:
        return [SH()]
    out = []
    for p in ps:
        if rng.random() < 0.2:
            out.append(SH())
        else:
            out.append(holeify_stmt(p, rng, pr))
    return _collapse_holes(out)


def holeify_top(past, rng, pr):
    """generalise a top-level pattern; never returns an all-hole pattern"""
    if isinstance(past, dict):
        q = holeify_expr(past, rng, pr, top=True)
        return q
    for _ in range(8):
        out = []
        for p in past:
            if len(past) > 1 and rng.random() < 0.2:
                out.append(SH())
            else:
                out.append(holeify_stmt(p, rng, pr))
        out = _collapse_holes(out)
        if any(p["k"] != "shole" for p in out):
            return out
    return [holeify_stmt(p, rng, pr) for p in past]


def _nodes(past, acc, kind="s"):
    """collect (node, kind) of every PatAST node"""
    if isinstance(past, list):
        for p in past:
            _nodes(p, acc)
        return acc
    acc.append(past)
    k = past["k"]
    for key in ("idx", "args", "sizes", "body", "orelse"):
        v = past.get(key)
        if isinstance(v, list):
            for x in v:
                _nodes(x, acc)
    for key in ("rhs", "cond", "lo", "hi", "arg", "l", "r"):
        v = past.get(key)
        if isinstance(v, dict):
            _nodes(v, acc)
    return acc


_ARITH = ["+", "-", "*", "/"]
_CMP = ["<", ">", "<=", ">=", "=="]
_LOGIC = ["and", "or"]


def mutate(past, rng, names):
    """Change one leaf of (a deep copy of) the pattern.  Returns (past, what) or
    (None, None) when nothing could be changed."""
    past = copy.deepcopy(past)
    nodes = _nodes(past, [])
    rng.shuffle(nodes)

    def other(x, pool):
        c = [y for y in pool if y != x]
        return c[rng.randrange(len(c))] if c else None

    for n in nodes:
        if n["k"] == "stride" and n["dim"] is not None:
            n["dim"] = 1 - n["dim"] if n["dim"] in (0, 1) else 0
            return past, "stride_dim"
    for n in nodes:
        k = n["k"]
        if k in ("read", "assign", "reduce", "alloc", "stride") and n.get("name") not in (None, "_"):
            if k in ("assign", "reduce") and rng.random() < 0.3:
                n["k"] = "reduce" if k == "assign" else "assign"
                return past, "assign_vs_reduce"
            o = other(n["name"], names + ["qq"])
            if o:
                n["name"] = o
                return past, "rename"
        elif k == "for" and n["iter"] != "_":
            o = other(n["iter"], ["i", "j", "k", "ii", "io", "qq"])
            n["iter"] = o
            return past, "rename_iter"
        elif k == "const" and isinstance(n["val"], (int, float)) and not isinstance(n["val"], bool):
            n["val"] = n["val"] + (1 if isinstance(n["val"], int) else 0.25)
            return past, "const"
        elif k == "binop":
            for pool in (_ARITH, _CMP, _LOGIC):
                if n["op"] in pool:
                    n["op"] = other(n["op"], pool)
                    return past, "operator"
        elif k in ("rconfig", "wconfig"):
            n["field"] = "b" if n["field"] == "a" else "a"
            return past, "config_field"
        elif k == "call" and n["f"] != "_":
            n["f"] = other(n["f"], ["sub_copy", "sub_acc", "qq"])
            return past, "rename_call"
        elif k == "extern" and n["f"] != "_":
            arity = {"sin": 1, "relu": 1, "fmaxf": 2, "select": 4}
            same = [f for f, a in arity.items() if a == arity.get(n["f"]) and f != n["f"]]
            if same:
                n["f"] = same[rng.randrange(len(same))]
                return past, "rename_extern"
        elif k == "pass":
            continue
    return None, None


def has_holes(past):
    return any(n["k"] in ("ehole", "shole") for n in _nodes(past, [])) or any(
        n.get("name") == "_" or n.get("iter") == "_" or n.get("f") == "_"
        or n.get("args") == "hole" or (n["k"] == "stride" and n["dim"] is None)
        or (n["k"] == "alloc" and not n.get("sizes") and n.get("ty") is None)
        for n in _nodes(past, [])
    )


def has_shole_in_seq(past):
    """a statement hole next to other statements (not a lone-hole body)"""

    def chk(ps):
        if len(ps) > 1 and any(p["k"] == "shole" for p in ps):
            return True
        for p in ps:
            for key in ("body", "orelse"):
                if isinstance(p.get(key), list) and chk(p[key]):
                    return True
        return False

    return isinstance(past, list) and chk(past)


def pattern_class(past, mutated=None):
    if isinstance(past, dict):
        c = "expr_" + past["k"]
        if has_holes(past):
            c += "_hole"
    else:
        if len(past) == 1:
            c = "stmt_" + past[0]["k"]
        else:
            c = "stmt_seq"
        if has_shole_in_seq(past):
            c += "_shole"
        elif has_holes(past):
            c += "_hole"
    if mutated:
        c += "_mut"
    return c


# --------------------------------------------------------------------------- #
# fixed corpus: hand-written programs that every run visits (shard 0), so that
# each construct of the pattern language is met whatever the random stream does

CORPUS = [
    HEADER
    + """@proc
def main(n: size, m: size, x: f32[n, m], y: f32[n, m], z: f32[n]):
    assert n > 4
    assert m > 4
    t: f32
    t = 0.0
    Cfg.a = 3.0
    for i in seq(0, n):
        sub_copy(m, x[i, 0:m], y[i, :])
        w = x[i, 0:4]
        w[0] = -t
        for j in seq(0, m):
            x[i, j] = sin(y[i, j]) * 2.0 + Cfg.a
            if j < 3:
                z[i] += x[i, j]
                pass
            else:
                z[i] = select(0.0, 1.0, 2.0, 3.0)
    if stride(x, 1) == 1:
        t = 1.0
    if stride(x, 0) == 1:
        t = 2.0
    b: f32[n + 1]
    for i in seq(1, n):
        b[i] = -3.0
""",
    HEADER
    + """@proc
def main(n: size, x: f32[n], y: f32[16]):
    assert n >= 8
    for i in seq(0, n):
        x[i] = 0.0
    for i in seq(0, 4):
        t: f32
        t = y[i]
        for i in seq(0, 4):
            y[i] += t
            y[i + 4] = t
        t = 1.0
        pass
    if n > 9:
        for j in seq(0, 4):
            t: f32[4]
            t[j] = y[2 * j]
            t[j] += 1.0
    else:
        pass
        x[0] = 1.0
        x[0] = 1.0
        x[1] = fmaxf(x[0], -x[1])
    for i in seq(0, n):
        x[i] += 1.0
""",
]
