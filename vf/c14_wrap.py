"""C14 machinery: automatic wrappers around `@instr` procedures, operand
generation, execution (exo compile -> gcc+ASan/UBSan vs reference interpreter on
the instruction's *body*) and a full-buffer comparison.

A wrapper is Exo *source text*:

    @proc
    def w_<instr>(<ctl args>, <one dense DRAM argument per operand>):
        asserts for the generated index/size arguments
        <reg>_r : T[lead.., w] @ AVX2|AVX512          (one array per register operand)
        harness loads of every row of every register array from <reg>_io
        <instr>(<window placements>)                    <- the instruction under test
        harness stores of every row of every register array back to <reg>_io

Direct element access to AVX2/AVX512 is forbidden by those memories
(can_read() is False, write() raises), so the harness moves data with the
library's own plain load/store instructions of that register kind; they are
validated first by a DRAM -> register -> DRAM round trip (see C14.py).
"""

import random
import re
from fractions import Fraction

from exo.API import Procedure
from exo.core.LoopIR import LoopIR, T

from . import cbuild
from .gen_input import InputSpec, eval_expr
from .refinterp import Interp, POISON

PLATFORM_MODULE = "exo.platforms.x86"

_SRC_T = {
    "F32": "f32",
    "F64": "f64",
    "F16": "f16",
    "INT8": "i8",
    "UINT8": "ui8",
    "UINT16": "ui16",
    "INT32": "i32",
    "Num": "f32",  # R: the wrapper instantiates it at f32
}
_INT_RANGE = {"i8": (-128, 127), "ui8": (0, 255), "ui16": (0, 65535), "i32": (-(2**31), 2**31 - 1)}


class Unwrappable(Exception):
    """the instruction cannot be wrapped automatically (reason is reported, never dropped)"""


# ----------------------------------------------------------------------------
# host
def cpu_flags():
    try:
        txt = open("/proc/cpuinfo").read()
    except OSError:
        return set()
    m = re.search(r"^flags\s*:\s*(.*)$", txt, re.M)
    return set(m.group(1).split()) if m else set()


def isa_needs(c_instr, mems):
    """CPU feature flags the expansion needs (coarse, from the intrinsic names and memories)"""
    need = set()
    txt = c_instr
    if "_mm512" in txt or "__m512" in txt or "__mmask" in txt or "AVX512" in mems:
        need |= {"avx512f"}
    if "_mm256" in txt or "__m256" in txt or "AVX2" in mems:
        need |= {"avx", "avx2"}
    if re.search(r"_mm(256|512)?_\w*f(n)?m(add|sub)", txt):
        need |= {"fma"} if "_mm512" not in txt else set()
    if re.search(r"cvtph|cvtps_ph", txt):
        need |= {"f16c"}
    if re.search(r"_mm_prefetch", txt):
        need |= {"sse"}
    if re.search(r"_mm_\w+_(ps|ss)\b", txt):
        need |= {"sse"}
    if re.search(r"_mm512_\w*(epi8|epi16|epu8|epu16)", txt):
        need |= {"avx512bw"}
    return need


def isa_class(need):
    if any(f.startswith("avx512") for f in need):
        return "AVX512"
    if "avx" in need or "avx2" in need:
        return "AVX2"
    return "SSE/other"


# ----------------------------------------------------------------------------
# analysis of one instruction
class ArgInfo:
    def __init__(self):
        self.name = None
        self.kind = None  # ctl | reg | dram | scalar
        self.ctl_type = None  # size | index | bool
        self.bt = None  # f32, ...
        self.mem = None
        self.shape = None  # list of LoopIR exprs
        self.shape_src = None  # list of str
        self.width = None  # reg: constant width
        self.unit_stride = set()  # dims with an asserted stride == 1


class InstrInfo:
    def __init__(self):
        self.name = None
        self.c_instr = None
        self.args = []
        self.need = set()
        self.isa = None
        self.features = []
        self.feature = None
        self.divisors = set()
        self.const_div = {}  # operand divided by a constant in the body -> the constant
        self.written = set()
        self.ctl_domain = []  # list of {ctlname: value}
        self.ctl_range = {}  # ctlname -> (lo, hi) when the domain is a box of contiguous ranges
        self.unbounded = []  # control arguments without an upper bound among the assertions
        self.line = None


def discover(modname=PLATFORM_MODULE):
    """[(name, Procedure)] of every @instr of the platform module, in definition order"""
    import importlib

    mod = importlib.import_module(modname)
    out = []
    for name, p in vars(mod).items():
        if isinstance(p, Procedure) and p._loopir_proc.instr is not None:
            out.append((name, p))
    return out


def _walk_expr(e, f):
    f(e)
    if isinstance(e, LoopIR.BinOp):
        _walk_expr(e.lhs, f)
        _walk_expr(e.rhs, f)
    elif isinstance(e, LoopIR.USub):
        _walk_expr(e.arg, f)
    elif isinstance(e, LoopIR.Extern):
        for a in e.args:
            _walk_expr(a, f)
    elif isinstance(e, LoopIR.Read):
        for a in e.idx:
            _walk_expr(a, f)


def _names_in(e):
    out = set()

    def f(x):
        if isinstance(x, (LoopIR.Read, LoopIR.StrideExpr)):
            out.add(x.name)

    _walk_expr(e, f)
    return out


def analyse(name, proc):
    ir = proc._loopir_proc
    info = InstrInfo()
    info.name = name
    info.c_instr = ir.instr.c_instr
    try:
        info.line = int(ir.srcinfo.lineno)
    except Exception:
        info.line = None
    byname = {}
    for a in ir.args:
        ai = ArgInfo()
        ai.name = str(a.name)
        ai.sym = a.name
        t = a.type
        ai.mem = a.mem.name() if a.mem is not None else "DRAM"
        memcls = a.mem
        if isinstance(t, T.Size):
            ai.kind, ai.ctl_type = "ctl", "size"
        elif isinstance(t, T.Index):
            ai.kind, ai.ctl_type = "ctl", "index"
        elif isinstance(t, T.Bool):
            ai.kind, ai.ctl_type = "ctl", "bool"
        elif isinstance(t, (T.Int, T.Stride)):
            raise Unwrappable(f"control argument {ai.name} of type {t}")
        elif isinstance(t, T.Tensor):
            btn = type(t.type).__name__
            if btn not in _SRC_T:
                raise Unwrappable(f"operand {ai.name}: precision {t.type}")
            ai.bt = _SRC_T[btn]
            ai.shape = list(t.hi)
            ai.shape_src = [str(h) for h in t.hi]
            is_reg = memcls is not None and not memcls.can_read()
            if len(ai.shape) != 1:
                raise Unwrappable(f"operand {ai.name} has rank {len(ai.shape)} (only rank-1 operands are wrapped)")
            if is_reg:
                if not isinstance(ai.shape[-1], LoopIR.Const):
                    raise Unwrappable(f"register operand {ai.name} has a non-constant width")
                ai.kind = "reg"
                ai.width = int(ai.shape[-1].val)
            else:
                ai.kind = "dram"
        elif t.is_real_scalar():
            btn = type(t).__name__
            if btn not in _SRC_T:
                raise Unwrappable(f"scalar {ai.name}: precision {t}")
            ai.bt = _SRC_T[btn]
            if memcls is not None and not memcls.can_read():
                raise Unwrappable(f"scalar {ai.name} in memory {ai.mem}")
            ai.kind = "scalar"
        else:
            raise Unwrappable(f"argument {ai.name} of type {t}")
        info.args.append(ai)
        byname[a.name] = ai

    # predicates: stride(a, d) == 1 or pure control predicates
    ctl_preds = []
    for p in ir.preds:
        if (
            isinstance(p, LoopIR.BinOp)
            and p.op == "=="
            and isinstance(p.lhs, LoopIR.StrideExpr)
            and isinstance(p.rhs, LoopIR.Const)
            and p.rhs.val == 1
            and p.lhs.name in byname
        ):
            byname[p.lhs.name].unit_stride.add(p.lhs.dim)
            continue
        has_stride = []
        _walk_expr(p, lambda x: has_stride.append(1) if isinstance(x, LoopIR.StrideExpr) else None)
        if has_stride:
            raise Unwrappable(f"stride predicate of an unsupported form: {p}")
        nm = _names_in(p)
        if not all(n in byname and byname[n].kind == "ctl" for n in nm):
            raise Unwrappable(f"predicate over non-control arguments: {p}")
        ctl_preds.append(p)

    # the joint domain of the control arguments by enumeration
    ctls = [a for a in info.args if a.kind == "ctl"]
    # sizes: every value up to 24, then the neighbours of C integer widths (an unbounded size
    # argument meets shift/width limits of the expansion there)
    cand = {"size": list(range(1, 25)) + [31, 32, 33, 63, 64], "index": list(range(0, 25)) + [31, 32, 33, 63, 64], "bool": [False, True]}
    if len(ctls) > 2:
        raise Unwrappable("more than two control arguments")
    assignments = [{}]
    for c in ctls:
        assignments = [dict(a, **{c.name: v}) for a in assignments for v in cand[c.ctl_type]]
    dom = []
    for asg in assignments:
        env = {s_: asg[ai_.name] for s_, ai_ in byname.items() if ai_.kind == "ctl"}
        try:
            ok = all(eval_expr(p, env) is True for p in ctl_preds)
        except Exception:
            ok = False
        if not ok:
            continue
        # shapes that depend on control values must stay positive and small
        good = True
        for a in info.args:
            if a.kind in ("dram",):
                try:
                    ext = [eval_expr(h, env) for h in a.shape]
                except Exception:
                    good = False
                    break
                if any((not isinstance(x, int)) or x < 1 or x > 64 for x in ext):
                    good = False
                    break
        if good:
            dom.append(asg)
    if ctls and not dom:
        raise Unwrappable("no control-argument values satisfy the assertions (searched 1..64)")
    info.ctl_domain = dom
    for c in ctls:
        if c.ctl_type == "bool":
            continue
        vals = sorted({a[c.name] for a in dom})
        allowed = [v for v in cand[c.ctl_type] if vals[0] <= v <= vals[-1]]
        if vals == allowed:
            # every candidate between the extremes is permitted: treat as the range [lo, hi]
            info.ctl_range[c.name] = (vals[0], vals[-1])
            if vals[-1] == cand[c.ctl_type][-1]:
                info.unbounded.append(c.name)
    if len(ctls) == 2:
        # box check: the domain must be the product of the per-argument ranges for "arg" mode
        n = 1
        for c in ctls:
            n *= len({a[c.name] for a in dom})
        if n != len(dom):
            info.ctl_range = {}

    # body: features, divisors, written operands
    feats = set()
    mems = {a.mem for a in info.args}
    ctl_syms = {s for s in byname if byname[s].kind == "ctl"}

    def small(sym):
        a = byname.get(sym)
        if a is None:
            return False
        if a.kind == "scalar":
            return True
        return a.kind in ("dram", "reg") and len(a.shape) == 1 and isinstance(a.shape[0], LoopIR.Const) and a.shape[0].val == 1

    def expr(e, in_loop, dst):
        def f(x):
            if isinstance(x, LoopIR.BinOp):
                if x.op in ("-", "/"):
                    feats.add("operand_order")
                if x.op == "/" and isinstance(x.rhs, LoopIR.Const) and x.rhs.val not in (0, 1):
                    for n in _names_in(x.lhs):
                        if n in byname and byname[n].kind in ("reg", "dram", "scalar"):
                            info.const_div[byname[n].name] = x.rhs.val
                if x.op == "/":
                    for n in _names_in(x.rhs):
                        if n in byname and byname[n].kind in ("reg", "dram", "scalar"):
                            info.divisors.add(byname[n].name)
            elif isinstance(x, LoopIR.USub):
                feats.add("negate")
            elif isinstance(x, LoopIR.Extern):
                fn = x.f.name()
                feats.add("operand_order" if fn == "select" else "threshold")
                if fn == "select":
                    feats.add("threshold")
            elif isinstance(x, LoopIR.Read) and x.name in byname:
                a = byname[x.name]
                if in_loop and small(x.name) and not small(dst):
                    feats.add("broadcast")
                if a.bt and byname[dst].bt and a.bt != byname[dst].bt:
                    feats.add("convert")

        _walk_expr(e, f)

    def stmts(body, in_loop):
        for s in body:
            if isinstance(s, (LoopIR.Assign, LoopIR.Reduce)):
                if s.name not in byname:
                    raise Unwrappable("body writes a local buffer")
                info.written.add(byname[s.name].name)
                if isinstance(s, LoopIR.Reduce):
                    feats.add("accumulate")
                    if in_loop and small(s.name):
                        feats.add("reduce_lanes")
                expr(s.rhs, in_loop, s.name)
            elif isinstance(s, LoopIR.For):
                stmts(s.body, True)
            elif isinstance(s, LoopIR.If):
                if _names_in(s.cond) & ctl_syms:
                    feats.add("mask_lanes")
                stmts(s.body, in_loop)
                stmts(s.orelse, in_loop)
            elif isinstance(s, LoopIR.Pass):
                pass
            else:
                raise Unwrappable(f"body statement {type(s).__name__}")

    stmts(ir.body, False)
    if not feats:
        feats.add("no_effect" if not info.written else "lanes")
    info.features = sorted(feats)
    info.feature = "+".join(sorted(feats))
    info.need = isa_needs(info.c_instr, mems)
    info.isa = isa_class(info.need)
    return info


def reg_kind(a):
    return f"{a.mem}:{a.bt}:{a.width}"


def find_harness(infos, procs):
    """register kind -> {"load": (name, regpos, drampos), "store": (...)} : plain full-width copies"""
    out = {}
    for info in infos:
        ir = procs[info.name]._loopir_proc
        if len(info.args) != 2:
            continue
        regs = [a for a in info.args if a.kind == "reg"]
        drams = [a for a in info.args if a.kind == "dram"]
        if len(regs) != 1 or len(drams) != 1:
            continue
        r, d = regs[0], drams[0]
        if not (isinstance(d.shape[0], LoopIR.Const) and int(d.shape[0].val) == r.width and d.bt == r.bt):
            continue
        # (the harness itself always uses these copies at unit stride, so their own stride
        # assertions are not part of what makes them usable)
        body = ir.body
        if len(body) != 1 or not isinstance(body[0], LoopIR.For):
            continue
        lp = body[0]
        if len(lp.body) != 1 or not isinstance(lp.body[0], LoopIR.Assign):
            continue
        s = lp.body[0]
        if not (isinstance(s.rhs, LoopIR.Read) and len(s.idx) == 1 and len(s.rhs.idx) == 1):
            continue
        if not (isinstance(s.idx[0], LoopIR.Read) and s.idx[0].name == lp.iter and isinstance(s.rhs.idx[0], LoopIR.Read) and s.rhs.idx[0].name == lp.iter):
            continue
        if not (isinstance(lp.lo, LoopIR.Const) and lp.lo.val == 0 and isinstance(lp.hi, LoopIR.Const) and lp.hi.val == r.width):
            continue
        names = [a.name for a in info.args]
        regpos, drampos = names.index(r.name), names.index(d.name)
        k = reg_kind(r)
        role = "load" if str(s.name) == r.name else "store"
        out.setdefault(k, {})
        # prefer the first definition of each role
        out[k].setdefault(role, (info.name, regpos, drampos))
    return out


# ----------------------------------------------------------------------------
# placements (all choices that shape the wrapper; JSON-able)
def gen_placement(info, rng, pidx):
    """pidx 0: plain (no leading register dims, 1-D DRAM operands at a run-time offset,
    size arguments as run-time arguments); pidx 1: literal everything (leading dims,
    2-D DRAM operands incl. non-unit stride where no assertion forbids it, literal size);
    pidx >= 2: random mixture."""
    wide = pidx == "hw"
    if wide:
        # like pidx 1, but one register operand lives in the upper half of a register array
        # whose innermost extent is twice the vector width: the memory has to refuse the
        # allocation; if it does not, the compiled instruction is compared as usual
        pidx = 1
    hostile = pidx == "hs"
    if hostile:
        # like pidx 1, but one DRAM operand whose unit stride is asserted is placed on a
        # column (stride > 1): exo has to refuse the call site; if it does not, the compiled
        # instruction is compared as usual
        pidx = 1
    pl = {"pidx": "hs" if hostile else ("hw" if wide else pidx), "ctl": {}, "ops": {}}
    regs_ = [a.name for a in info.args if a.kind == "reg"]
    wide_victim = rng.choice(regs_) if (wide and regs_) else None
    forbidden = [a.name for a in info.args if a.kind == "dram" and 0 in a.unit_stride]
    victim = rng.choice(forbidden) if (hostile and forbidden) else None
    ctls = [a for a in info.args if a.kind == "ctl"]
    can_arg = all(c.name in info.ctl_range for c in ctls if c.ctl_type != "bool")
    if pidx == 0:
        ctl_mode = "arg" if can_arg else "lit"
    elif pidx == 1:
        ctl_mode = "lit"
    else:
        ctl_mode = "arg" if (can_arg and rng.random() < 0.6) else "lit"
    lit = rng.choice(info.ctl_domain) if info.ctl_domain else {}
    if pidx >= 2 and info.ctl_domain and rng.random() < 0.4:
        # boundary values of the permitted set
        lit = rng.choice([info.ctl_domain[0], info.ctl_domain[-1]])
    for c in ctls:
        pl["ctl"][c.name] = {"mode": ctl_mode, "lit": lit.get(c.name)}
    for a in info.args:
        if a.kind == "reg":
            if pidx == 0:
                lead, dyn, whole = [], False, rng.random() < 0.5
            elif pidx == 1:
                lead, dyn, whole = [rng.choice([2, 3])], False, False
                if rng.random() < 0.4:
                    lead.append(rng.choice([2, 3]))
            else:
                nl = rng.choice([0, 1, 1, 2])
                lead = [rng.choice([2, 3, 4]) for _ in range(nl)]
                dyn = rng.random() < 0.5
                whole = nl == 0 and rng.random() < 0.5
            idx = [rng.randrange(n) for n in lead]
            pl["ops"][a.name] = {"lead": lead, "idx": idx, "dyn": dyn, "whole": whole}
            if a.name == wide_victim:
                pl["ops"][a.name]["wide"] = 2
        elif a.kind == "dram":
            can_col = 0 not in a.unit_stride
            if pidx == 0:
                lay, dyn = "1d", True
            elif pidx == 1:
                lay, dyn = ("col" if (can_col or a.name == victim) else "row"), False
            else:
                lay = rng.choice(["1d", "row", "row"] + (["col", "col"] if can_col else []))
                dyn = rng.random() < 0.5
            pl["ops"][a.name] = {
                "lay": lay,
                "dyn": dyn,
                "margin": rng.choice([3, 5, 8, 9]),
                "other": rng.choice([2, 3, 4]),  # extent of the second dimension (rows, or columns for "col")
                "off": rng.random(),  # fraction of the slack used as the literal offset
                "oidx": rng.random(),
            }
        elif a.kind == "scalar":
            if pidx == 0:
                mode = "local"
            elif pidx == 1:
                mode = "arg"
            else:
                mode = rng.choice(["local", "arg"])
            pl["ops"][a.name] = {"mode": mode, "len": rng.choice([2, 3, 5]), "pos": rng.random()}
    return pl


def _ctl_env(info, values):
    return {a.sym: values[a.name] for a in info.args if a.kind == "ctl"}


def build_wrapper(info, pl, harness, modname=PLATFORM_MODULE):
    """returns (source text, meta).  meta["wargs"]: the wrapper's argument list with the
    role of every argument (what gen_inputs must produce)."""
    for a in info.args:
        if a.kind == "reg" and not ("load" in harness.get(reg_kind(a), {}) and "store" in harness.get(reg_kind(a), {})):
            raise Unwrappable(f"no plain load/store instruction pair for register kind {reg_kind(a)}")
    used = set()

    def fresh(n):
        base = n
        k = 0
        while n in used:
            k += 1
            n = f"{base}{k}"
        used.add(n)
        return n

    for a in info.args:
        used.add(a.name)
    wargs = []  # dicts: name, role, ...
    windows = {}  # operand -> where its window lies inside the wrapper argument (for diagnosis)
    asserts = []
    allocs = []
    pre = []
    post = []
    call_args = []
    ctl_mode = {c: v["mode"] for c, v in pl["ctl"].items()}
    ctl_lit = {c: v["lit"] for c, v in pl["ctl"].items()}
    # the largest extents over the permitted control values
    dom = info.ctl_domain or [{}]
    if any(m == "lit" for m in ctl_mode.values()):
        dom = [d for d in dom if all(d[c] == ctl_lit[c] for c in ctl_mode if ctl_mode[c] == "lit")] or dom

    def ctl_src(name):
        return name if ctl_mode.get(name) == "arg" else str(ctl_lit[name])

    for a in info.args:
        if a.kind == "ctl":
            if ctl_mode[a.name] == "arg":
                wargs.append({"name": a.name, "role": "ctl", "type": a.ctl_type, "for": a.name})
                if a.ctl_type != "bool":
                    lo, hi = info.ctl_range[a.name]
                    if not (a.ctl_type == "size" and lo <= 1):
                        asserts.append(f"{a.name} >= {lo}")
                    asserts.append(f"{a.name} <= {hi}")
    for a in info.args:
        op = pl["ops"].get(a.name)
        if a.kind == "ctl":
            call_args.append(ctl_src(a.name))
        elif a.kind == "reg":
            hk = harness[reg_kind(a)]
            rname, ioname = fresh(a.name + "_r"), fresh(a.name + "_io")
            lead = list(op["lead"])
            wide_k = int(op.get("wide", 1))
            shape = lead + [a.width * wide_k]
            shp = ", ".join(str(s) for s in shape)
            wargs.append({"name": ioname, "role": "io", "bt": a.bt, "shape": shape, "for": a.name})
            allocs.append(f"{rname}: {a.bt}[{shp}] @ {a.mem}")
            loopv = [fresh(f"k{d}_{a.name}") for d in range(len(lead))]
            ix = "".join(v + ", " for v in loopv)
            rwin = f"{rname}[{ix}0:{a.width}]"
            dwin = f"{ioname}[{ix}0:{a.width}]"

            def harness_call(h, rwin=rwin, dwin=dwin):
                nm, rp, dp = h
                args = [None, None]
                args[rp], args[dp] = rwin, dwin
                return f"{nm}({args[0]}, {args[1]})"

            def nest(line, loopv=loopv, lead=lead):
                out = []
                ind = ""
                for v, n in zip(loopv, lead):
                    out.append(f"{ind}for {v} in seq(0, {n}):")
                    ind += "    "
                out.append(ind + line)
                return out

            pre += nest(harness_call(hk["load"]))
            post += nest(harness_call(hk["store"]))
            for half in range(1, wide_k):
                rw = f"{rname}[{ix}{half * a.width}:{(half + 1) * a.width}]"
                dw = f"{ioname}[{ix}{half * a.width}:{(half + 1) * a.width}]"
                pre += nest(harness_call(hk["load"], rw, dw))
                post += nest(harness_call(hk["store"], rw, dw))
            w_lo = (wide_k - 1) * a.width
            # the window handed to the instruction
            if not lead and op["whole"] and wide_k == 1:
                call_args.append(rname)
                windows[a.name] = {"buf": ioname, "shape": shape, "pts": {}, "wdim": 0, "lo": ["lit", 0]}
            else:
                idxs = []
                wpts = {}
                for d, (n, i) in enumerate(zip(lead, op["idx"])):
                    if op["dyn"]:
                        iv = fresh(f"i{d}_{a.name}")
                        wargs.append({"name": iv, "role": "idx", "type": "index", "lo": 0, "hi": n - 1, "for": a.name})
                        asserts += [f"{iv} >= 0", f"{iv} < {n}"]
                        idxs.append(iv)
                        wpts[str(d)] = ["arg", iv]
                    else:
                        idxs.append(str(i))
                        wpts[str(d)] = ["lit", i]
                windows[a.name] = {"buf": ioname, "shape": shape, "pts": wpts, "wdim": len(lead), "lo": ["lit", w_lo]}
                call_args.append(f"{rname}[{''.join(i + ', ' for i in idxs)}{w_lo}:{w_lo + a.width}]")
        elif a.kind == "dram":
            mname = fresh(a.name + "_m")
            exts = []
            for d in dom:
                exts.append(eval_expr(a.shape[0], _ctl_env(info, d)))
            nmax = max(exts)
            n_src = a.shape_src[0]
            for c in ctl_mode:
                if ctl_mode[c] == "lit":
                    n_src = re.sub(r"\b" + re.escape(c) + r"\b", str(ctl_lit[c]), n_src)
            n_is_const = isinstance(a.shape[0], LoopIR.Const) or all(m == "lit" for m in ctl_mode.values())
            if n_is_const:
                n_src = str(nmax)
            L = nmax + op["margin"]
            lay = op["lay"]
            other = op["other"]
            oi = min(other - 1, int(op["oidx"] * other))
            if op["dyn"]:
                ov = fresh(f"o_{a.name}")
                # 0 <= o and o + n <= L
                wargs.append({"name": ov, "role": "off", "type": "index", "L": L, "n": a.shape[0] if not n_is_const else None, "nconst": nmax if n_is_const else None, "for": a.name})
                asserts += [f"{ov} >= 0", f"{ov} + {n_src} <= {L}"]
                lo_src = ov
                hi_src = f"{ov} + {n_src}"
                wlo = ["arg", ov]
            else:
                o = min(L - nmax, int(op["off"] * (L - nmax + 1)))
                lo_src = str(o)
                hi_src = str(o + nmax) if n_is_const else f"{o} + {n_src}"
                wlo = ["lit", o]
            if lay == "1d":
                shape = [L]
                win = f"{mname}[{lo_src}:{hi_src}]"
            elif lay == "row":
                shape = [other, L]
                win = f"{mname}[{oi}, {lo_src}:{hi_src}]"
            else:  # col: stride of the window = other
                shape = [L, other]
                win = f"{mname}[{lo_src}:{hi_src}, {oi}]"
            wargs.append({"name": mname, "role": "mem", "bt": a.bt, "shape": shape, "for": a.name})
            call_args.append(win)
            windows[a.name] = {
                "buf": mname,
                "shape": shape,
                "pts": {} if lay == "1d" else ({"0": ["lit", oi]} if lay == "row" else {"1": ["lit", oi]}),
                "wdim": 1 if lay == "row" else 0,
                "lo": wlo,
            }
        elif a.kind == "scalar":
            if op["mode"] == "arg":
                sname = fresh(a.name + "_s")
                wargs.append({"name": sname, "role": "scalar", "bt": a.bt, "shape": [], "for": a.name})
                call_args.append(sname)
                windows[a.name] = {"buf": sname, "shape": [], "pts": {}, "wdim": 0, "lo": ["lit", 0]}
            else:
                mname, tname = fresh(a.name + "_m"), fresh(a.name + "_t")
                n = op["len"]
                k = min(n - 1, int(op["pos"] * n))
                wargs.append({"name": mname, "role": "mem", "bt": a.bt, "shape": [n], "for": a.name})
                allocs.append(f"{tname}: {a.bt}")
                pre.append(f"{tname} = {mname}[{k}]")
                post.append(f"{mname}[{k}] = {tname}")
                call_args.append(tname)
                windows[a.name] = {"buf": mname, "shape": [n], "pts": {}, "wdim": 0, "lo": ["lit", k]}
    # harness self-check: one extra register array per register kind that the instruction never sees,
    # loaded before and stored (rows reversed) after the call: validates the load/store pair in this binary
    kinds = []
    for a in info.args:
        if a.kind == "reg" and reg_kind(a) not in kinds:
            kinds.append(reg_kind(a))
    if not kinds and pl["pidx"] >= 1 and harness:
        # an instruction without register operands: placement 0 is built as it stands (its C file has
        # only what the instruction itself brings), later placements share a file with register code
        ks = sorted(k for k, h in harness.items() if "load" in h and "store" in h)
        if ks:
            kinds.append(ks[0])
    hc_pre, hc_post = [], []
    for q, k in enumerate(kinds):
        mem, bt, w = k.split(":")
        w = int(w)
        hk = harness[k]
        rn, inn, outn, kv = fresh(f"hc{q}_r"), fresh(f"hc{q}_in"), fresh(f"hc{q}_out"), fresh(f"hc{q}_k")
        allocs.append(f"{rn}: {bt}[2, {w}] @ {mem}")
        wargs.append({"name": inn, "role": "hc", "bt": bt, "shape": [2, w + 3], "for": "__harness__", "kind": k})
        wargs.append({"name": outn, "role": "hc", "bt": bt, "shape": [2, w + 2], "for": "__harness__", "kind": k})

        def hcall(h, rwin, dwin):
            nm, rp, dp = h
            args = [None, None]
            args[rp], args[dp] = rwin, dwin
            return f"{nm}({args[0]}, {args[1]})"

        hc_pre += [f"for {kv} in seq(0, 2):", "    " + hcall(hk["load"], f"{rn}[{kv}, 0:{w}]", f"{inn}[{kv}, 2:{w + 2}]")]
        hc_post += [f"for {kv} in seq(0, 2):", "    " + hcall(hk["store"], f"{rn}[1 - {kv}, 0:{w}]", f"{outn}[{kv}, 1:{w + 1}]")]
    pre = hc_pre + pre
    post = post + hc_post
    pname = f"w_{info.name}_p{pl['pidx']}"
    params = []
    # control arguments first (buffer shapes are constants, but keep exo's usual order)
    order = [w for w in wargs if w["role"] in ("ctl", "idx", "off")] + [w for w in wargs if w["role"] not in ("ctl", "idx", "off")]
    for w in order:
        if w["role"] in ("ctl", "idx", "off"):
            params.append(f"{w['name']}: {w['type']}")
        elif w["shape"]:
            params.append(f"{w['name']}: {w['bt']}[{', '.join(str(s) for s in w['shape'])}] @ DRAM")
        else:
            params.append(f"{w['name']}: {w['bt']} @ DRAM")
    lines = [
        "from __future__ import annotations",
        "from exo import proc, DRAM",
        f"from {modname} import *",
        "",
        "",
        "@proc",
        f"def {pname}({', '.join(params)}):",
    ]
    for s in asserts:
        lines.append(f"    assert {s}")
    for s in allocs:
        lines.append(f"    {s}")
    for s in pre:
        lines.append(f"    {s}")
    lines.append(f"    {info.name}({', '.join(call_args)})")
    for s in post:
        lines.append(f"    {s}")
    src = "\n".join(lines) + "\n"
    meta = {"proc": pname, "wargs": order, "windows": windows, "call": f"{info.name}({', '.join(call_args)})", "ctl_mode": ctl_mode, "ctl_lit": ctl_lit}
    return src, meta


# ----------------------------------------------------------------------------
# operand contents
FLOAT_MODES = ["distinct", "small", "tied", "dyadic", "distinct", "wide", "tied", "small"]
INT_MODES = ["small", "half", "edge", "mul3", "full", "half", "distinct", "edge"]
_POW2 = [Fraction(1, 2), 1, 2, 4, 8, Fraction(1, 4)]


def _float_vals(mode, n, rng, state, divisor, approx_div):
    if divisor:
        if approx_div:
            return [rng.choice([1, 2, 3, 5, 6, 7, -3, -7, 9]) for _ in range(n)]
        return [rng.choice(_POW2) * rng.choice([1, 1, -1]) for _ in range(n)]
    if mode == "distinct":
        base = state["base"]
        vals = list(range(base + 1, base + n + 1))
        rng.shuffle(vals)
        if state["signs"]:
            vals = [v if rng.random() < 0.65 else -v for v in vals]
        state["base"] += n
        return vals
    if mode == "small":
        return [rng.choice([-3, -2, -1, 0, 0, 1, 2, 3]) for _ in range(n)]
    if mode == "tied":
        pool = [-2, -1, Fraction(-1, 2), 0, 0, Fraction(1, 2), 1, 2]
        return [rng.choice(pool) for _ in range(n)]
    if mode == "dyadic":
        out = []
        for _ in range(n):
            f = Fraction(rng.randint(-64, 64), rng.choice([1, 2, 4]))
            out.append(int(f) if f.denominator == 1 else f)
        return out
    # wide
    return [rng.randint(-2000, 2000) for _ in range(n)]


def _int_vals(bt, mode, n, rng, state):
    lo, hi = _INT_RANGE[bt]
    if mode == "small":
        a, b = max(lo, -6), min(hi, 40)
        return [rng.randint(a, b) for _ in range(n)]
    if mode == "half":
        return [rng.randint(lo // 2, hi // 2) for _ in range(n)]
    if mode == "edge":
        pool = [lo, lo + 1, lo + 2, lo + 3, hi, hi - 1, hi - 2, hi // 2, hi // 2 + 1, hi // 3, (2 * hi) // 3, 0, 1, 2, 3, 4, 5, 6]
        pool = [v for v in pool if lo <= v <= hi]
        return [rng.choice(pool) for _ in range(n)]
    if mode == "mul3":
        return [3 * rng.randint((lo + 2) // 3, hi // 3) for _ in range(n)]
    if mode == "distinct":
        base = state["base"]
        vals = [lo + ((base + 1 + i - lo) % (hi - lo + 1)) for i in range(n)]
        rng.shuffle(vals)
        state["base"] += n
        return vals
    return [rng.randint(lo, hi) for _ in range(n)]


def gen_inputs(info, meta, rng, nsets):
    """list of (InputSpec, tags).  Control values cycle through the whole permitted set."""
    wargs = meta["wargs"]
    ctl_args = [w for w in wargs if w["role"] == "ctl"]
    dom = info.ctl_domain or [{}]
    lit = {c: v for c, v in meta["ctl_lit"].items() if meta["ctl_mode"].get(c) == "lit"}
    dom = [d for d in dom if all(d[c] == v for c, v in lit.items())] or dom
    n = max(nsets, len(dom)) if ctl_args else nsets
    rot = rng.randrange(8)
    out = []
    dyn_seen = 0
    for j in range(n):
        asg = dom[j % len(dom)]
        fmode = FLOAT_MODES[(j + rot) % len(FLOAT_MODES)]
        imode = INT_MODES[(j + rot) % len(INT_MODES)]
        approx_div = bool(info.divisors) and (j % 4 == 3)
        state = {"base": 0, "signs": rng.random() < 0.6}
        args = []
        for w in wargs:
            role = w["role"]
            if role == "ctl":
                v = asg[w["for"]]
                args.append({"k": "bool" if w["type"] == "bool" else "int", "v": v, "name": w["name"]})
            elif role == "idx":
                v = rng.randint(w["lo"], w["hi"])
                args.append({"k": "int", "v": v, "name": w["name"]})
            elif role == "off":
                nn = w["nconst"] if w["nconst"] is not None else eval_expr(w["n"], _ctl_env(info, asg))
                slack = w["L"] - nn
                # extremes first, then random
                v = [0, slack][dyn_seen % 2] if j < 2 else rng.randint(0, slack)
                dyn_seen += 1
                args.append({"k": "int", "v": v, "name": w["name"]})
            else:
                shape = list(w["shape"])
                size = 1
                for s in shape:
                    size *= s
                bt = w["bt"]
                if bt in _INT_RANGE:
                    vals = _int_vals(bt, imode, size, rng, state)
                else:
                    vals = _float_vals(fmode, size, rng, state, w["for"] in info.divisors, approx_div)
                kdiv = info.const_div.get(w["for"])
                if kdiv and j % 4 != 3:
                    # dividends of a constant divisor: multiples of it keep the quotient exact
                    kq = Fraction(kdiv)
                    if bt in _INT_RANGE and kq.denominator == 1:
                        vals = [(v // int(kq)) * int(kq) for v in vals]
                        lo_, hi_ = _INT_RANGE[bt]
                        vals = [v if lo_ <= v <= hi_ else 0 for v in vals]
                    elif bt not in _INT_RANGE:
                        vals = [v * kq for v in vals]
                        vals = [int(v) if v.denominator == 1 else v for v in vals]
                strides = []
                k = 1
                for s in reversed(shape):
                    strides.append(k)
                    k *= s
                strides.reverse()
                args.append({"k": "buf", "shape": shape, "strides": strides, "off": 0, "data": vals, "name": w["name"]})
        out.append((InputSpec(args, {}), {"fmode": fmode, "imode": imode, "ctl": dict(asg) if ctl_args else {}}))
    return out


# ----------------------------------------------------------------------------
# execution
def compare_full(ir, spec, case_out, interp_vals, exact):
    """every element of every buffer argument; returns list of diffs (all of them)"""
    diffs = []
    for i, (a, sp) in enumerate(zip(ir.args, spec.args)):
        if sp["k"] != "buf":
            continue
        cvals = case_out["bufs"].get(i)
        ivals = interp_vals[i].st.data
        if cvals is None or len(cvals) != len(ivals):
            diffs.append({"arg": str(a.name), "kind": "missing"})
            continue
        for k, (cv, iv) in enumerate(zip(cvals, ivals)):
            if iv is POISON:
                continue
            if isinstance(cv, float):
                if cv != cv or cv in (float("inf"), float("-inf")):
                    diffs.append({"arg": str(a.name), "off": k, "c": repr(cv), "body": str(iv), "init": str(sp["data"][k])})
                    continue
                if exact:
                    if Fraction(cv) != iv:
                        diffs.append({"arg": str(a.name), "off": k, "c": cv, "body": float(iv) if Fraction(float(iv)) == iv else str(iv), "init": str(sp["data"][k])})
                else:
                    fi = float(iv)
                    if abs(cv - fi) > 1e-2 * max(1.0, abs(fi)):
                        diffs.append({"arg": str(a.name), "off": k, "c": cv, "body": fi, "init": str(sp["data"][k]), "approx": True})
            else:
                if exact:
                    if cv != iv:
                        diffs.append({"arg": str(a.name), "off": k, "c": cv, "body": iv if isinstance(iv, int) else str(iv), "init": str(sp["data"][k])})
                else:
                    if abs(cv - float(iv)) > 1.0 + 1e-2 * abs(float(iv)):
                        diffs.append({"arg": str(a.name), "off": k, "c": cv, "body": str(iv), "init": str(sp["data"][k]), "approx": True})
    return diffs


class ExecResult:
    def __init__(self):
        self.status = None  # ok | mismatch | sanitizer | gcc_reject | exo_reject | no_input | driver_error | timeout
        self.detail = None
        self.ninputs = 0  # inputs whose result was compared
        self.nexact = 0
        self.napprox_mismatch = 0
        self.bad = []  # indices (into specs) of exact-class inputs that mismatched
        self.diffs = {}  # index -> diffs
        self.san = []  # [(index into specs, san string, stderr tail)]
        self.unclean = 0
        self.unclean_event = None
        self.c_text = None
        self.builds = 0
        self.compared = []  # indices (into specs) of the inputs whose result was compared


def _line_buffered(drv):
    # a sanitizer abort does not flush stdio: make the cases printed so far survive it
    return drv.replace("int main(void) {", "int main(void) {\n  setvbuf(stdout, NULL, _IOLBF, 0);", 1)


class Prepared:
    """one wrapper ready to be built: exo-compiled alone, inputs run through the interpreter"""

    def __init__(self, proc, specs):
        self.proc = proc
        self.ir = proc._loopir_proc
        self.specs = specs
        self.res = ExecResult()
        self.ins = []  # (index into specs, spec, interpreter argument values after the run, RunResult)
        self.c_text = self.h_text = None
        r = self.res
        try:
            self.c_text, self.h_text = cbuild.compile_exo([proc])
        except Exception as e:
            r.status = "exo_reject"
            r.detail = f"{type(e).__name__}: {str(e)[:500]}"
            return
        r.c_text = self.c_text
        for k, spec in enumerate(specs):
            vals, cfg = spec.materialise()
            res = Interp(exact=True, budget=200000).run(self.ir, vals, cfg)
            if res.clean:
                self.ins.append((k, spec, vals, res))
            else:
                r.unclean += 1
                if r.unclean_event is None:
                    ev = res.first_event()
                    r.unclean_event = ev.as_dict() if ev else {"aborted": res.aborted}
        if not self.ins:
            r.status = "no_input"
            r.detail = str(r.unclean_event)[:400]

    @property
    def ready(self):
        return self.res.status is None


def _absorb(r, ir, remaining, cases):
    """compare the complete cases of one run with the interpreter; returns how many were complete"""
    nbuf = sum(1 for a in remaining[0][1].args if a["k"] == "buf")
    complete = [c for c in cases if len(c["bufs"]) == nbuf]
    for (k, spec, vals, res), co in zip(remaining, complete):
        r.ninputs += 1
        r.compared.append(k)
        if res.exact_ok:
            r.nexact += 1
        d = compare_full(ir, spec, co, vals, res.exact_ok)
        if d:
            if res.exact_ok:
                r.bad.append(k)
                r.diffs[k] = d
            else:
                r.napprox_mismatch += 1
    return len(complete)


def _classify_compile_error(err):
    in_tc = [l for l in err.splitlines() if re.match(r"^t\.[ch]:\d+", l) and "error" in l]
    in_drv = [l for l in err.splitlines() if l.startswith("driver.c:") and "error" in l]
    return "driver_error" if (in_drv and not in_tc) else "gcc_reject"


def run_prepared(p, workdir, keep=False, max_rebuilds=2, start=0):
    """One gcc build and one run for all inputs of one wrapper; after a sanitizer abort at
    input k the inputs after k are run in a further build (at most max_rebuilds times) so
    that one bad input does not hide the others."""
    import shutil

    r = p.res
    if not p.ready:
        return r
    remaining = p.ins[start:]
    try:
        while remaining:
            try:
                drv = _line_buffered(cbuild.gen_driver(p.ir, p.h_text, [x[1] for x in remaining]))
            except (cbuild.BuildError, AssertionError, ValueError) as e:
                r.status = "driver_error"
                r.detail = repr(e)[:300]
                return r
            out = cbuild.build_and_run(p.c_text, p.h_text, drv, workdir)
            r.builds += 1
            if out["status"] == "compile_error":
                r.status = _classify_compile_error(out["stderr"])
                r.detail = out["stderr"][-1800:]
                return r
            if out["status"] == "timeout":
                r.status = "timeout"
                r.detail = out.get("phase")
                return r
            cases, done = cbuild.parse_output(out["stdout"], len(remaining))
            ncomplete = _absorb(r, p.ir, remaining, cases)
            if out["status"] == "ok":
                break
            # sanitizer report / crash while running input number ncomplete
            at = min(ncomplete, len(remaining) - 1)
            r.san.append((remaining[at][0], out["status"], out["stderr"][-2500:]))
            remaining = remaining[at + 1 :]
            if r.builds > max_rebuilds:
                break
        if r.san:
            r.status = "sanitizer"
            r.detail = r.san[0][2]
        else:
            r.status = "mismatch" if r.bad else "ok"
        return r
    finally:
        if not keep:
            shutil.rmtree(workdir, ignore_errors=True)


def execute(proc, specs, workdir, keep=False, max_rebuilds=2):
    """specs: list of InputSpec -> ExecResult (single wrapper)"""
    return run_prepared(Prepared(proc, specs), workdir, keep=keep, max_rebuilds=max_rebuilds)


def _merge_drivers(drvs):
    """several gen_driver() outputs -> one C file whose main runs them one after the other"""
    pre = None
    fns = []
    for j, d in enumerate(drvs):
        head, rest = d.split("int main(void) {", 1)
        if pre is None:
            pre = head
        fns.append(f"static int main_{j}(void) {{" + rest)
    calls = "".join(f'  printf("WRAPPER {j}\\n"); main_{j}();\n' for j in range(len(drvs)))
    return pre + "\n".join(fns) + "\nint main(void) {\n  setvbuf(stdout, NULL, _IOLBF, 0);\n" + calls + "  return 0;\n}\n"


def _split_output(text, n):
    segs = [[] for _ in range(n)]
    cur = None
    for line in text.splitlines():
        if line.startswith("WRAPPER "):
            cur = int(line.split()[1])
        elif cur is not None and cur < n:
            segs[cur].append(line)
    return ["\n".join(s) for s in segs]


def _includes(p):
    return frozenset(re.findall(r"^\s*#\s*include\s*[<\"][^>\"]+[>\"]", p.c_text or "", re.M))


def execute_batch(preps, workdir, max_rebuilds=2):
    """Several wrappers in ONE gcc build (the cost of a build is dominated by <immintrin.h>
    and the sanitizer runtime).  Only wrappers whose own C files have the same #include set
    share a build, so that no wrapper borrows a header from another one.  gcc rejecting the
    batch or a sanitizer abort falls back: the wrapper concerned is built and run alone
    (exactly like `execute`), the others are batched again.  Fills p.res of every Prepared;
    returns the number of gcc builds."""
    groups = {}
    for p in preps:
        if p.ready:
            groups.setdefault(_includes(p), []).append(p)
    builds = 0
    for g, (key, members) in enumerate(groups.items()):
        builds += _execute_group(members, workdir / f"g{g}", max_rebuilds)
    return builds


def _execute_group(preps, workdir, max_rebuilds):
    import shutil

    builds = 0
    pending = [p for p in preps if p.ready]
    guard = 0
    while pending:
        guard += 1
        if len(pending) == 1 or guard > 6:
            for p in pending:
                run_prepared(p, workdir / f"solo{builds}", max_rebuilds=max_rebuilds)
                builds += p.res.builds
            break
        try:
            c_text, h_text = cbuild.compile_exo([p.proc for p in pending])
            drv = _merge_drivers([cbuild.gen_driver(p.ir, h_text, [x[1] for x in p.ins]) for p in pending])
        except Exception:
            for p in pending:
                run_prepared(p, workdir / f"solo{builds}", max_rebuilds=max_rebuilds)
                builds += p.res.builds
            break
        wd = workdir / f"batch{builds}"
        out = cbuild.build_and_run(c_text, h_text, drv, wd, timeout=60)
        builds += 1
        shutil.rmtree(wd, ignore_errors=True)
        if out["status"] == "compile_error":
            err = out["stderr"]
            names = set(re.findall(r"(?:In function|inlined from) [\u2018'`]([\w]+)[\u2019']", err))
            offenders = [p for p in pending if str(p.ir.name) in names]
            if not offenders or _classify_compile_error(err) == "driver_error":
                offenders = list(pending)
            for p in offenders:
                run_prepared(p, workdir / f"solo{builds}", max_rebuilds=max_rebuilds)
                builds += p.res.builds
            pending = [p for p in pending if p not in offenders]
            continue
        if out["status"] == "timeout":
            for p in pending:
                p.res.status = "timeout"
                p.res.detail = "batch " + str(out.get("phase"))
            break
        segs = _split_output(out["stdout"], len(pending))
        crashed = None
        for j, p in enumerate(pending):
            cases, done = cbuild.parse_output(segs[j], len(p.ins))
            if done:
                _absorb(p.res, p.ir, p.ins, cases)
                p.res.status = "mismatch" if p.res.bad else "ok"
                p.res.builds = 0
            else:
                crashed = j
                break
        if out["status"] == "ok" and crashed is None:
            break
        if crashed is None:
            # the report came after the last wrapper finished (leak check at exit, ...): decide alone
            for p in pending:
                p.res.__init__()
                run_prepared(p, workdir / f"solo{builds}", max_rebuilds=max_rebuilds)
                builds += p.res.builds
            break
        p = pending[crashed]
        run_prepared(p, workdir / f"solo{builds}", max_rebuilds=max_rebuilds)
        builds += p.res.builds
        pending = pending[crashed + 1 :]
    return builds


def _dense(shape):
    st, k = [], 1
    for n in reversed(shape):
        st.append(k)
        k *= n
    return list(reversed(st))


def locate(info, meta, spec, diffs):
    """every differing element -> (operand, lane | None, class); class in
    active | inactive | lane | outside_window | unwritten_operand | harness | unknown"""
    ints = {a["name"]: a["v"] for a in spec.args if a["k"] != "buf"}
    ctl = {}
    for c, m in (meta.get("ctl_mode") or {}).items():
        ctl[c] = ints.get(c) if m == "arg" else (meta.get("ctl_lit") or {}).get(c)
    ctls = [a for a in info.args if a.kind == "ctl"]
    masked = "mask_lanes" in info.features and len(ctls) == 1 and ctls[0].ctl_type != "bool"
    bound = ctl.get(ctls[0].name) if masked else None
    bybuf = {}
    for opname, w in (meta.get("windows") or {}).items():
        a = next((x for x in info.args if x.name == opname), None)
        if a is None:
            continue
        if a.kind == "scalar":
            n = 1
        else:
            try:
                n = eval_expr(a.shape[0], {x.sym: ctl[x.name] for x in ctls})
            except Exception:
                n = None
        st = _dense(w["shape"])
        val = lambda t: ints.get(t[1]) if t[0] == "arg" else t[1]
        base = sum(val(t) * st[int(d)] for d, t in w["pts"].items())
        step = st[w["wdim"]] if st else 1
        base += val(w["lo"]) * step
        bybuf.setdefault(w["buf"], []).append((opname, base, step, n))
    hc = {w["name"] for w in meta["wargs"] if w.get("role") == "hc"}
    out = []
    for d in diffs:
        buf, off = d.get("arg"), d.get("off")
        if buf in hc:
            out.append(("__harness__", None, "harness"))
            continue
        hit = None
        for opname, base, step, n in bybuf.get(buf, []):
            if off is None or n is None:
                continue
            q, r = divmod(off - base, step)
            if r == 0 and 0 <= q < n:
                hit = (opname, q)
        if hit is None:
            ops = [x[0] for x in bybuf.get(buf, [])]
            out.append((ops[0] if ops else buf, None, "outside_window" if ops else "unknown"))
            continue
        opname, lane = hit
        if opname not in info.written:
            cls = "unwritten_operand"
        elif masked and bound is not None:
            cls = "active" if lane < bound else "inactive"
        else:
            cls = "lane"
        out.append((opname, lane, cls))
    return out, ctl


def describe_diffs(info, meta, spec, diffs, limit=12):
    """human-readable witness: which elements differ, C (intrinsic) vs body (interpreter)"""
    ints = {a["name"]: a["v"] for a in spec.args if a["k"] != "buf"}
    try:
        locs, ctl = locate(info, meta, spec, diffs)
    except Exception:
        locs, ctl = [("?", None, "unknown")] * len(diffs), {}
    lines = [f"call: {meta.get('call')}   size/mask arguments: {ctl}   index arguments: { {k: v for k, v in ints.items() if k not in ctl} }"]
    for d, (opname, lane, cls) in list(zip(diffs, locs))[:limit]:
        if "off" in d:
            where = f"{opname}[{lane}] ({cls})" if lane is not None else f"{opname} ({cls})"
            lines.append(f"  {where}: intrinsic={d['c']}  body={d['body']}  before the call={d.get('init')}   [{d['arg']} flat {d['off']}]")
        else:
            lines.append(f"  {d}")
    if len(diffs) > limit:
        lines.append(f"  ... {len(diffs) - limit} more differing elements")
    return "\n".join(lines)


def where_hint(info, meta, spec, diffs):
    """coarse, sorted set of location classes of the differences"""
    try:
        locs, _ = locate(info, meta, spec, diffs)
    except Exception:
        return ["unknown"]
    return sorted({c for _, _, c in locs})
