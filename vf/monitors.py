"""Monitors for C06 (forwarding) and C07 (purity) that ride on the scheduling stream."""

import sys
import traceback

import exo.API_cursors as PC
from exo.core import internal_cursors as IC
from exo.core.LoopIR import LoopIR

from . import irutil
from .common import jhash, CaseTimeout
from .gen_sched import apply_step, resolve, random_step, Session, ops
from .stream import Monitor, mk_case, ir_features, sstr, step_brief


# ----------------------------------------------------------------------------
def _id_index(ir):
    """{id(node): [paths]} for statements and expressions of a procedure"""
    idx = {}
    for path, s in irutil.all_stmts(ir):
        idx.setdefault(id(s), []).append(path)
        for f, i, e in irutil.stmt_exprs(s):
            for ep, sub in irutil.sub_exprs(e, path + ((f, i),)):
                idx.setdefault(id(sub), []).append(ep)
    return idx


def _node_at(ir, path):
    n = ir
    for f, i in path:
        n = getattr(n, f)
        if i is not None:
            n = n[i]
    return n


def _z3_gave_up(res):
    """the harness's z3 timeout turned a query into 'unknown': not an answer of exo"""
    e = getattr(res, "exc", None)
    return e is not None and ("unknown result from z3" in str(e) or type(e).__name__ in ("ArgumentError", "Z3Exception", "SolverReturnedUnknownResultError"))


class ForwardMonitor(Monitor):
    """C06: a forwarded cursor is invalid, or denotes the same code"""

    name = "forward"
    prop = "C06"

    def __init__(self, ctx, max_cursors=400, implicit_every=3):
        super().__init__(ctx)
        self.max_cursors = max_cursors
        self.implicit_every = implicit_every
        self.n = 0

    def on_program(self, sess):
        self.keep = []  # strong refs so that ids stay unique
        self.bad_steps = set()

    def report(self, sess, step, kind, detail, frm, to):
        ctx = self.ctx
        sig = {"prop": "C06", "monitor": "forward", "kind": kind, "op": step["op"], "span": to - frm}
        if to - frm == 1:
            self.bad_steps.add(to)
        ctx.violation(
            sig,
            mk_case(sess, sess.steps, "forward", None, {"detail": detail, "from": frm, "to": to, "before": sstr(sess.procs[frm], 2500), "after": sstr(sess.procs[to], 2500)}),
        )
        ctx.stat(f"viol.forward.{kind}.{step['op']}")

    def check_pair(self, sess, step, frm, to):
        """forward every cursor of procs[frm] to procs[to]"""
        ctx = self.ctx
        P0, P1 = sess.procs[frm], sess.procs[to]
        ir0, ir1 = P0._loopir_proc, P1._loopir_proc
        new_ids = _id_index(ir1)
        old_ids = _id_index(ir0)
        stmts0 = irutil.all_stmts(ir0)
        # descendants (by identity) of every statement of the new tree, for "is inside"
        def inside(obj, container):
            if container is obj:
                return True
            for _, sub in irutil._iter_block([container], (), "body"):
                if sub is obj:
                    return True
            return False
        n = 0
        reported = set()

        def fwd(cur):
            return P1.forward(cur)

        def rep(kind, detail):
            if kind not in reported:
                reported.add(kind)
                self.report(sess, step, kind, detail, frm, to)

        for path, s in stmts0:
            if n > self.max_cursors:
                break
            # ---- statement cursor
            n += 1
            try:
                c0 = PC.lift_cursor(IC.Node(ir0, list(path)), P0)
            except Exception:
                continue
            ctx.stat("forward.evals")
            try:
                c1 = fwd(c0)
                impl = c1._impl
                node = impl._node  # raises when dangling
            except IC.InvalidCursorError:
                ctx.stat("forward.invalidated")
                node = None
                c1 = None
            except NotImplementedError:
                ctx.stat("forward.not_implemented")
                return
            except CaseTimeout:
                raise
            except Exception as e:
                rep("raises:" + type(e).__name__, {"path": list(path), "stmt": str(s).split("\n")[0][:120], "error": repr(e)[:300]})
                continue
            if node is not None:
                if isinstance(c1._impl, IC.Node) and c1._impl._root is not ir1:
                    rep("wrong_root", {"path": list(path)})
                if id(s) in new_ids and (len(old_ids.get(id(s), ())) > 1 or len(new_ids.get(id(s), ())) > 1):
                    ctx.stat("forward.ambiguous_identity")
                elif id(s) in new_ids:
                    if node is not s:
                        rep(
                            "wrong_stmt",
                            {
                                "path": list(path),
                                "stmt": str(s).split("\n")[0][:120],
                                "forwarded_to": str(node).split("\n")[0][:120],
                                "fwd_path": [list(x) for x in getattr(impl, "_path", [])],
                                "same_object_at": [list(map(list, p)) for p in new_ids[id(s)][:3]],
                            },
                        )
                    else:
                        ctx.stat("forward.identity_ok")
                else:
                    ctx.stat("forward.rebuilt_resolves")
                    if not isinstance(node, LoopIR.stmt):
                        rep("stmt_to_nonstmt", {"path": list(path), "got": type(node).__name__})
            # ---- gaps
            for side in ("before", "after"):
                ctx.stat("forward.evals")
                try:
                    g0 = c0.before() if side == "before" else c0.after()
                    g1 = fwd(g0)
                    a1 = g1._impl.anchor()._node
                except IC.InvalidCursorError:
                    ctx.stat("forward.invalidated")
                    continue
                except NotImplementedError:
                    return
                except CaseTimeout:
                    raise
                except Exception as e:
                    rep("gap_raises:" + type(e).__name__, {"path": list(path), "side": side, "error": repr(e)[:300]})
                    continue
                try:
                    if g1._impl._root is not ir1 or g1._impl.anchor()._root is not ir1:
                        rep("wrong_root", {"path": list(path), "what": "gap", "side": side})
                        continue
                except Exception:
                    pass
                if id(s) in new_ids and a1 is s:
                    if g1._impl.type() != g0._impl.type():
                        rep("gap_side_changed", {"path": list(path), "side": side})
                    else:
                        ctx.stat("forward.gap_ok")
                elif id(s) in new_ids and a1 is not s:
                    # a gap may legitimately be re-anchored on a neighbour; only the
                    # no-dangling requirement applies
                    ctx.stat("forward.gap_reanchored")
            # ---- expression cursors of this statement (sampled)
            for f, i, e in irutil.stmt_exprs(s)[:3]:
                n += 1
                ep = list(path) + [(f, i)]
                try:
                    e0 = PC.lift_cursor(IC.Node(ir0, ep), P0)
                    e1 = fwd(e0)
                    en = e1._impl._node
                except IC.InvalidCursorError:
                    ctx.stat("forward.invalidated")
                    continue
                except NotImplementedError:
                    return
                except CaseTimeout:
                    raise
                except Exception as ex:
                    rep("expr_raises:" + type(ex).__name__, {"path": [list(x) for x in ep], "error": repr(ex)[:300]})
                    continue
                ctx.stat("forward.evals")
                if id(e) in new_ids and en is not e and id(s) in new_ids and len(old_ids.get(id(s), ())) == 1 and len(old_ids.get(id(e), ())) == 1 and len(new_ids.get(id(s), ())) == 1 and len(new_ids.get(id(e), ())) == 1:
                    # the enclosing statement object is shared, hence so is e's position
                    rep("wrong_expr", {"path": [list(x) for x in ep], "expr": str(e)[:80], "forwarded_to": str(en)[:80]})
        # ---- blocks: every statement list, a few sub-ranges
        seen_lists = set()
        for path, s in stmts0:
            par, (attr, i) = path[:-1], path[-1]
            key = (par, attr)
            if key in seen_lists:
                continue
            seen_lists.add(key)
            parent = _node_at(ir0, par) if par else ir0
            lst = getattr(parent, attr)
            L = len(lst)
            if L <= 5:
                ranges = {(a, b) for a in range(L) for b in range(a + 1, L + 1)}
            else:
                ranges = {(0, L), (0, 1), (L - 1, L), (0, L - 1), (1, L)}
                for _ in range(8):
                    a = ctx.rng.randrange(L)
                    b = ctx.rng.randrange(a + 1, L + 1)
                    ranges.add((a, b))
            for lo, hi in sorted(ranges):
                if lo >= hi:
                    continue
                ctx.stat("forward.evals")
                try:
                    b0 = PC.lift_cursor(IC.Block(ir0, IC.Node(ir0, list(par)), attr, range(lo, hi)), P0)
                    b1 = fwd(b0)
                    impl = b1._impl
                    if isinstance(impl, IC.Block):
                        members = [c._node for c in impl]
                    else:
                        members = [impl._node]
                except IC.InvalidCursorError:
                    ctx.stat("forward.invalidated")
                    continue
                except NotImplementedError:
                    return
                except CaseTimeout:
                    raise
                except Exception as e:
                    rep("block_raises:" + type(e).__name__, {"path": list(map(list, par)), "attr": attr, "range": [lo, hi], "error": repr(e)[:300]})
                    continue
                mids = {id(m) for m in members}
                try:
                    if isinstance(impl, IC.Block) and (impl._root is not ir1 or impl._anchor._root is not ir1):
                        rep("wrong_root", {"path": list(map(list, par)), "what": "block", "range": [lo, hi]})
                        continue
                except Exception:
                    pass
                # where does the forwarded block sit?
                try:
                    new_list = (tuple(impl._anchor._path), impl._attr) if isinstance(impl, IC.Block) else None
                    new_span = (impl._range.start, impl._range.stop) if isinstance(impl, IC.Block) else None
                except Exception:
                    new_list = new_span = None

                def still_in_span(obj):
                    """the member lives in the forwarded block's own statement list, inside or
                    adjacent to the forwarded range: it was permuted, not moved away"""
                    if new_list is None:
                        return False
                    for p in new_ids.get(id(obj), ()):
                        if tuple(p[:-1]) == new_list[0] and p[-1][0] == new_list[1] and new_span[0] - 1 <= p[-1][1] <= new_span[1]:
                            return True
                    return False

                lost = [
                    k
                    for k in range(lo, hi)
                    if id(lst[k]) in new_ids
                    and len(old_ids.get(id(lst[k]), ())) == 1
                    and len(new_ids.get(id(lst[k]), ())) == 1
                    and id(lst[k]) not in mids
                    and not any(inside(lst[k], m) for m in members)
                    # an *interior* member that left the block (moved elsewhere) mirrors an
                    # interior deletion, which shrinks the block: accepted, as the
                    # repository's own tests pin it (test_move_forwarding_for_blocks_*)
                    and (k == lo or k == hi - 1 or still_in_span(lst[k]))
                ]
                if lost:
                    rep(
                        "block_lost_member",
                        {"path": list(map(list, par)), "attr": attr, "range": [lo, hi], "lost_index": lost[0], "stmt": str(lst[lost[0]]).split("\n")[0][:100], "new_members": [str(m).split("\n")[0][:60] for m in members[:6]]},
                    )
                else:
                    ctx.stat("forward.block_ok")
        return n

    def after_step(self, sess, step, old, result):
        ctx = self.ctx
        if result.status != "accepted":
            return
        if old._loopir_proc is result.proc._loopir_proc:
            return
        if result.proc._provenance_eq_Procedure is None:
            ctx.stat("forward.no_provenance")
            return
        self.n += 1
        to = len(sess.procs) - 1
        ctx.stat("evaluations")
        ctx.stat(f"op.judged.{step['op']}")
        h = jhash([irutil.fingerprint(old._loopir_proc, alpha=True), step_brief(step)])
        ctx.distinct(h)
        n = self.check_pair(sess, step, to - 1, to)
        if ctx._nsamples < 2:
            ctx.sample({"op": step["op"], "before": sstr(old, 900), "after": sstr(result.proc, 900), "cursors_forwarded": n, "counters": {k: v for k, v in ctx._stats.items() if k.startswith("forward.")}}, limit=2)
        # chains: from an ancestor further back
        if to >= 2:
            back = ctx.rng.randint(2, min(to, 6))
            frm = to - back
            # the chain must be connected by provenance
            p = sess.procs[to]
            ok = False
            while p is not None:
                if p is sess.procs[frm]:
                    ok = True
                    break
                p = p._provenance_eq_Procedure
            if ok and any(k in self.bad_steps for k in range(frm + 1, to + 1)):
                ctx.stat("forward.chain_skipped_bad_step")
                ok = False
            if ok:
                ctx.stat("forward.chains")
                self.check_pair(sess, step, frm, to)
        if self.implicit_every and self.n % self.implicit_every == 0:
            self.implicit_vs_explicit(sess, step)

    def implicit_vs_explicit(self, sess, step0):
        """an op handed a stale cursor must behave as when handed p.forward(cursor)"""
        ctx = self.ctx
        if len(sess.procs) < 2:
            return
        cur = sess.cur
        k = len(sess.procs) - 2
        # synthesise a step for the *previous* procedure, then run it on the current one
        tmp = Session.__new__(Session)
        tmp.__dict__.update(sess.__dict__)
        tmp.procs = sess.procs[: k + 1]
        st = random_step(tmp, ctx.rng)
        if st is None:
            return
        if st["op"].startswith("std.") or st["op"] in ("partial_eval", "transpose", "add_assertion"):
            # implicit forwarding is a feature of the primitives' argument processing;
            # stdlib compositions are plain functions
            return
        has_cursor = any(d.get("k") in ("node", "block", "gap") for d in st["args"])
        if not has_cursor:
            return
        fn = ops()[st["op"]]

        def run(explicit):
            try:
                args = []
                for d in st["args"]:
                    if d.get("k") in ("node", "block", "gap"):
                        d2 = dict(d)
                        d2["of"] = k
                        c = resolve(d2, sess)
                        if explicit:
                            c = cur.forward(c)
                        args.append(c)
                    elif d.get("k") == "list":
                        lst = []
                        for x in d["v"]:
                            if x.get("k") in ("node", "block", "gap"):
                                x2 = dict(x)
                                x2["of"] = k
                                c = resolve(x2, sess)
                                if explicit:
                                    c = cur.forward(c)
                                lst.append(c)
                            else:
                                lst.append(resolve(x, sess))
                        args.append(lst)
                    else:
                        args.append(resolve(d, sess))
                r = fn(cur, *args, **(st.get("kw") or {}))
                if isinstance(r, tuple):
                    r = r[0]
                return ("ok", irutil.fingerprint(r._loopir_proc, alpha=True))
            except CaseTimeout:
                raise
            except BaseException as e:
                if "unknown result from z3" in str(e):
                    return ("z3", "timeout")
                return ("exc", type(e).__name__)

        a = run(False)
        b = run(True)
        if a[0] == "z3" or b[0] == "z3":
            ctx.inconclusive("z3_timeout")
            return
        ctx.stat("forward.implicit_evals")
        if a[0] == "ok" and b[0] == "ok":
            ctx.stat("forward.implicit_both_ok")
        if a != b:
            # an InvalidCursorError surfaced by explicit forwarding is reported by the
            # implicit path as the op's own error type: both are "rejected"
            if a[0] == "exc" and b[0] == "exc":
                ctx.stat("forward.implicit_both_rejected")
                return
            sig = {"prop": "C06", "monitor": "implicit-forward", "kind": f"{a[0]}-vs-{b[0]}", "op": st["op"]}
            ctx.violation(
                sig,
                mk_case(sess, sess.steps, "implicit-forward", None, {"stale_step": st, "implicit": list(a), "explicit": list(b), "stale_of": k}),
            )


# ----------------------------------------------------------------------------
def _c_digest(p):
    """digest of the C text generated for a procedure (or the class of the rejection)"""
    import hashlib

    try:
        return hashlib.sha1(p.c_code_str().encode()).hexdigest()[:16]
    except CaseTimeout:
        raise
    except Exception as e:
        # a failure inside the solver bindings (ctypes.ArgumentError, Z3Exception; seen after a call was
        # interrupted by the watchdog or by an injected fault) is the harness's doing, not an answer of exo
        solver = "unknown result from z3" in str(e) or type(e).__name__ in ("ArgumentError", "Z3Exception", "SolverReturnedUnknownResultError")
        return ("z3:" if solver else "reject:") + type(e).__name__


def _cursor_snapshot(cur):
    """identity-level description of a public cursor's internals: which tree it points into,
    where, and (for gaps / blocks) its side or range"""
    impl = cur._impl
    own = id(cur._proc._loopir_proc)
    if isinstance(impl, IC.Gap):
        a = impl._anchor
        return ("gap", own, id(a._root), tuple(tuple(x) for x in a._path), str(impl._type))
    if isinstance(impl, IC.Block):
        a = impl._anchor
        return ("block", own, id(a._root), tuple(tuple(x) for x in a._path), impl._attr, impl._range.start, impl._range.stop)
    return ("node", own, id(impl._root), tuple(tuple(x) for x in impl._path))


class PurityMonitor(Monitor):
    """C07: no call, successful or failing, alters an existing procedure or cursor"""

    name = "purity"
    prop = "C07"

    def __init__(self, ctx, fault_every=0, fault_points=3, rerun_every=4):
        super().__init__(ctx)
        self.fault_every = fault_every
        self.fault_points = fault_points
        self.rerun_every = rerun_every
        self.n = 0

    def on_program(self, sess):
        self.registry = {}  # id(proc ir) -> (ir, fingerprint, name)
        self.cursors = []  # (Procedure, path, node)
        self.derived = []  # (gap / block cursor, snapshot of its internals when taken)
        self.ccode = {}  # id(Procedure) -> (Procedure, digest of its generated C when first compiled)
        self.history = []  # (index of the input procedure, step, outcome) of earlier calls, for late re-runs
        self.strs = {}
        self.note_all(sess)
        for name, p in sess.local_procs().items():
            self.note(p._loopir_proc, name)

    def note(self, ir, name):
        if id(ir) not in self.registry:
            self.registry[id(ir)] = (ir, irutil.fingerprint(ir), name)
            for c in irutil.callees(ir):
                self.note(c, f"{name}/callee:{c.name}")

    def note_all(self, sess):
        for i, p in enumerate(sess.procs):
            self.note(p._loopir_proc, f"session[{i}]")
        p = sess.cur
        if id(p) not in self.strs and len(self.strs) < 6:
            self.strs[id(p)] = (p, sstr(p, 100000))
        if id(p) not in self.ccode and len(self.ccode) < 5 and self.ctx.rng.random() < 0.35:
            # the generated C of an existing procedure is part of what must never change
            d1 = _c_digest(p)
            if str(d1).startswith("reject:") and _c_digest(p) != d1:
                # a rejection that does not repeat (the parallel analysis turns *any* exception, a solver
                # timeout or the watchdog included, into "potential data races"): not tracked
                self.ctx.stat("purity.c_unstable_not_tracked")
            else:
                self.ccode[id(p)] = (p, d1)
                self.ctx.stat("purity.c_compiles")
        ir = p._loopir_proc
        st = irutil.all_stmts(ir)
        if st:
            for _ in range(3):
                path, node = self.ctx.rng.choice(st)
                try:
                    c = PC.lift_cursor(IC.Node(ir, list(path)), p)
                    self.cursors.append((c, node))
                    # cursors a user derives from it through the public API (they may share internal
                    # objects with the statement cursor): gaps on both sides, the one-statement block
                    for d in (c.after(), c.before(), c.as_block()):
                        self.derived.append((d, _cursor_snapshot(d)))
                except Exception:
                    pass
            self.cursors = self.cursors[-24:]
            self.derived = self.derived[-48:]

    def check(self, sess, step, phase):
        ctx = self.ctx
        bad = None
        for key, (ir, fp, name) in self.registry.items():
            ctx.stat("purity.fingerprints")
            fp2 = irutil.fingerprint(ir)
            if fp2 != fp:
                bad = {"what": "fingerprint", "proc": name}
                self.registry[key] = (ir, fp2, name)
                break
        if bad is None and phase == "accepted":
            # forwarding is a query: it must not alter the cursor that is forwarded
            for cur, node in self.cursors:
                try:
                    saved = [tuple(x) for x in getattr(cur._impl, "_path", [])]
                    ctx.stat("purity.forward_queries")
                    try:
                        sess.cur.forward(cur)
                    except Exception:
                        pass
                    now = [tuple(x) for x in getattr(cur._impl, "_path", [])]
                    if now != saved:
                        bad = {"what": "cursor_changed_by_forwarding", "before": [list(x) for x in saved], "after": [list(x) for x in now]}
                        break
                except Exception:
                    pass
        if bad is None and phase == "accepted":
            for cur, snap in self.derived:
                try:
                    ctx.stat("purity.forward_queries")
                    sess.cur.forward(cur)
                except Exception:
                    pass
        if bad is None:
            for cur, snap in self.derived:
                ctx.stat("purity.cursor_checks")
                now = _cursor_snapshot(cur)
                if now != snap:
                    bad = {"what": "derived_cursor_changed", "kind": snap[0], "before": repr(snap)[:200], "after": repr(now)[:200]}
                    break
        if bad is None:
            for cur, node in self.cursors:
                if cur._impl._root is not cur._proc._loopir_proc:
                    bad = {"what": "cursor_rerooted"}
                    break
        if bad is None:
            for cur, node in self.cursors:
                ctx.stat("purity.cursor_checks")
                try:
                    if cur._impl._node is not node:
                        bad = {"what": "cursor_denotes_other_node"}
                        break
                except Exception as e:
                    bad = {"what": "cursor_dangling", "error": type(e).__name__}
                    break
        if bad is None and self.n % 3 == 0 and phase in ("accepted", "rerun"):
            for key, (p, dig) in self.ccode.items():
                if p is sess.cur:
                    continue
                ctx.stat("purity.c_rechecks")
                d2 = _c_digest(p)
                if d2 != dig and not (str(dig).startswith("z3") or str(d2).startswith("z3")):
                    if _c_digest(p) != d2:
                        ctx.inconclusive("compile_outcome_not_repeatable")  # transient (solver timeout swallowed by exo)
                        continue
                    bad = {"what": "generated_c_changed", "first": str(dig)[:60], "now": str(d2)[:60]}
                    self.ccode[key] = (p, d2)
                    break
        if bad is None and self.n % 5 == 0:
            for key, (p, s) in self.strs.items():
                ctx.stat("purity.str_checks")
                s2 = sstr(p, 100000)
                if s2 != s:
                    bad = {"what": "printed_text_changed"}
                    self.strs[key] = (p, s2)
                    break
        if bad:
            sig = {"prop": "C07", "monitor": "purity", "kind": bad["what"], "op": step["op"], "phase": phase}
            ctx.violation(sig, mk_case(sess, sess.steps + ([step] if phase != "accepted" else []), "purity", None, {"detail": bad, "phase": phase}))
            ctx.stat(f"viol.purity.{step['op']}")
        return bad

    def after_step(self, sess, step, old, result):
        ctx = self.ctx
        self.n += 1
        ctx.stat("evaluations")
        ctx.stat(f"op.judged.{step['op']}")
        ctx.stat("purity.after_" + result.status)
        phase = result.status
        h = jhash([irutil.fingerprint(old._loopir_proc, alpha=True), step_brief(step), phase])
        ctx.distinct(h)
        bad = self.check(sess, step, phase)
        if ctx._nsamples < 2:
            ctx.sample({"op": step["op"], "outcome": phase, "exception": type(result.exc).__name__ if result.exc is not None else None, "procedures_fingerprinted": len(self.registry), "cursors_rechecked": len(self.cursors), "input_procedure": sstr(old, 900)}, limit=2)
        if result.status == "accepted":
            self.note_all(sess)
            if result.extra:
                for x in result.extra:
                    if hasattr(x, "_loopir_proc"):
                        self.note(x._loopir_proc, "extra")
        if bad:
            return
        # poisoned caches: the same op on the same (old) procedure answers the same
        if self.rerun_every and self.n % self.rerun_every == 0:
            self.rerun(sess, step, old, result)
        # ... also much later, after other procedures of the family were analysed, scheduled and
        # compiled (state carried over between calls: memo tables keyed by a symbol that derived
        # procedures share, summaries of callees edited in place)
        old_index = len(sess.procs) - (2 if result.status == "accepted" else 1)
        if not _z3_gave_up(result):
            outcome = (result.status, irutil.fingerprint(result.proc._loopir_proc, alpha=True) if result.status == "accepted" else type(result.exc).__name__)
            self.history.append((old_index, step, outcome))
            self.history = self.history[-12:]
        if self.rerun_every and len(self.history) > 3 and self.n % 3 == 1:
            k = ctx.rng.randrange(0, len(self.history) - 2)
            oi, st, out = self.history[k]
            r2 = self._apply_again(sess, st, oi)
            ctx.stat("purity.late_reruns")
            if _z3_gave_up(r2):
                ctx.inconclusive("z3_timeout")
            else:
                b = (r2.status, irutil.fingerprint(r2.proc._loopir_proc, alpha=True) if r2.status == "accepted" else type(r2.exc).__name__)
                if b != out:
                    sig = {"prop": "C07", "monitor": "late-rerun", "kind": f"{out[0]}-then-{b[0]}", "op": st["op"]}
                    ctx.violation(sig, mk_case(sess, sess.steps, "late-rerun", None, {"old_index": oi, "step": st, "first": list(out), "second": list(b)}))
                    self.history.pop(k)
        if self.fault_every and self.n % self.fault_every == 0:
            self.inject(sess, step, old, result)

    def _apply_again(self, sess, step, old_index):
        tmp = Session.__new__(Session)
        tmp.__dict__.update(sess.__dict__)
        tmp.procs = sess.procs[: old_index + 1]
        tmp.steps = sess.steps[:old_index]
        tmp.extra = dict(sess.extra)
        return apply_step(tmp, step, commit=False)

    def rerun(self, sess, step, old, result):
        ctx = self.ctx
        old_index = len(sess.procs) - (2 if result.status == "accepted" else 1)
        r2 = self._apply_again(sess, step, old_index)
        ctx.stat("purity.reruns")
        a = (result.status, irutil.fingerprint(result.proc._loopir_proc, alpha=True) if result.status == "accepted" else type(result.exc).__name__)
        b = (r2.status, irutil.fingerprint(r2.proc._loopir_proc, alpha=True) if r2.status == "accepted" else type(r2.exc).__name__)
        if _z3_gave_up(result) or _z3_gave_up(r2):
            ctx.inconclusive("z3_timeout")
            return
        if a != b:
            sig = {"prop": "C07", "monitor": "rerun", "kind": f"{a[0]}-then-{b[0]}", "op": step["op"]}
            ctx.violation(sig, mk_case(sess, sess.steps if result.status == "accepted" else sess.steps + [step], "rerun", None, {"first": list(a), "second": list(b)}))
        self.check(sess, step, "rerun")

    # -- fault injection with sys.monitoring LINE events ---------------------
    TOOL = 3

    def inject(self, sess, step, old, result):
        ctx = self.ctx
        mon = sys.monitoring
        old_index = len(sess.procs) - (2 if result.status == "accepted" else 1)
        files = ("/exo/rewrite/", "/exo/core/internal_cursors.py", "/exo/API_scheduling.py")
        count = [0]
        target = [None]

        class InjectedFault(Exception):
            pass

        def on_line(code, line):
            fn = code.co_filename
            if not any(f in fn for f in files):
                return mon.DISABLE
            count[0] += 1
            if target[0] is not None and count[0] == target[0]:
                target[0] = None
                raise InjectedFault(f"{fn.split('/')[-1]}:{line}")

        try:
            mon.use_tool_id(self.TOOL, "vf-fault")
        except ValueError:
            return
        try:
            mon.register_callback(self.TOOL, mon.events.LINE, on_line)
            mon.set_events(self.TOOL, mon.events.LINE)
            # counting run
            r0 = self._apply_again(sess, step, old_index)
            total = count[0]
            ctx.stat("fault.count_runs")
            if total < 3:
                return
            ks = sorted({ctx.rng.randint(1, total) for _ in range(self.fault_points)})
            for k in ks:
                mon.restart_events()
                count[0] = 0
                target[0] = k
                r = self._apply_again(sess, step, old_index)
                target[0] = None
                ctx.stat("fault.injections")
                if r.status == "rejected" and "InjectedFault" in type(r.exc).__name__:
                    ctx.stat("fault.surfaced")
                else:
                    ctx.stat("fault.swallowed")
                mon.set_events(self.TOOL, 0)
                bad = self.check(sess, step, "fault")
                mon.set_events(self.TOOL, mon.events.LINE)
                if bad:
                    break
            mon.set_events(self.TOOL, 0)
            # a clean run afterwards answers as the first clean run did
            r3 = self._apply_again(sess, step, old_index)
            a = (r0.status, irutil.fingerprint(r0.proc._loopir_proc, alpha=True) if r0.status == "accepted" else type(r0.exc).__name__)
            b = (r3.status, irutil.fingerprint(r3.proc._loopir_proc, alpha=True) if r3.status == "accepted" else type(r3.exc).__name__)
            if _z3_gave_up(r0) or _z3_gave_up(r3):
                ctx.inconclusive("z3_timeout")
            elif a != b:
                sig = {"prop": "C07", "monitor": "fault-rerun", "kind": f"{a[0]}-then-{b[0]}", "op": step["op"]}
                ctx.violation(sig, mk_case(sess, sess.steps if result.status == "accepted" else sess.steps + [step], "fault-rerun", None, {"first": list(a), "after_faults": list(b)}))
        finally:
            try:
                mon.set_events(self.TOOL, 0)
                mon.register_callback(self.TOOL, mon.events.LINE, None)
                mon.free_tool_id(self.TOOL)
            except Exception:
                pass
