"""E2: generator of Exo programs as *source text* (so the real parser, type
checker, bounds checker and aliasing check run on every one of them).

A generated module defines optional @config classes, optional callees, and a
root procedure.  `GenProgram.text` is the module source; `load_program`
writes it to a scratch file and imports it.

Families (knobs in `Knobs`): loop nests with affine accesses, temporaries,
guards, windows and calls, configuration, quasi-affine indices, par loops,
hostile names.  An 'unsafe twin' mode perturbs exactly one bound/offset so that
the program is unsafe by one (C03).
"""

import importlib.util
import sys
from dataclasses import dataclass, field

HEADER = """from __future__ import annotations
from exo import proc, instr, config, DRAM
from exo.libs.memories import DRAM_STATIC, DRAM_STACK, AVX2, AVX512
from exo.libs.externs import sin, relu, select, expf, fmaxf, sigmoid, sqrt
from exo.stdlib.scheduling import *

"""


@dataclass
class Knobs:
    max_depth: int = 3
    max_stmts: int = 9
    p_call: float = 0.25
    p_config: float = 0.0
    p_par: float = 0.0
    p_quasi: float = 0.15
    p_window: float = 0.2
    p_if: float = 0.25
    p_alloc: float = 0.35
    p_extern: float = 0.1
    hostile_names: bool = False
    precision: str = "f32"
    p_datadiv: float = 0.0
    unsafe_twin: bool = False  # perturb one site to be unsafe by one
    const_sizes: float = 0.3  # probability that a dimension is a literal
    nonzero_lo: float = 0.2
    symbolic: bool = True
    ncallees: int = 1
    p_idxarg: float = 0.25  # probability of an index argument q in 0..3
    p_boolnest: float = 0.12  # probability of a two-way / of a nested three-way condition


class Ext:
    """extent / bound: sym + c  (sym may be None)"""

    __slots__ = ("sym", "c")

    def __init__(self, sym, c=0):
        self.sym = sym
        self.c = c

    def __str__(self):
        if self.sym is None:
            return str(self.c)
        if self.c == 0:
            return self.sym
        return f"{self.sym} {'+' if self.c > 0 else '-'} {abs(self.c)}"

    def plus(self, k):
        return Ext(self.sym, self.c + k)

    def key(self):
        return (self.sym, self.c)


@dataclass
class Buf:
    name: str
    shape: list  # of Ext
    kind: str  # "arg" | "tmp" | "win"
    init: bool = True
    written: bool = False
    window_arg: bool = False


@dataclass
class Loop:
    var: str
    lo: int
    hi: Ext


@dataclass
class GenProgram:
    text: str
    root: str
    callees: list
    configs: list
    meta: dict = field(default_factory=dict)


class _Gen:
    def __init__(self, rng, kn: Knobs, name="root", uid=0):
        self.rng = rng
        self.kn = kn
        self.name = name
        self.lines = []
        self.sizes = {}  # name -> min value
        self.idxargs = {}  # name -> (lo, hi) asserted closed range
        self.bools = []
        self.bufs = []
        self.loops = []
        self.asserts = []
        self.nstmts = 0
        self.counter = 0
        self.callees = []  # (name, signature description)
        self.configs = []  # (name, [(field, type)])
        self.used_names = set()
        self.twin_budget = 1 if kn.unsafe_twin else 0
        self.twin_site = None
        self.uid = uid
        self.negidx = None  # name of an index argument that may be negative
        self.scalars = []  # scalar buffers usable in rhs
        self.cfg_written = set()

    # -- helpers -----------------------------------------------------------
    def fresh(self, base):
        if self.kn.hostile_names and self.rng.random() < 0.5:
            # reuse spellings on purpose (distinct Syms, one name) when legal:
            # loop variables of sibling loops may repeat
            return base
        self.counter += 1
        n = f"{base}{self.counter}" if base in self.used_names else base
        while n in self.used_names:
            self.counter += 1
            n = f"{base}{self.counter}"
        self.used_names.add(n)
        return n

    def emit(self, ind, s):
        self.lines.append("    " * ind + s)

    def pick_ext(self):
        r = self.rng
        if self.sizes and r.random() > self.kn.const_sizes:
            s = r.choice(sorted(self.sizes))
            c = r.choice([0, 0, 0, 0, 1, 2]) if r.random() < 0.25 else 0
            return Ext(s, c)
        return Ext(None, r.choice([1, 2, 3, 4, 4, 5, 6, 8]))

    def ext_min(self, e: Ext):
        if e.sym is None:
            return e.c
        return self.sizes.get(e.sym, 1) + e.c

    # index candidates for a dimension of extent E
    def index_for(self, E: Ext, allow_new_loop=True):
        r = self.rng
        cands = []
        for L in self.loops:
            if L.hi.sym == E.sym:
                kmax = E.c - L.hi.c
                kmin = -L.lo
                if kmin <= kmax:
                    ks = sorted({kmin, kmax, 0 if kmin <= 0 <= kmax else kmin})
                    k = r.choice(ks)
                    cands.append((L.var, k, kmin, kmax))
            elif L.hi.sym is None and E.sym is not None:
                # constant loop into a symbolic extent: safe iff hi - 1 + k <= min(E) - 1
                kmax = self.ext_min(E) - L.hi.c
                kmin = -L.lo
                if kmin <= kmax:
                    cands.append((L.var, r.choice([kmin, kmax]), kmin, kmax))
        # quasi-affine forms over loops
        if cands and r.random() < 0.75:
            v, k, kmin, kmax = r.choice(cands)
            if self.twin_budget and r.random() < 0.5:
                self.twin_budget = 0
                k = r.choice([kmax + 1, kmin - 1])
                self.twin_site = f"index {v}+{k} into extent {E}"
            return self.fmt_affine(v, k)
        if r.random() < self.kn.p_quasi and self.loops:
            L = r.choice(self.loops)
            m = self.ext_min(E)
            if m >= 2:
                c = r.choice([d for d in (2, 3, 4) if d <= m] or [m])
                shift = r.choice([0, 0, 1, 3, 5])
                if self.twin_budget and r.random() < 0.3:
                    self.twin_budget = 0
                    self.twin_site = f"mod index (x - {shift}) % {c} + 1 into extent {E}"
                    return f"({L.var} - {shift}) % {c} + {m - c + 1}"
                form = r.random()
                if form < 0.2:
                    # a negated (non-negative) iterator as numerator
                    return f"(-{L.var}) % {c}"
                if form < 0.35:
                    return f"({r.choice([1, 2, 5])} - {L.var}) % {c}"
                if form < 0.55 and L.hi.sym is None:
                    # floor division with a possibly negative numerator, shifted into range
                    s_ = r.choice([1, 2, 3, 4, 5, 6, 8])
                    lo_v = (L.lo - s_) // c
                    hi_v = (L.hi.c - 1 - s_) // c
                    if hi_v - lo_v <= m - 1:
                        off = -lo_v
                        return f"({L.var} - {s_}) / {c} + {off}" if off >= 0 else f"({L.var} - {s_}) / {c} - {-off}"
                if shift and L.lo - shift < 0:
                    # negative numerators under % (floor-mod is still in range)
                    return f"({L.var} - {shift}) % {c}"
                return f"({L.var} + {shift}) % {c}"
        if self.idxargs and r.random() < 0.3:
            # an index argument with an asserted range as (part of) the index
            a_, (alo, ahi) = r.choice(sorted(self.idxargs.items()))
            m = self.ext_min(E)
            if alo >= 0 and ahi < m:
                k = r.choice([0, m - 1 - ahi])
                return self.fmt_affine(a_, k)
        if self.negidx and r.random() < self.kn.p_quasi:
            # the possibly negative index argument (-6..6) under floor division / modulo
            m = self.ext_min(E)
            c = r.choice([2, 3, 4])
            lo_v, hi_v = (-6) // c, 6 // c
            if r.random() < 0.5 and hi_v - lo_v <= m - 1:
                return f"{self.negidx} / {c} + {-lo_v}"
            if c <= m:
                return f"{self.negidx} % {c}"
        # constants
        m = self.ext_min(E)
        choices = [0, m - 1] + ([1] if m > 1 else [])
        k = r.choice(choices)
        if self.twin_budget and r.random() < 0.3:
            self.twin_budget = 0
            self.twin_site = f"constant index {m} into extent {E} (min {m})"
            if E.sym is None:
                return str(m)
            return f"{E}"
        if E.sym is not None and r.random() < 0.5:
            return f"{E.plus(-1)}" if E.c - 1 != 0 or True else E.sym
        return str(k)

    @staticmethod
    def fmt_affine(v, k):
        if k == 0:
            return v
        return f"{v} {'+' if k > 0 else '-'} {abs(k)}"

    def readable(self):
        return [b for b in self.bufs if b.init]

    def rhs(self, depth=0, avoid=None):
        r = self.rng
        roll = r.random()
        if depth >= 2 or roll < 0.35:
            # leaf
            roll2 = r.random()
            bs = self.readable()
            if bs and roll2 < 0.75:
                b = r.choice(bs)
                return self.read(b)
            if self.configs and roll2 < 0.85 and self.kn.p_config > 0:
                cn, fields = r.choice(self.configs)
                reals = [f for f, t in fields if t == self.kn.precision]
                if reals and self.kn.precision in ("f32", "f64"):
                    return f"{cn}.{r.choice(reals)}"
            return r.choice(["0.0", "1.0", "2.0", "0.5", "3.0", "-1.0"])
        if roll < 0.75:
            op = r.choice(["+", "+", "*", "-", "*"])
            if self.kn.precision in ("f32", "f64") and r.random() < self.kn.p_datadiv:
                # data division whose divisor is itself a product / quotient / difference (grouping matters)
                # the divisor always reads data: a quotient of two literals would be folded by simplify into
                # a floating-point literal (1.0 / 3.0 -> 0.333...), which is precision, not algebra
                rd = self.read_any()
                if rd == "1.0":
                    return f"{self.rhs(depth+1)} {op} {self.rhs(depth+1)}"
                d = r.choice([f"({rd} * {self.rhs(2)})", f"({self.rhs(2)} / {rd})", f"({rd} - {self.rhs(2)})", rd])
                return f"{self.rhs(depth+1)} / {d}"
            return f"{self.rhs(depth+1)} {op} {self.rhs(depth+1)}"
        if roll < 0.8:
            return f"-({self.rhs(depth+1)})" if r.random() < 0.5 else f"-{self.read_any()}"
        if roll < 0.8 + self.kn.p_extern and self.kn.precision in ("f32", "f64"):
            f = r.choice(["relu", "select", "fmaxf"] if self.kn.precision == "f32" else ["relu", "select"])
            if f == "relu":
                return f"relu({self.rhs(depth+1)})"
            if f == "fmaxf":
                return f"fmaxf({self.rhs(depth+1)}, {self.rhs(depth+1)})"
            return f"select({self.rhs(2)}, {self.rhs(2)}, {self.rhs(2)}, {self.rhs(2)})"
        return f"({self.rhs(depth+1)}) * {r.choice(['2.0', '0.5', '4.0'])}"

    def read_any(self):
        bs = self.readable()
        if not bs:
            return "1.0"
        return self.read(self.rng.choice(bs))

    def read(self, b: Buf):
        if not b.shape:
            return b.name
        return f"{b.name}[{', '.join(self.index_for(E) for E in b.shape)}]"

    def cond(self):
        r = self.rng
        opts = []
        if self.loops:
            L = r.choice(self.loops)
            opts += [
                f"{L.var} < {r.choice([1, 2, 3])}",
                f"{L.var} >= {r.choice([1, 2])}",
                f"{L.var} % 2 == 0",
                f"{L.var} == {L.lo}",
            ]
            if len(self.loops) > 1:
                L2 = r.choice(self.loops)
                if L2.var != L.var:
                    opts.append(f"{L.var} <= {L2.var}")
                    opts.append(f"{L.var} + {L2.var} < {r.choice([3, 4, 5])}")
            if L.hi.sym:
                opts.append(f"{L.var} + 1 < {L.hi.sym}")
        for b in self.bools:
            opts.append(b)
            opts.append(b)
        for s in self.sizes:
            opts.append(f"{s} > {r.choice([1, 2, 3])}")
        for a, (lo, hi) in self.idxargs.items():
            opts.append(f"{a} < {r.choice([lo + 1, hi])}")
        if self.negidx:
            c = r.choice([2, 3, 4])
            opts.append(f"{self.negidx} % {c} == {r.randrange(c)}")
            opts.append(f"({self.negidx} - 1) / {c} < 0")
            if self.loops:
                opts.append(f"({r.choice(self.loops).var} + {self.negidx}) % {c} < {r.randrange(1, c + 1)}")
        if self.configs and self.kn.p_config > 0:
            cn, fields = r.choice(self.configs)
            bs = [f for f, t in fields if t == "bool"]
            if bs:
                opts.append(f"{cn}.{r.choice(bs)} == True")
        if not opts:
            return "1 < 2"
        c = r.choice(opts)
        roll = r.random()
        pb = self.kn.p_boolnest
        if roll < pb and len(opts) > 1:
            c = f"{c} {r.choice(['and', 'or'])} {r.choice(opts)}"
        elif roll < 2 * pb and len(opts) > 1:
            # nested and/or with explicit grouping, and flat chains of three
            a, b, d = r.choice(opts), r.choice(opts), r.choice(opts)
            c = r.choice(
                [
                    f"({a} or {b}) and {d}",
                    f"{a} and ({b} or {d})",
                    f"({a} and {b}) or {d}",
                    f"{a} or ({b} and {d})",
                    f"{a} and {b} and {d}",
                    f"{a} or {b} or {d}",
                    f"({a} and {b}) and {d}",
                    f"({a} or {b}) or {d}",
                    f"{a} and ({b} and {d})",
                ]
            )
        return c

    # -- statements -----------------------------------------------------------
    def block(self, ind, depth, budget):
        """emit >= 1 statement(s); returns number emitted"""
        n0 = self.nstmts
        want = self.rng.randint(1, max(1, min(3, budget)))
        saved_bufs = len(self.bufs)
        outer_base, self.block_base = getattr(self, "block_base", 0), saved_bufs
        for _ in range(want):
            if self.nstmts - n0 >= budget:
                break
            self.stmt(ind, depth, budget - (self.nstmts - n0))
        if self.nstmts == n0:
            self.emit(ind, "pass")
            self.nstmts += 1
        # temporaries go out of scope
        del self.bufs[saved_bufs:]
        self.block_base = outer_base
        return self.nstmts - n0

    def stmt(self, ind, depth, budget):
        r = self.rng
        kn = self.kn
        roll = r.random()
        can_nest = depth < kn.max_depth and budget >= 2
        if can_nest and roll < 0.4:
            return self.loop(ind, depth, budget)
        if can_nest and roll < 0.4 + kn.p_if * 0.5:
            return self.if_(ind, depth, budget)
        if roll < 0.55 and r.random() < kn.p_alloc and budget >= 2:
            return self.alloc(ind, depth)
        if self.callees and r.random() < kn.p_call:
            if self.call(ind):
                return
        if self.configs and r.random() < kn.p_config:
            if self.config_stmt(ind):
                return
        if r.random() < kn.p_window and budget >= 2:
            if self.window_stmt(ind):
                return
        self.assign(ind)

    def writable(self):
        return [b for b in self.bufs if b.kind != "ro"]

    def assign(self, ind, target=None):
        r = self.rng
        ws = self.writable()
        if not ws:
            self.emit(ind, "pass")
            self.nstmts += 1
            return
        b = target or r.choice(ws)
        lhs = self.read(b)
        # wrap into loops when no loop matches? index_for already falls back to constants
        op = "+=" if (r.random() < 0.35 and b.init) else "="
        self.emit(ind, f"{lhs} {op} {self.rhs()}")
        self.nstmts += 1
        b.written = True

    def loop(self, ind, depth, budget):
        r = self.rng
        E = None
        # prefer extents of buffers in scope so that accesses find matching loops
        dims = [e for b in self.bufs for e in b.shape]
        if dims and r.random() < 0.85:
            E = r.choice(dims)
        else:
            E = self.pick_ext()
        lo = 0
        hi = E
        roll = r.random()
        if roll < self.kn.nonzero_lo and self.ext_min(E) >= 2:
            lo = 1
        elif roll < self.kn.nonzero_lo + 0.15:
            hi = E.plus(-1)  # zero-trip when the extent is 1
        if self.ext_min(hi) < lo:
            lo = 0
            hi = E
        tri = None
        if r.random() < 0.15:
            outer = [L for L in self.loops if L.hi.key() == E.key() and L.lo == 0]
            if outer:
                tri = r.choice(outer)
        if self.twin_budget and E.sym is not None and r.random() < 0.25:
            # unsafe twin: the upper bound may be below the lower bound
            self.twin_budget = 0
            lo = self.ext_min(E) + 1
            hi = E
            self.twin_site = f"loop seq({lo}, {E}) although {E} may be {self.ext_min(E)}"
        qbound = None
        if self.negidx and r.random() < 0.3:
            cands_c = [c for c in (2, 3, 4) if c <= self.ext_min(E)]
            if cands_c:
                c = r.choice(cands_c)
                qbound = (f"({self.negidx} - {r.choice([0, 1, 5])}) % {c}", c)
        if qbound is None and self.loops and r.random() < self.kn.p_quasi * 0.5:
            # a trip count that is the floor-mod of an outer iterator (short constant ranges
            # that straddle a multiple of the modulus included)
            Lo = r.choice(self.loops)
            cands_c = [c for c in (2, 3, 4) if c <= self.ext_min(E)]
            if cands_c:
                c = r.choice(cands_c)
                qbound = (f"({Lo.var} + {r.choice([0, 1, 2, 3])}) % {c}", c)
        base = r.choice(["i", "j", "k", "ii", "jj"])
        live = {L.var for L in self.loops}
        if self.kn.hostile_names and base not in live:
            v = base
        else:
            v = base
            c = 0
            while v in live or v in self.used_names and v not in ("i", "j", "k", "ii", "jj"):
                c += 1
                v = f"{base}{c}"
        if self.kn.hostile_names and r.random() < 0.12:
            # a loop iterator that shadows an argument of the procedure
            shadow = [a for a in list(self.sizes) + list(self.idxargs) if a not in str(hi) and a not in live]
            if shadow:
                v = r.choice(shadow)
        kind = "seq"
        if r.random() < self.kn.p_par:
            kind = "par"
        if qbound is not None:
            self.emit(ind, f"for {v} in {kind}(0, {qbound[0]}):")
            lo, hi = 0, Ext(None, qbound[1])
        elif tri is not None and tri.var != v:
            # triangular nest: a bound of the inner loop mentions the outer iterator
            if r.random() < 0.5:
                self.emit(ind, f"for {v} in {kind}({tri.var}, {E}):")
            else:
                self.emit(ind, f"for {v} in {kind}(0, {tri.var} + 1):")
            lo, hi = 0, E
        else:
            self.emit(ind, f"for {v} in {kind}({lo}, {hi}):")
        self.nstmts += 1
        self.loops.append(Loop(v, lo, hi))
        self.block(ind + 1, depth + 1, budget - 1)
        self.loops.pop()

    def guarded_access(self, ind):
        """if v + k < E: <access at v + k>   (unsafe twin: the access sits in the else-branch,
        or the guard uses <=)"""
        r = self.rng
        cands = []
        for b in self.bufs:
            for d, E in enumerate(b.shape):
                for L in self.loops:
                    if L.hi.key() == E.key() and L.lo == 0:
                        cands.append((b, d, E, L))
        if not cands:
            return False
        b, d, E, L = r.choice(cands)
        k = r.choice([1, 1, 2])
        idx = [self.index_for(e) if j != d else f"{L.var} + {k}" for j, e in enumerate(b.shape)]
        acc = f"{b.name}[{', '.join(idx)}]"
        op = "<"
        twin = None
        if self.twin_budget and r.random() < 0.6:
            self.twin_budget = 0
            twin = r.choice(["else", "le"])
            self.twin_site = f"guarded access {acc} under 'if {L.var} + {k} < {E}' moved to the {twin} variant"
            if twin == "le":
                op = "<="
        self.emit(ind, f"if {L.var} + {k} {op} {E}:")
        ws = [w for w in self.writable() if w is not b] or self.writable()
        tgt = self.read(r.choice(ws)) if ws else None
        stmt = f"{tgt} = {acc} * 2.0" if (tgt and r.random() < 0.6) or not b.init else f"{acc} = {self.rhs(1)}"
        if twin == "else":
            self.emit(ind + 1, "pass")
            self.emit(ind, "else:")
            self.emit(ind + 1, stmt)
        else:
            self.emit(ind + 1, stmt)
        self.nstmts += 2
        return True

    def if_(self, ind, depth, budget):
        if self.loops and self.rng.random() < 0.35 and self.guarded_access(ind):
            return
        self.emit(ind, f"if {self.cond()}:")
        self.nstmts += 1
        self.block(ind + 1, depth + 1, max(1, (budget - 1) // 2))
        if self.rng.random() < 0.4:
            self.emit(ind, "else:")
            self.block(ind + 1, depth + 1, max(1, (budget - 1) // 2))

    def alloc(self, ind, depth):
        r = self.rng
        name = self.fresh(r.choice(["t", "u", "tmp", "acc"]))
        mem = r.choice(["", "", " @ DRAM", " @ DRAM_STACK"]) if True else ""
        if r.random() < 0.55:
            self.emit(ind, f"{name}: {self.kn.precision}{mem}")
            self.emit(ind, f"{name} = {self.rhs(1)}")
            self.nstmts += 2
            self.bufs.append(Buf(name, [], "tmp"))
        else:
            nd = r.choice([1, 1, 2])
            shape = [self.pick_ext() for _ in range(nd)]
            if mem == " @ DRAM_STACK" and any(e.sym for e in shape):
                mem = ""
            self.emit(ind, f"{name}: {self.kn.precision}[{', '.join(map(str, shape))}]{mem}")
            self.nstmts += 1
            b = Buf(name, shape, "tmp", init=False)
            # initialise fully before any read
            vs = []
            for d, E in enumerate(shape):
                v = f"{name}_i{d}"
                self.emit(ind + d, f"for {v} in seq(0, {E}):")
                self.loops.append(Loop(v, 0, E))
                vs.append(v)
            self.emit(ind + nd, f"{name}[{', '.join(vs)}] = {self.rhs(1)}")
            for _ in shape:
                self.loops.pop()
            self.nstmts += nd + 1
            b.init = True
            self.bufs.append(b)

    def window_stmt(self, ind):
        r = self.rng
        cands = [b for b in self.bufs if len(b.shape) >= 1 and b.kind in ("arg", "tmp", "win")]
        if not cands:
            return False
        b = r.choice(cands)
        name = self.fresh(r.choice(["w", "win"]))
        acc = []
        shape = []
        for E in b.shape:
            m = self.ext_min(E)
            if len(b.shape) > 1 and r.random() < 0.4:
                acc.append(self.index_for(E))
            else:
                lo = r.choice([0, 0, 1]) if m >= 2 else 0
                hiE = E if r.random() < 0.6 else E.plus(-1) if m - 1 > lo else E
                if self.twin_budget and r.random() < 0.3:
                    self.twin_budget = 0
                    hiE = E.plus(1)
                    self.twin_site = f"window hi {hiE} beyond extent {E}"
                acc.append(f"{lo}:{hiE}")
                shape.append(hiE.plus(-lo))
        if not shape:
            return False
        self.emit(ind, f"{name} = {b.name}[{', '.join(acc)}]")
        self.nstmts += 1
        nb_ = Buf(name, shape, "win")
        nb_.src = b
        self.bufs.append(nb_)
        if b.kind in ("tmp", "win") and r.random() < 0.5:
            # from here on the storage is reached through the new window only (sources
            # declared in this block are retired): the last use of an allocation is then a use
            # through a window, possibly a window of a window
            base = getattr(self, "block_base", 0)
            chain = []
            cur = b
            while cur is not None and cur.kind in ("tmp", "win"):
                chain.append(cur)
                cur = getattr(cur, "src", None)
            for k in range(base, len(self.bufs) - 1):
                if any(self.bufs[k] is c_ for c_ in chain):
                    self.bufs[k] = nb_
        # use it right away (write or read)
        self.assign(ind, target=nb_)
        return True

    def config_stmt(self, ind):
        r = self.rng
        cn, fields = r.choice(self.configs)
        f, t = r.choice(fields)
        if self.loops:
            # typechecker: config writes may not depend on loop iteration
            pass
        if t in ("f32", "f64"):
            srcs = [b.name for b in self.bufs if not b.shape and b.kind == "arg"]
            if self.loops:
                return False
            if (not srcs or r.random() < 0.4) or (t == "f64" and self.kn.precision != "f64"):
                # a literal that is not exactly representable in single precision
                self.emit(ind, f"{cn}.{f} = {r.choice(['0.1', '0.3', '2.5', '1.0'])}")
            else:
                self.emit(ind, f"{cn}.{f} = {r.choice(srcs)}")
        elif t == "bool":
            if not self.bools or self.loops:
                return False
            self.emit(ind, f"{cn}.{f} = {r.choice(self.bools)}")
        else:
            if self.loops:
                return False
            if self.sizes and t == "size":
                self.emit(ind, f"{cn}.{f} = {r.choice(sorted(self.sizes))}")
            elif t == "index":
                self.emit(ind, f"{cn}.{f} = {r.choice([0, 1, 2, 3])}")
            else:
                return False
        self.nstmts += 1
        return True

    def call(self, ind):
        r = self.rng
        cal = r.choice(self.callees)
        args = []
        used = set()
        size_bind = {}
        # choose buffers for buffer params first; sizes follow
        for p in cal["params"]:
            if p["k"] == "buf":
                nd = p["nd"]
                cands = [
                    b
                    for b in self.bufs
                    if len(b.shape) >= nd and b.name not in used and b.kind in ("arg", "tmp") and (nd > 0 or not b.shape or True)
                ]
                if nd == 0:
                    cands = [b for b in self.bufs if not b.shape and b.name not in used and b.kind != "win"]
                if not cands:
                    return False
                b = r.choice(cands)
                used.add(b.name)
                if nd == 0:
                    args.append((p, b.name))
                    continue
                # choose which dims are intervals
                dims = list(range(len(b.shape)))
                ivl = sorted(r.sample(dims, nd))
                acc = []
                k = 0
                for d, E in enumerate(b.shape):
                    if d in ivl:
                        szname = p["sizes"][k]
                        k += 1
                        if szname in size_bind:
                            want = size_bind[szname]
                            # need extent >= want: only if same symbol family
                            if want.sym == E.sym and want.c <= E.c or (want.sym is None and want.c <= self.ext_min(E)):
                                lo = 0
                                if want.sym == E.sym and want.c < E.c and r.random() < 0.5:
                                    lo = E.c - want.c
                                acc.append(f"{lo}:{want.plus(lo)}")
                            else:
                                return False
                        else:
                            m = self.ext_min(E)
                            if r.random() < 0.6 or m < 2:
                                want = E
                                acc.append(f"0:{E}")
                            else:
                                want = E.plus(-1)
                                lo = r.choice([0, 1])
                                acc.append(f"{lo}:{want.plus(lo)}")
                            if self.ext_min(want) < max(1, p.get("min", 1)):
                                return False
                            size_bind[szname] = want
                    else:
                        acc.append(self.index_for(E))
                if p.get("dense") and (len(ivl) != len(b.shape)):
                    return False
                args.append((p, f"{b.name}[{', '.join(acc)}]"))
                b.written = True
            else:
                args.append((p, None))
        out = []
        for p, a in args:
            if p["k"] == "size":
                e = size_bind.get(p["name"])
                if e is None:
                    e = Ext(None, max(1, p.get("min", 1)))
                if self.ext_min(e) < max(1, p.get("min", 1)):
                    return False
                if p.get("mod"):
                    if e.sym is not None or e.c % p["mod"] != 0:
                        return False
                out.append(str(e))
            elif p["k"] == "index":
                lo, hi = p["range"]
                v = r.choice([lo, hi])
                cfg_idx = [f"{cn}.{f}" for cn, fields in self.configs for f, t in fields if t == "index"] if self.kn.p_config > 0 else []
                if cfg_idx and r.random() < 0.25:
                    v = r.choice(cfg_idx)  # accepted only when the callee's assertions hold for the field's value
                if self.twin_budget and r.random() < 0.3:
                    self.twin_budget = 0
                    v = hi + 1
                    self.twin_site = f"callee index argument {v} violates assertion <= {hi}"
                out.append(str(v))
            elif p["k"] == "bool":
                cfg_bools = [f"{cn}.{f}" for cn, fields in self.configs for f, t in fields if t == "bool"] if self.kn.p_config > 0 else []
                if cfg_bools and r.random() < 0.45:
                    # a control-typed configuration field passed directly as an argument: a read of the field
                    out.append(r.choice(cfg_bools))
                else:
                    out.append(r.choice(self.bools) if self.bools else r.choice(["True", "False"]))
            else:
                out.append(a)
        self.emit(ind, f"{cal['name']}({', '.join(out)})")
        self.nstmts += 1
        return True


# ----------------------------------------------------------------------------
def _gen_config(rng, idx):
    name = f"Cfg{idx}" if idx else "Cfg"
    fields = [("a", "f32")]
    if rng.random() < 0.6:
        fields.append(("b", "bool"))
    if rng.random() < 0.5:
        fields.append(("n", rng.choice(["index", "size"])))
    if rng.random() < 0.4:
        fields.append(("c", "f32"))
    if rng.random() < 0.35:
        fields.append(("d", "f64"))
    lines = ["@config", f"class {name}:"]
    for f, t in fields:
        lines.append(f"    {f}: {t}")
    return (name, fields), "\n".join(lines) + "\n\n"


def _gen_callee(rng, kn: Knobs, idx, configs):
    """a small sub-procedure with window/dense/scalar/size/index/bool parameters"""
    name = f"sub{idx}"
    prec = kn.precision
    params = []
    sig = []
    preds = []
    nsz = rng.choice([1, 1, 2])
    sizes = [f"n{k}" if nsz > 1 else "n" for k in range(nsz)]
    if nsz == 1:
        sizes = ["n"]
    for s in sizes:
        p = {"k": "size", "name": s, "min": 1}
        if rng.random() < 0.25:
            p["min"] = 2
            preds.append(f"{s} >= 2")
        params.append(p)
        sig.append(f"{s}: size")
    nb = rng.choice([1, 2, 2])
    bufs = []
    for b in range(nb):
        nd = rng.choice([1, 1, 2]) if nsz > 1 else 1
        dims = [rng.choice(sizes) for _ in range(nd)]
        bn = ["dst", "src", "aux"][b]
        dense = rng.random() < 0.15
        p = {"k": "buf", "name": bn, "nd": nd, "sizes": dims, "dense": dense}
        params.append(p)
        if dense:
            sig.append(f"{bn}: {prec}[{', '.join(dims)}]")
        else:
            sig.append(f"{bn}: [{prec}][{', '.join(dims)}]")
            if rng.random() < 0.3:
                preds.append(f"stride({bn}, {nd - 1}) == 1")
                p["unit_stride"] = True
        bufs.append((bn, dims))
    scal = None
    if rng.random() < 0.4:
        scal = "s"
        params.append({"k": "buf", "name": "s", "nd": 0, "sizes": []})
        sig.append(f"s: {prec}")
    idxp = None
    if rng.random() < 0.3:
        idxp = "off"
        params.append({"k": "index", "name": "off", "range": (0, 2)})
        sig.append("off: index")
        preds.append("off >= 0")
        preds.append("off <= 2")
    boolp = None
    if rng.random() < (0.45 if kn.p_config > 0 else 0.15):
        boolp = "go"
        params.append({"k": "bool", "name": "go"})
        sig.append("go: bool")
    lines = ["@proc", f"def {name}({', '.join(sig)}):"]
    for p in preds:
        lines.append(f"    assert {p}")
    # body: loops over dst's dims
    dst, ddims = bufs[0]
    ind = 1
    vs = []
    for d, s in enumerate(ddims):
        v = ["i", "j"][d]
        lines.append("    " * ind + f"for {v} in seq(0, {s}):")
        ind += 1
        vs.append((v, s))
    def rd(bn, dims):
        ix = []
        for s in dims:
            m = [v for v, sz in vs if sz == s]
            ix.append(rng.choice(m) if m else "0")
        return f"{bn}[{', '.join(ix)}]"
    terms = []
    for bn, dims in bufs[1:]:
        terms.append(rd(bn, dims))
    if scal:
        terms.append("s")
    if not terms:
        terms.append(rng.choice(["1.0", "2.0"]))
    if idxp and rng.random() < 0.5:
        # use the index parameter in a guard
        lines.append("    " * ind + f"if {vs[0][0]} >= off:")
        ind += 1
    if boolp:
        lines.append("    " * ind + f"if {boolp}:")
        ind += 1
    rhs = f" {rng.choice(['+', '*'])} ".join(terms)
    op = rng.choice(["=", "+=", "="])
    lines.append("    " * ind + f"{rd(dst, ddims)} {op} {rhs}")
    return {"name": name, "params": params}, "\n".join(lines) + "\n\n"


def gen_program(rng, kn: Knobs = None, root="root") -> GenProgram:
    kn = kn or Knobs()
    text = [HEADER]
    configs = []
    if kn.p_config > 0:
        for i in range(rng.choice([1, 1, 2])):
            c, t = _gen_config(rng, i)
            configs.append(c)
            text.append(t)
    callees = []
    if kn.p_call > 0:
        for i in range(kn.ncallees):
            c, t = _gen_callee(rng, kn, i, configs)
            callees.append(c)
            text.append(t)
    g = _Gen(rng, kn, root)
    g.configs = configs
    g.callees = callees
    prec = kn.precision
    sig = []
    # sizes
    if kn.symbolic:
        for s in rng.sample(["n", "m", "p"], rng.choice([1, 2, 2])):
            g.sizes[s] = 1
            g.used_names.add(s)
            sig.append(f"{s}: size")
    # assertions on sizes
    for s in sorted(g.sizes):
        roll = rng.random()
        if roll < 0.3:
            c = rng.choice([2, 3])
            g.asserts.append(f"{s} >= {c}")
            g.sizes[s] = c
        elif roll < 0.4:
            c = rng.choice([2, 4])
            g.asserts.append(f"{s} % {c} == 0")
            g.sizes[s] = c
    # buffers
    nb = rng.choice([2, 2, 3, 3, 4])
    names = ["x", "y", "z", "A", "B", "out"]
    if kn.hostile_names:
        names = ["x", "x_1", "i_1", "ctxt", "y", "tmp", "_x"][:]
        rng.shuffle(names)
    for k in range(nb):
        nm = names[k]
        g.used_names.add(nm)
        nd = rng.choice([1, 1, 1, 2, 2, 3])
        shape = [g.pick_ext() for _ in range(nd)]
        win = rng.random() < 0.25
        if win:
            sig.append(f"{nm}: [{prec}][{', '.join(map(str, shape))}]")
        else:
            mem = rng.choice(["", "", " @ DRAM"])
            sig.append(f"{nm}: {prec}[{', '.join(map(str, shape))}]{mem}")
        g.bufs.append(Buf(nm, shape, "arg", window_arg=win))
    if rng.random() < 0.4:
        g.used_names.add("sc")
        sig.append(f"sc: {prec}")
        g.bufs.append(Buf("sc", [], "arg"))
    if rng.random() < 0.3:
        g.used_names.add("flag")
        sig.append("flag: bool")
        g.bools.append("flag")
    if rng.random() < kn.p_idxarg:
        g.used_names.add("q")
        sig.append("q: index")
        g.idxargs["q"] = (0, 3)
        g.asserts.append("q >= 0")
        g.asserts.append("q <= 3")
    if rng.random() < kn.p_quasi * 0.6:
        # an index argument that may be negative (only used under / and %)
        g.used_names.add("r")
        sig.append("r: index")
        g.negidx = "r"
        g.asserts.append("r >= -6")
        g.asserts.append("r <= 6")
    body_budget = rng.randint(3, kn.max_stmts)
    lines = ["@proc", f"def {root}({', '.join(sig)}):"]
    for a in g.asserts:
        lines.append(f"    assert {a}")
    while g.nstmts < body_budget:
        g.stmt(1, 0, body_budget - g.nstmts)
    text.append("\n".join(lines + g.lines) + "\n")
    return GenProgram(
        "".join(text),
        root,
        [c["name"] for c in callees],
        [c[0] for c in configs],
        {"twin_site": g.twin_site, "knobs": kn.__dict__.copy()},
    )


# ----------------------------------------------------------------------------
_mod_counter = [0]


def load_program(text, scratch, tag="prog"):
    """write `text` to a fresh file under scratch and import it; returns module"""
    _mod_counter[0] += 1
    name = f"vfgen_{tag}_{_mod_counter[0]}"
    path = scratch / f"{name}.py"
    path.write_text(text)
    spec = importlib.util.spec_from_file_location(name, str(path))
    mod = importlib.util.module_from_spec(spec)
    sys.modules[name] = mod
    try:
        spec.loader.exec_module(mod)
    finally:
        sys.modules.pop(name, None)
    return mod
