"""Backend-hostile program shapes (E2/E5): parameterised templates aimed at the places
where the C code generator decides something the IR does not spell out — where a free
goes, whether `/` and `%` may be C's, which arguments are const, how windows of windows
are addressed.  Randomised in extents, offsets, nesting and statement order; scheduled
further at random like every other program."""

from .gen_prog import GenProgram, HEADER


def _c(rng, xs):
    return rng.choice(xs)


def t_negdiv(rng):
    """index arguments that may be negative under / and % in buffer indices, loop bounds and
    conditions; the minimum value is a multiple of the divisor as often as not"""
    c = _c(rng, [2, 3, 4])
    lo = -_c(rng, [c, 2 * c, 2 * c, 2 * c + 1, 5])
    hi = _c(rng, [c, 2 * c - 1, 2 * c, 5])
    qlo, qhi = lo // c, hi // c
    ext = qhi - qlo + 1
    pad = _c(rng, [0, 0, 1])
    form = _c(rng, ["div", "div", "mod", "both", "sub"])
    body = [f"assert k >= {lo}", f"assert k <= {hi}"]
    if form == "div":
        body.append(f"y[0] = x[k / {c} + {-qlo}]")
    elif form == "mod":
        body.append(f"y[0] = x[k % {c}]")
    elif form == "sub":
        s = _c(rng, [1, c, c + 1])
        body.append(f"y[0] = x[(k - {s}) / {c} + {-((lo - s) // c)}]")
        ext = (hi - s) // c - (lo - s) // c + 1
    else:
        body.append(f"y[0] = x[k / {c} + {-qlo}] + x[k % {c}]")
    if rng.random() < 0.5:
        body.append(f"for i in seq(0, k % {c}):")
        body.append(f"    y[i + 1] = x[(k - i) % {c}] * 2.0")
    if rng.random() < 0.4:
        body.append(f"if k / {c} < 0:")
        body.append(f"    y[{c}] += 1.0")
    ext = max(ext, c) + pad
    text = f"""@proc
def root(k: index, x: f32[{ext}], y: f32[{c + 1}]):
    """ + "\n    ".join(body) + "\n"
    return GenProgram(HEADER + text, "root", [], [], {"template": "negdiv", "prefer_ops": ["simplify", "bind_expr", "specialize"]})


def t_window_chain(rng):
    """a local buffer reached through a chain of windows; the last use of the storage is a
    use through the innermost window (or through a callee given that window)"""
    n = _c(rng, [4, 6, 8])
    two_d = rng.random() < 0.5
    depth = _c(rng, [1, 2, 2, 3])
    mem = _c(rng, ["DRAM", "DRAM", "DRAM_STACK"])
    decl = f"t: f32[{n}, {n}] @ {mem}" if two_d else f"t: f32[{n}] @ {mem}"
    lines = [decl]
    if two_d:
        lines += [f"for i in seq(0, {n}):", f"    for j in seq(0, {n}):", f"        t[i, j] = x[i] + x[j]"]
        row = _c(rng, [0, 1, n - 1])
        lines.append(f"w0 = t[{row}, 0:{n}]")
    else:
        lines += [f"for i in seq(0, {n}):", f"    t[i] = x[i] * 2.0"]
        lines.append(f"w0 = t[0:{n}]")
    size = n
    cur = "w0"
    for d in range(1, depth):
        lo = _c(rng, [0, 1])
        size2 = size - lo - _c(rng, [0, 1])
        if size2 < 2:
            break
        lines.append(f"w{d} = {cur}[{lo}:{lo + size2}]")
        cur, size = f"w{d}", size2
    filler = _c(rng, ["", "y[0] = x[0]", "for i in seq(0, 2):\n        y[i] = x[i + 1]"])
    if filler:
        lines.append(filler)
    use = _c(rng, ["loop", "call", "single"])
    if use == "loop":
        lines += [f"for i in seq(0, {size}):", f"    y[i] = {cur}[i]"]
    elif use == "call":
        lines.append(f"cp({size}, y[0:{size}], {cur})")
    else:
        lines.append(f"y[{size - 1}] = {cur}[{size - 1}] + {cur}[0]")
    text = f"""@proc
def cp(n: size, dst: [f32][n], src: [f32][n]):
    for i in seq(0, n):
        dst[i] = src[i]


@proc
def root(x: f32[{n}], y: f32[{n}]):
    """ + "\n    ".join(lines) + "\n"
    return GenProgram(HEADER + text, "root", ["cp"], [], {"template": "window_chain", "prefer_ops": ["inline", "inline_window", "reorder_stmts", "set_memory"]})


def t_scoped_allocs(rng):
    """allocations in both branches of an if, inside loops, and next to early last uses:
    every path must free each of them exactly once, after its last use"""
    n = _c(rng, [3, 4, 5])
    mem = _c(rng, ["DRAM", "DRAM", "DRAM_STACK"])
    cond = _c(rng, ["flag", "m > 2", "m > 2 and flag", "i + 1 < m"])
    in_loop = "i" in cond or rng.random() < 0.6
    ind = "        " if in_loop else "    "
    head = f"    for i in seq(0, m):\n" if in_loop else ""
    idx = "i" if in_loop else "0"
    text = f"""@proc
def root(m: size, x: f32[m, {n}], y: f32[m, {n}], flag: bool):
    assert m >= 1
{head}{ind}a: f32[{n}] @ {mem}
{ind}for j in seq(0, {n}):
{ind}    a[j] = x[{idx}, j]
{ind}if {cond if in_loop or 'i' not in cond else 'flag'}:
{ind}    b: f32[{n}] @ {mem}
{ind}    for j in seq(0, {n}):
{ind}        b[j] = a[j] * 2.0
{ind}    wb = b[{_c(rng, [0, 1])}:{n}]
{ind}    y[{idx}, 0] = wb[0]
{ind}else:
{ind}    c: f32[{n}, 2] @ {mem}
{ind}    for j in seq(0, {n}):
{ind}        c[j, 1] = a[{n - 1} - j]
{ind}    y[{idx}, {n - 1}] = c[0, 1]
{ind}y[{idx}, 1] = x[{idx}, 1]
"""
    return GenProgram(HEADER + text, "root", [], [], {"template": "scoped_allocs", "prefer_ops": ["lift_alloc", "sink_alloc", "reuse_buffer", "fission", "specialize", "lift_scope"]})


def t_const_windows(rng):
    """arguments that are only read are const in C (dense and window): reads through
    windows of them, and a callee writing through a window of a written one"""
    n = _c(rng, [4, 6])
    wr_src = rng.random() < 0.3
    first = "cp(3, dst[1:4], src[0:3])"
    second = _c(rng, ["ws = src[1:4]\n    dst[0] = ws[2]", "ws = src[1:4]\n    cp(3, dst[0:3], ws)", "wd = dst[0:3]\n    wd[1] = src[2]"])
    extra = "    src[0] = 1.0\n" if wr_src else ""
    text = f"""@proc
def cp(n: size, dst: [f32][n], src: [f32][n]):
    for i in seq(0, n):
        dst[i] = src[i]


@proc
def root(src: {_c(rng, ['f32[%d]' % n, '[f32][%d]' % n])}, dst: {_c(rng, ['f32[%d]' % n, '[f32][%d]' % n])}):
    {first}
    {second}
{extra}"""
    return GenProgram(HEADER + text, "root", ["cp"], [], {"template": "const_windows", "prefer_ops": ["inline", "stage_mem", "inline_window"]})





def t_mixed_prec(rng):
    """assignments and reductions between buffers of different precisions: the emitted C casts
    the right-hand side to the destination's type (`dst += (T)(rhs)`), which truncates toward
    zero for integer destinations and rounds for f32 <- f64"""
    types = {"a": "f32", "b": "f64", "c": "i8", "d": "i32", "e": _c(rng, ["ui8", "ui16", "f32"])}
    names = list(types)
    stmts = []
    for _ in range(_c(rng, [2, 3, 4, 5])):
        dst, src = rng.sample(names, 2)
        op = _c(rng, ["=", "+=", "+="])
        fl = lambda n: types[n] in ("f32", "f64")
        rhs = _c(rng, [f"{src}[i]", f"{src}[i]", f"{src}[i] * 2.0" if fl(src) else f"{src}[i] + {src}[i]", f"-{src}[i]" if not types[src].startswith("ui") else f"{src}[i]", f"{src}[i] + 0.5" if fl(src) else f"{src}[i]"])
        stmts.append(f"{dst}[i] {op} {rhs}")
    # at least one reduction whose cast matters: integer += float (truncation) or f32 += f64 (rounding)
    dst, src = _c(rng, [("c", "a"), ("d", "a"), ("c", "b"), ("d", "b"), ("a", "b")])
    stmts.insert(rng.randrange(len(stmts) + 1), f"{dst}[i] += {_c(rng, [f'{src}[i]', f'-{src}[i]', f'{src}[i] * 0.5'])}")
    body = "\n        ".join(stmts)
    scal = ""
    sarg = ""
    if rng.random() < 0.4:
        sarg = ", s: f64, t: f32"
        scal = "\n    t = s\n    s += a[0]"
    text = f"""@proc
def root(n: size, a: f32[n], b: f64[n], c: i8[n], d: i32[n], e: {types['e']}[n]{sarg}):
    for i in seq(0, n):
        {body}{scal}
"""
    return GenProgram(HEADER + text, "root", [], [], {"template": "mixed_prec"})


def t_index_identities(rng):
    """index expressions containing the identity / absorbing forms that the backend's index
    simplifier folds (0 + e, e + 0, e - 0, 0 - e, 0 * e, 1 * e, e / 1, -(-e), constants on both
    sides) in buffer subscripts, window bounds and call arguments; such forms are what
    substituting 0 or 1 for an iterator (unroll_loop, cut_loop, partial_eval) leaves behind"""
    N = _c(rng, [8, 9, 12])
    H = _c(rng, [3, 4])  # j in [0, H)

    def f(v):
        # each form has a value in [0, N) for 0 <= v < H
        return _c(
            rng,
            [
                f"0 - {v} + {H}",
                f"{H} - {v} - 0",
                f"0 + {v}",
                f"{v} + 0",
                f"1 * {v} + 0",
                f"{v} * 1",
                f"{v} / 1",
                f"-(-{v})",
                f"0 - (0 - {v})",
                f"{H - 1} - (0 - {v})",
                f"0 * {v} + {_c(rng, [0, 1, 2])}",
                f"(0 - {v}) + {N - 1}",
                f"{v} * 1 + 0 * {v}",
                f"-{v} + {H}",
                f"0 - {v} + {v} + {v}",
                f"(0 + {v}) % {N}",
                f"(0 - {v} + {N}) % {N}",
                f"(0 - {v}) / 2 + {H}",
            ],
        )

    lines = []
    for _ in range(_c(rng, [2, 3, 4])):
        lines.append(f"y[{f('j')}] {_c(rng, ['=', '+='])} x[{f('j')}]")
    if rng.random() < 0.6:
        la, lb = f("j"), f("j")
        lines.append(f"cp(2, y[{la} : ({la}) + 2], x[{lb} : ({lb}) + 2])")
    body = "\n        ".join(lines)
    # the same forms with the iterator of a second loop that scheduling may unroll / cut
    tail = f"y[{f('i')}] = x[i + (0 - 0)]"
    text = f"""@proc
def cp(n: size, dst: [f32][n], src: [f32][n]):
    for k in seq(0, n):
        dst[0 + k] = src[k - 0]


@proc
def root(x: f32[{N + 2}], y: f32[{N + 2}]):
    for j in seq(0, {H}):
        {body}
    for i in seq(0, {H}):
        {tail}
"""
    return GenProgram(HEADER + text, "root", ["cp"], [], {"template": "index_identities", "prefer_ops": ["unroll_loop", "cut_loop", "simplify", "inline"]})


def t_sibling_ranges(rng):
    """sibling loops whose iterators have one spelling but ranges of different sign relative to an
    offset: the same index text (`(i - s) % c`, `(i - s) / c`) needs C's operators in one loop and
    floor semantics in the other, in either order; also as a window offset of a call"""
    c = _c(rng, [2, 3, 4])
    s_ = _c(rng, [2, 3, 4, 5])
    v = _c(rng, ["i", "j"])
    hi = s_ + _c(rng, [c, c + 1, 2 * c])
    N = 2 * (hi + c + 2)
    base = (s_ + c - 1) // c + 1  # keeps (v - s) / c + base >= 0 for v >= 0

    def stmt(d):
        k = _c(rng, ["mod", "div", "both", "win"])
        if k == "mod":
            return f"{d}[({v} - {s_}) % {c}] += x[{v}]"
        if k == "div":
            return f"{d}[({v} - {s_}) / {c} + {base}] += x[{v}]"
        if k == "both":
            return f"{d}[({v} - {s_}) % {c} + {c} * (({v} - {s_}) / {c} + {base})] += x[{v}]"
        return f"cp(2, {d}[({v} - {s_}) % {c} : ({v} - {s_}) % {c} + 2], x[{v} : {v} + 2])"

    nonneg = f"for {v} in seq({s_}, {hi}):\n        {stmt('y')}"
    neg = f"for {v} in seq(0, {s_}):\n        {stmt('z')}"
    mixed = f"for {v} in seq({max(0, s_ - 1)}, {s_ + 2}):\n        {stmt('y')}"
    loops = _c(rng, [[nonneg, neg], [nonneg, neg], [neg, nonneg], [nonneg, mixed, neg], [nonneg, nonneg.replace("y[", "z["), neg]])
    body = "\n    ".join(loops)
    text = f"""@proc
def cp(n: size, dst: [f32][n], src: [f32][n]):
    for k in seq(0, n):
        dst[k] += src[k]


@proc
def root(x: f32[{N}], y: f32[{N}], z: f32[{N}]):
    {body}
"""
    return GenProgram(HEADER + text, "root", ["cp"], [], {"template": "sibling_ranges", "prefer_ops": ["simplify", "unroll_loop", "fuse", "reorder_stmts"]})


def t_window_forms(rng):
    """windows whose address computation the backend has to get right from scratch every time:
    buffers of one spelling but different shapes declared in sibling scopes, each windowed at a
    non-zero row and handed to a callee; window (and point) indices that are sums of quotients /
    remainders in a dimension whose stride is not 1"""
    a, b = rng.sample([4, 6, 8, 12], 2)
    r1, r2 = _c(rng, [1, 2]), _c(rng, [1, 2])
    nm = _c(rng, ["tile", "t", "buf"])
    idx = _c(rng, ["i / 2 + j / 2", "i / 2 + j / 2", "i % 2 + j / 2", "i / 2 + j % 2", "(i + j) / 2", "i % 2 + j / 2", "i / 2 + 1", "1 + j / 2"])
    text = f"""@proc
def cp(n: size, dst: [f32][n], src: [f32][n]):
    for k in seq(0, n):
        dst[k] = src[k]


@proc
def root(x: f32[4, 12], y: f32[4, 12]):
    for i in seq(0, 2):
        {nm}: f32[3, {a}]
        for p in seq(0, 3):
            for q in seq(0, {a}):
                {nm}[p, q] = x[p, q] + 1.0
        cp({min(a, 4)}, y[i, 0:{min(a, 4)}], {nm}[{r1}, 0:{min(a, 4)}])
    for i in seq(0, 2):
        {nm}: f32[3, {b}]
        for p in seq(0, 3):
            for q in seq(0, {b}):
                {nm}[p, q] = x[p, q] * 2.0
        cp({min(b, 4)}, y[i + 2, 0:{min(b, 4)}], {nm}[{r2}, 0:{min(b, 4)}])
    for i in seq(0, 4):
        for j in seq(0, 4):
            cp(4, y[{idx}, 4:8], x[{idx}, 8:12])
            y[{idx}, 11] = x[{idx}, 0]
"""
    return GenProgram(HEADER + text, "root", ["cp"], [], {"template": "window_forms", "prefer_ops": ["inline", "simplify", "unroll_loop"]})


def t_name_nest(rng):
    """after inlining, several live variables share one spelling in nested scopes (loop iterators
    and scalar temporaries of caller, callee and callee's callee), next to user names spelled like
    the backend's fallbacks (t_1, i_1): every C identifier must stay distinct from all live ones"""
    v = _c(rng, ["i", "j"])
    t = _c(rng, ["t", "s"])
    arg = _c(rng, [t, t, "x"])          # caller buffer with the callee-local's spelling
    spare = _c(rng, [f"{t}_1", f"{v}_1", f"{t}_2"])
    text = f"""@proc
def leaf(n: size, dst: [f32][n], src: [f32][n]):
    for {v} in seq(0, n):
        {t}: f32
        {t} = src[{v}] * 2.0
        dst[{v}] = {t}


@proc
def mid(n: size, dst: [f32][n], src: [f32][n]):
    for {v} in seq(0, n):
        {t}: f32
        {t} = src[{v}] + 1.0
        leaf(1, dst[{v}:{v} + 1], src[{v}:{v} + 1])
        dst[{v}] += {t}


@proc
def root({arg}: f32[4], {spare}: f32[4], y: f32[4, 4]):
    for {v} in seq(0, 4):
        mid(4, y[{v}, 0:4], {arg})
        for k in seq(0, 4):
            {spare}[k] += y[{v}, k] + {arg}[k]
"""
    return GenProgram(HEADER + text, "root", ["leaf", "mid"], [], {"template": "name_nest", "op_sequence": ["inline", "inline", "inline_window", "inline_window"], "prefer_ops": ["inline", "inline", "inline_window", "unroll_loop"]})


def t_alloc_shapes(rng):
    """heap allocations whose extents are compound expressions (%, /, +, - of sizes) in leading and
    non-leading dimensions, and whose last use sits in a then- or else-branch, possibly followed by
    more uses: allocation size, index linearisation and the place of free() all depend on them"""
    e1 = _c(rng, ["n % 4", "n % 4", "n / 2", "n % 4 + 1", "m", "n - n / 2"])
    pre = {"n % 4": "assert n % 4 >= 1", "n / 2": "assert n >= 2", "n % 4 + 1": "", "m": "", "n - n / 2": ""}[e1]
    two_d = rng.random() < 0.7
    shape = f"m, {e1}" if two_d else e1
    idx = (lambda a, b: f"{a}, {b}") if two_d else (lambda a, b: b)
    where = _c(rng, ["then", "else", "else", "after", "else_then_after"])
    fill = f"for i in seq(0, m):\n        for j in seq(0, {e1}):\n            tmp[{idx('i', 'j')}] = x[i, j] + 1.0" if two_d else f"for j in seq(0, {e1}):\n        tmp[j] = x[0, j] + 1.0"
    use = f"y[0, 0] += tmp[{idx('0', '0')}]"
    use2 = f"y[m - 1, 0] = tmp[{idx('m - 1', '0')}] * 2.0" if two_d else f"y[m - 1, 0] = tmp[0] * 2.0"
    if where == "then":
        tail = f"if flag:\n        {use}\n    else:\n        y[0, 0] = 0.0"
    elif where == "else":
        tail = f"if flag:\n        y[0, 0] = 0.0\n    else:\n        {use}"
    elif where == "after":
        tail = f"{use}\n    {use2}"
    else:
        tail = f"if flag:\n        y[0, 0] = 0.0\n    else:\n        {use}\n    {use2}"
    extra = "    other: f32[4]\n    other[0] = 1.0\n    y[0, 1] = other[0]\n" if rng.random() < 0.4 else ""
    text = f"""@proc
def root(n: size, m: size, x: f32[m, n + 4], y: f32[m, 4], flag: bool):
    assert n <= 12
    {pre if pre else 'assert m <= 6'}
    tmp: f32[{shape}]
    {fill}
    {tail}
{extra}"""
    return GenProgram(HEADER + text, "root", [], [], {"template": "alloc_shapes", "prefer_ops": ["simplify", "lift_alloc", "sink_alloc"]})

ALL = [t_negdiv, t_negdiv, t_window_chain, t_window_chain, t_scoped_allocs, t_const_windows, t_mixed_prec, t_mixed_prec, t_index_identities, t_index_identities, t_sibling_ranges, t_sibling_ranges, t_window_forms, t_window_forms, t_name_nest, t_name_nest, t_alloc_shapes, t_alloc_shapes]


def any_ctemplate(rng):
    return rng.choice(ALL)(rng)
