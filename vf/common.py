"""Paths, environment and small helpers shared by every part of the machinery."""

import hashlib
import json
import os
import subprocess
import sys
from pathlib import Path

VERIF = Path(__file__).resolve().parent.parent
REPO = Path(os.environ.get("VERIF_REPO", "/repo"))
DEPS = VERIF / ".deps"
# seeded-change detection runs (tools/seeded.py) point these elsewhere so that a run against a
# patched tree can never overwrite the evidence of the unchanged tree
EVIDENCE = Path(os.environ.get("VERIF_EVIDENCE", VERIF / "evidence"))
REPLAYS = Path(os.environ.get("VERIF_REPLAYS", VERIF / "replays"))
SEEDS = VERIF / "seeds"
WHEELS = Path("/opt/veriftools/wheels")
PY = "/venv/bin/python"
GUARD = "EXO_VERIF"
NCPU = min(16, os.cpu_count() or 1)


def ensure_deps(quiet=True):
    """Install icontract/deal beside the repo's interpreter (idempotent, offline).

    A fresh restore holds committed files only, so every check calls this."""
    marker = DEPS / "icontract"
    if marker.exists():
        return True
    DEPS.mkdir(exist_ok=True)
    cmd = [
        "/venv/bin/pip",
        "install",
        "--no-index",
        "--find-links",
        str(WHEELS),
        "--target",
        str(DEPS),
        "--quiet",
        "icontract",
        "deal",
    ]
    r = subprocess.run(cmd, capture_output=True, text=True)
    if r.returncode != 0 and not quiet:
        sys.stderr.write(r.stdout + r.stderr)
    return marker.exists()


def worker_env(extra=None):
    env = dict(os.environ)
    env["PYTHONHASHSEED"] = env.get("VERIF_HASHSEED", "0")
    env[GUARD] = "1"
    pp = [str(VERIF), str(DEPS), str(REPO / "src")]
    if env.get("PYTHONPATH"):
        pp.append(env["PYTHONPATH"])
    env["PYTHONPATH"] = os.pathsep.join(pp)
    env["PYTHONDONTWRITEBYTECODE"] = "1"
    if extra:
        env.update(extra)
    return env


def jhash(obj) -> str:
    return hashlib.sha1(
        json.dumps(obj, sort_keys=True, default=str).encode()
    ).hexdigest()[:16]


def shash(s: str) -> str:
    return hashlib.sha1(s.encode()).hexdigest()[:16]


class CaseTimeout(BaseException):
    """raised by the per-case SIGALRM watchdog (inconclusive, never a verdict)"""


def install_speedups():
    """Harness-side memoisation of pysmt's solver discovery.

    exo creates a pysmt Factory for every solver instance; the Factory re-imports
    the (absent) msat/cvc/yices/... back ends every time (~0.18 s).  The set of
    installed solvers cannot change during a run, so it is computed once.  This
    touches a third-party library from the harness only; exo's answers are the same."""
    try:
        import pysmt.factory as F
    except Exception:
        return
    if getattr(F.Factory, "_vf_memo", False):
        return
    cache = {}

    def memo(name, attrs):
        orig = getattr(F.Factory, name)

        def wrapper(self):
            if name not in cache:
                orig(self)
                cache[name] = {a: dict(getattr(self, a)) for a in attrs}
            else:
                for a, v in cache[name].items():
                    setattr(self, a, dict(v))

        setattr(F.Factory, name, wrapper)

    memo("_get_available_solvers", ["_all_solvers", "_all_unsat_core_solvers"])
    memo("_get_available_qe", ["_all_qelims"])
    memo("_get_available_interpolators", ["_all_interpolators"])
    F.Factory._vf_memo = True
