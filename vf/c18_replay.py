"""python -m vf.c18_replay <sessions.json> <variant.json>: replay recorded sessions in
this (fresh) process under a history variant and print one JSON digest line per session."""

import hashlib
import json
import pathlib
import sys
import tempfile
import shutil


def sha(s):
    return hashlib.sha1(s.encode()).hexdigest()[:16]


UNRELATED = '''
@proc
def unrelated_{k}(n: size, a: f32[n], b: f32[n]):
    for i in seq(0, n):
        a[i] = b[i] * 2.0
'''


def main(argv):
    sessions = json.load(open(argv[0]))
    variant = json.load(open(argv[1]))
    from .common import install_speedups

    install_speedups()
    from exo.core.prelude import Sym
    from .gen_prog import load_program, HEADER
    from .gen_sched import Session, apply_step

    # prior process history: symbols / procedures created before the session
    for _ in range(variant.get("sym_offset", 0)):
        Sym("dummy")
    scratch = pathlib.Path(tempfile.mkdtemp(prefix="vf_c18_"))
    try:
        if variant.get("prior_procs"):
            load_program(HEADER + "".join(UNRELATED.format(k=k) for k in range(variant["prior_procs"])), scratch, tag="prior")
        for si, s in enumerate(sessions):
            text = s["text"]
            if variant.get("extra_defs") == "before":
                text = text.replace(HEADER, HEADER + UNRELATED.format(k=90) + "\n", 1)
            elif variant.get("extra_defs") == "after":
                text = text + "\n" + UNRELATED.format(k=91) + "\n"
            dig = {"i": si, "steps": [], "strs": []}
            if variant.get("sym_boundary") and si < 5:
                # history in which a power of ten of the global symbol counter falls among the
                # symbols this session creates (as if that many symbols had been made before)
                import random as _r

                target = 10 ** (3 + si) - _r.Random(f"{variant.get('sym_boundary')}:{si}").randrange(0, 160)
                if Sym._unq_count < target:
                    Sym._unq_count = target
            try:
                mod = load_program(text, scratch, tag=f"s{si}")
                sess = Session(mod, s["root"], text)
                dig["strs"].append(sha(str(sess.cur)))
                if variant.get("compile_history"):
                    # earlier compilations in this process: the same procedure as part of another
                    # library, and a relative of it (same argument symbols, stronger precondition)
                    try:
                        from exo.API import compile_procs_to_strings as _cps

                        rel = None
                        for a in sess.cur._loopir_proc.args:
                            if type(a.type).__name__ == "Size":
                                for k in (8, 4, 2):
                                    try:
                                        rel = sess.cur.add_assertion(f"{a.name} >= {k}")
                                        break
                                    except Exception:
                                        pass
                            if rel is not None:
                                break
                        if rel is not None:
                            _cps([rel], "relative.h")  # the relative first: what it leaves behind is narrower
                        _cps([sess.cur], "earlier_lib.h")
                        if rel is not None:
                            try:
                                from exo.stdlib.scheduling import simplify as _simp

                                _simp(rel)
                            except Exception:
                                pass
                    except Exception:
                        pass
                for sti, st in enumerate(s["steps"]):
                    if variant.get("sym_boundary"):
                        # the user defines other procedures between two scheduling calls: the symbol
                        # counter passes a power of ten among the symbols the next step creates
                        import random as _r

                        rr = _r.Random(f"{variant.get('sym_boundary')}:{si}:{sti}")
                        if rr.random() < 0.6:
                            nxt = 10 ** len(str(Sym._unq_count))
                            Sym._unq_count = max(Sym._unq_count, nxt - rr.randrange(0, 14))
                    r = apply_step(sess, st)
                    if r.status == "accepted":
                        dig["steps"].append("A")
                        try:
                            dig["strs"].append(sha(str(sess.cur)))
                        except Exception as e:
                            dig["strs"].append("printer:" + type(e).__name__)
                    else:
                        if "unknown result from z3" in str(r.exc):
                            # the solver gave up (the harness sets a z3 timeout): not an answer of exo
                            dig["steps"].append("U")
                            dig["unstable"] = True
                        else:
                            dig["steps"].append("R:" + type(r.exc).__name__)
                        if variant.get("keep_text"):
                            dig.setdefault("errors", []).append(str(r.exc)[:300])
                try:
                    from exo.API import compile_procs_to_strings

                    procs = [sess.cur]
                    c, h = compile_procs_to_strings(procs, "t.h")
                    dig["c"] = sha(c)
                    dig["h"] = sha(h)
                    if variant.get("keep_text"):
                        dig["c_text"] = c
                        dig["h_text"] = h
                        dig["final"] = str(sess.cur)
                except Exception as e:
                    dig["c"] = "reject:" + type(e).__name__
                    dig["h"] = dig["c"]
            except Exception as e:
                dig["error"] = type(e).__name__ + ":" + str(e)[:100]
            print("DIGEST " + json.dumps(dig), flush=True)
    finally:
        shutil.rmtree(scratch, ignore_errors=True)


if __name__ == "__main__":
    main(sys.argv[1:])
