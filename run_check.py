#!/venv/bin/python
"""Single entry point of the /verif machinery.

  run_check.py --setup
  run_check.py <Cxx> [--tier quick|thorough] [--seed N]
  run_check.py <Cxx> --replay <path>

Exit 0: property held on everything observed (KNOWN-FINDING lines allowed);
exit 1: a line `VIOLATION property=<id> replay=<path>` was printed;
exit 2: INCONCLUSIVE (the deciding monitor was not reached often enough).
"""

import argparse
import os
import sys
from pathlib import Path

HERE = Path(__file__).resolve().parent
sys.path.insert(0, str(HERE))

from vf import common  # noqa: E402


def main():
    ap = argparse.ArgumentParser()
    ap.add_argument("prop", nargs="?")
    ap.add_argument("--tier", default=os.environ.get("VERIF_TIER", "quick"))
    ap.add_argument("--seed", type=int, default=int(os.environ.get("VERIF_SEED", "0")))
    ap.add_argument("--replay")
    ap.add_argument("--setup", action="store_true")
    a = ap.parse_args()

    if a.setup:
        ok = common.ensure_deps(quiet=False)
        common.EVIDENCE.mkdir(exist_ok=True)
        common.REPLAYS.mkdir(exist_ok=True)
        print("setup ok" if ok else "setup: could not install icontract/deal")
        return 0 if ok else 1

    if not a.prop:
        ap.error("property id required")
    common.ensure_deps()
    sys.path.insert(1, str(common.DEPS))
    if a.tier not in ("quick", "thorough"):
        a.tier = "quick"

    from vf import verdict

    if a.replay:
        rep, sig, text = verdict.replay_case(a.prop, a.replay)
        sys.stdout.write(text)
        if rep:
            print(f"VIOLATION property={a.prop} replay={a.replay}")
            return 1
        if rep is None:
            print("INCONCLUSIVE: replay did not complete")
            return 2
        print("not reproduced")
        return 0

    return verdict.run_property(a.prop, a.tier, a.seed)


if __name__ == "__main__":
    sys.exit(main())
